package checks

import (
	"fmt"
	"math"
	"runtime/debug"
	"strings"

	"github.com/ah-naf/borno/ast"
	"github.com/ah-naf/borno/lexer"
	"github.com/ah-naf/borno/parser"
	"github.com/ah-naf/borno/token"
	"github.com/ah-naf/borno/utils"

	"verifharness/bn"
)

// kindOf maps the implementation's token types to the harness's.
var kindOf = map[token.TokenType]bn.TokKind{
	token.LEFT_PAREN: bn.TLParen, token.RIGHT_PAREN: bn.TRParen, token.LEFT_BRACE: bn.TLBrace, token.RIGHT_BRACE: bn.TRBrace,
	token.LEFT_BRACKET: bn.TLBracket, token.RIGHT_BRACKET: bn.TRBracket, token.COMMA: bn.TComma, token.DOT: bn.TDot,
	token.MINUS: bn.TMinus, token.PLUS: bn.TPlus, token.SEMICOLON: bn.TSemi, token.COLON: bn.TColon, token.SLASH: bn.TSlash,
	token.STAR: bn.TStar, token.AND: bn.TAmp, token.OR: bn.TPipe, token.XOR: bn.TCaret, token.POWER: bn.TStarStar,
	token.NOT: bn.TTilde, token.MODULO: bn.TPercent, token.BANG: bn.TBang, token.BANG_EQUAL: bn.TBangEq, token.EQUAL: bn.TEq,
	token.EQUAL_EQUAL: bn.TEqEq, token.GREATER: bn.TGt, token.GREATER_EQUAL: bn.TGe, token.LEFT_SHIFT: bn.TShl, token.LESS: bn.TLt,
	token.LESS_EQUAL: bn.TLe, token.RIGHT_SHIFT: bn.TShr, token.IDENTIFIER: bn.TIdent, token.STRING: bn.TString, token.NUMBER: bn.TNumber,
	token.BREAK: bn.TBreak, token.CONTINUE: bn.TContinue, token.LOGICAL_AND: bn.TAndAnd, token.ELSE: bn.TElse, token.FALSE: bn.TFalse,
	token.FUN: bn.TFun, token.FOR: bn.TFor, token.IF: bn.TIf, token.NIL: bn.TNil, token.LOGICAL_OR: bn.TOrOr, token.PRINT: bn.TPrint,
	token.RETURN: bn.TReturn, token.TRUE: bn.TTrue, token.VAR: bn.TVar, token.WHILE: bn.TWhile, token.EOF: bn.TEOF,
}

// litString reads a STRING token's literal as text whatever its host type.
func litString(v interface{}) (string, bool) {
	switch x := v.(type) {
	case string:
		return x, true
	case []rune:
		return string(x), true
	case []byte:
		return string(x), true
	}
	return "", false
}

// litNumber reads a NUMBER token's literal as a double whatever its host type.
func litNumber(v interface{}) (float64, bool) {
	switch x := v.(type) {
	case float64:
		return x, true
	case float32:
		return float64(x), true
	case int:
		return float64(x), float64(int(float64(x))) == float64(x)
	case int64:
		return float64(x), int64(float64(x)) == x
	}
	return 0, false
}

// frontResult is what the real lexer (+ parser) did with a text.
type frontResult struct {
	Toks     []token.Token
	Stmts    []ast.Stmt
	ParseErr error
	Stderr   string
	HadError bool
	Panic    string
}

// realLex runs the real scanner in-process.
func (c *Ctx) realLex(src []rune) (fr frontResult) {
	f := c.Front()
	f.Begin()
	func() {
		defer func() {
			if r := recover(); r != nil {
				fr.Panic = fmt.Sprintf("%v\n%s", r, trimStack(debug.Stack()))
			}
		}()
		fr.Toks = lexer.NewScanner(src).ScanTokens()
	}()
	fr.HadError = utils.HadError
	fr.Stderr = f.Stderr(false)
	return
}

// realFront runs the real scanner and parser in-process.
func (c *Ctx) realFront(src []rune) (fr frontResult) {
	f := c.Front()
	f.Begin()
	func() {
		defer func() {
			if r := recover(); r != nil {
				fr.Panic = fmt.Sprintf("%v\n%s", r, trimStack(debug.Stack()))
			}
		}()
		fr.Toks = lexer.NewScanner(src).ScanTokens()
		fr.Stmts, fr.ParseErr = parser.NewParser(fr.Toks).Parse()
	}()
	fr.HadError = utils.HadError
	fr.Stderr = f.Stderr(false)
	return
}

// realParseToks runs the real parser on a token list.
func (c *Ctx) realParseToks(toks []token.Token) (fr frontResult) {
	f := c.Front()
	f.Begin()
	func() {
		defer func() {
			if r := recover(); r != nil {
				fr.Panic = fmt.Sprintf("%v\n%s", r, trimStack(debug.Stack()))
			}
		}()
		fr.Stmts, fr.ParseErr = parser.NewParser(toks).Parse()
	}()
	fr.HadError = utils.HadError
	fr.Stderr = f.Stderr(false)
	return
}

func trimStack(b []byte) string {
	s := string(b)
	if len(s) > 1500 {
		s = s[:1500]
	}
	return s
}

// diagLines splits a stderr text into its non-empty lines.
func diagLines(s string) []string {
	var out []string
	for _, l := range strings.Split(s, "\n") {
		if strings.TrimSpace(l) != "" {
			out = append(out, l)
		}
	}
	return out
}

func sameFloat(a, b float64) bool {
	return math.Float64bits(a) == math.Float64bits(b) || (a == b)
}

// convProgram converts the implementation's tree to the harness AST by a type
// switch over the exported node fields (String() is never used).
func convProgram(stmts []ast.Stmt) (out []bn.Stmt, err error) {
	defer func() {
		if r := recover(); r != nil {
			err = fmt.Errorf("convert: %v", r)
		}
	}()
	out = make([]bn.Stmt, 0, len(stmts))
	for _, s := range stmts {
		out = append(out, convStmt(s))
	}
	return out, nil
}

func convStmts(ss []ast.Stmt) []bn.Stmt {
	out := make([]bn.Stmt, 0, len(ss))
	for _, s := range ss {
		out = append(out, convStmt(s))
	}
	return out
}

func convVar(v *ast.VarStmt) *bn.Var {
	r := &bn.Var{Name: v.Name.Lexeme, Line: v.Line}
	if v.Initializer != nil {
		r.Init = convExpr(v.Initializer)
	}
	return r
}

func convStmt(s ast.Stmt) bn.Stmt {
	switch s := s.(type) {
	case *ast.ExpressionStatement:
		return &bn.ExprStmt{E: convExpr(s.Expression)}
	case *ast.PrintStatement:
		return &bn.Print{E: convExpr(s.Expression)}
	case *ast.VarStmt:
		return convVar(s)
	case *ast.VarListStmt:
		vl := &bn.VarList{}
		for i := range s.Declarations {
			vl.Decls = append(vl.Decls, convVar(&s.Declarations[i]))
		}
		return vl
	case *ast.BlockStmt:
		return &bn.Block{Stmts: convStmts(s.Block)}
	case *ast.IfStmt:
		r := &bn.If{C: convExpr(s.Condition), Then: convStmt(s.ThenBranch)}
		if s.ElseBranch != nil {
			r.Else = convStmt(s.ElseBranch)
		}
		return r
	case *ast.While:
		return &bn.While{C: convExpr(s.Condition), Body: convStmt(s.Body)}
	case *ast.ForStmt:
		r := &bn.For{Body: convStmt(s.Body)}
		if s.Initializer != nil {
			r.Init = convStmt(s.Initializer)
		}
		if s.Condition != nil {
			r.Cond = convExpr(s.Condition)
		}
		if s.Increment != nil {
			r.Incr = convExpr(s.Increment)
		}
		return r
	case *ast.FunctionStmt:
		r := &bn.Func{Name: s.Name.Lexeme, Body: convStmts(s.Body), Line: s.Name.Line}
		for _, p := range s.Params {
			r.Params = append(r.Params, p.Lexeme)
		}
		return r
	case *ast.Return:
		r := &bn.Return{Line: s.Keyword.Line}
		if s.Value != nil {
			r.V = convExpr(s.Value)
		}
		return r
	case *ast.BreakStmt:
		return &bn.Break{Line: s.Line}
	case *ast.ContinueStmt:
		return &bn.Continue{Line: s.Line}
	}
	panic(fmt.Sprintf("unknown statement node %T", s))
}

func convExprs(es []ast.Expr) []bn.Expr {
	var out []bn.Expr
	for _, e := range es {
		out = append(out, convExpr(e))
	}
	return out
}

func convExpr(e ast.Expr) bn.Expr {
	switch e := e.(type) {
	case *ast.Literal:
		switch v := e.Value.(type) {
		case nil:
			return &bn.Lit{Kind: bn.LNil, Line: e.Line}
		case bool:
			if v {
				return &bn.Lit{Kind: bn.LTrue, Line: e.Line}
			}
			return &bn.Lit{Kind: bn.LFalse, Line: e.Line}
		default:
			if s, ok := litString(v); ok {
				return &bn.Lit{Kind: bn.LStr, Str: s, Line: e.Line}
			}
			if n, ok := litNumber(v); ok {
				return &bn.Lit{Kind: bn.LNum, Num: n, Line: e.Line}
			}
		}
		panic(fmt.Sprintf("literal of host type %T", e.Value))
	case *ast.Identifier:
		return &bn.Ident{Name: e.Name.Lexeme, Line: e.Line}
	case *ast.Grouping:
		return &bn.Group{E: convExpr(e.Expression), Line: e.Line}
	case *ast.Unary:
		return &bn.Unary{Op: e.Operator.Lexeme, R: convExpr(e.Right), Line: e.Operator.Line}
	case *ast.Binary:
		op, ok := bn.BinOpOfKind[kindOf[e.Operator.Type]]
		if !ok {
			panic("binary node with operator " + e.Operator.Lexeme)
		}
		return &bn.Binary{Op: op, L: convExpr(e.Left), R: convExpr(e.Right), Line: e.Operator.Line}
	case *ast.Logical:
		switch kindOf[e.Operator.Type] {
		case bn.TOrOr:
			return &bn.Logical{Op: "or", Sym: e.Operator.Lexeme == "||", L: convExpr(e.Left), R: convExpr(e.Right), Line: e.Operator.Line}
		case bn.TAndAnd:
			return &bn.Logical{Op: "and", Sym: e.Operator.Lexeme == "&&", L: convExpr(e.Left), R: convExpr(e.Right), Line: e.Operator.Line}
		}
		panic("logical node with operator " + e.Operator.Lexeme)
	case *ast.AssignmentStmt:
		return &bn.Assign{Name: e.Name.Lexeme, V: convExpr(e.Value), Line: e.Line}
	case *ast.ArrayAssignment:
		return &bn.IndexSet{A: convExpr(e.Array), I: convExpr(e.Index), V: convExpr(e.Value), Line: e.Line}
	case *ast.PropertyAssignment:
		return &bn.PropSet{O: convExpr(e.Object), Name: e.Property.Lexeme, V: convExpr(e.Value), Line: e.Line}
	case *ast.Call:
		return &bn.Call{Callee: convExpr(e.Callee), Args: convExprs(e.Arguments), Line: e.Paren.Line}
	case *ast.ArrayAccess:
		return &bn.Index{A: convExpr(e.Array), I: convExpr(e.Index), Line: e.Line}
	case *ast.PropertyAccess:
		return &bn.Prop{O: convExpr(e.Object), Name: e.Property.Lexeme, Line: e.Line}
	case *ast.ArrayLiteral:
		return &bn.ArrayLit{Elems: convExprs(e.Elements)}
	case *ast.ObjectLiteral:
		return convObjLit(e)
	}
	panic(fmt.Sprintf("unknown expression node %T", e))
}

// stringLiteralProbe asks the real lexer what literal it attaches to a string.
func stringLiteralProbe(s string) interface{} {
	toks := lexer.NewScanner([]rune("\"" + s + "\"")).ScanTokens()
	if len(toks) >= 1 && toks[0].Type == token.STRING {
		return toks[0].Literal
	}
	return s
}
