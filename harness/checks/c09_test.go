package checks

import (
	"fmt"
	"strings"
	"testing"
	"time"
	"unicode/utf8"

	"pgregory.net/rapid"

	"github.com/ah-naf/borno/token"

	"verifharness/bn"
	"verifharness/reflex"
	"verifharness/run"
)

// C09 — tokens are a faithful maximal-munch partition of the source.

var c09Chars = []rune{'(', ')', '{', '}', '[', ']', ',', '.', '-', '+', ';', ':', '*', '/', '%', '^', '~', '!', '=', '<', '>', '&', '|',
	'"', '0', '7', '৩', 'a', 'ক', 'া', '_', ' ', '\t', '\r', '\n', '#', '@'}

var c09Frags = []string{
	bn.KwVar, bn.KwPrint, bn.KwNil, bn.KwOr, bn.KwAnd, bn.KwElse, bn.KwContinue, bn.KwBreak,
	bn.KwOr + "া", bn.KwVar + "_", "ni", "nill", "Nil", "নাহয়", // decomposed নাহয়: an identifier
	"x", "ক১", "_", "12", "১২", "1.5", "৩.১৪", "1.", ".5", "9223372036854775807", "9223372036854775808", "18446744073709551616", "৯২২৩৩৭২০৩৬৮৫৪৭৭৫৮০৮", "123456789012345678901234567890",
	"**", "*", "<=", "<<", "<", ">=", ">>", ">", "&&", "&", "||", "|", "==", "=", "!=", "!",
	"//c", "/*c*/", "/*", "*/", "/", "\"s\"", "\"a\nb\"", "\"", "\n", " ", "#", "(", ";",
}

func tokensText(toks []token.Token) string {
	var b strings.Builder
	for _, t := range toks {
		fmt.Fprintf(&b, "{%v %q %v L%d} ", kindOf[t.Type], t.Lexeme, renderLit(t.Literal), t.Line)
	}
	return b.String()
}

func renderLit(v interface{}) string {
	if v == nil {
		return "-"
	}
	if s, ok := litString(v); ok {
		return fmt.Sprintf("%q", s)
	}
	if n, ok := litNumber(v); ok {
		return fmt.Sprintf("%v", n)
	}
	return fmt.Sprintf("%T", v)
}

func refTokensText(toks []bn.Tok) string {
	var b strings.Builder
	for _, t := range toks {
		lit := "-"
		if t.Kind == bn.TString {
			lit = fmt.Sprintf("%q", t.Str)
		} else if t.Kind == bn.TNumber {
			lit = fmt.Sprintf("%v", t.Num)
		}
		fmt.Fprintf(&b, "{%v %q %v L%d} ", t.Kind, t.Text, lit, t.Line)
	}
	return b.String()
}

// c09Check compares the real token list and diagnostics for src with the
// reference lexer and checks the statement's invariants directly.  It returns
// "" or a description of the disagreement.
func c09Check(src []rune, fr *frontResult, ref *reflex.Result) (sig, msg string) {
	if fr.Panic != "" {
		return "panic", "lexer panicked: " + fr.Panic
	}
	toks := fr.Toks
	// --- invariants stated directly by the property ---
	if len(toks) == 0 || toks[len(toks)-1].Type != token.EOF {
		return "eof", "token list does not end with an end-of-input token"
	}
	nl := 0
	for _, r := range src {
		if r == '\n' {
			nl++
		}
	}
	s := string(src)
	at := 0
	for i, t := range toks {
		k, known := kindOf[t.Type]
		if !known {
			return "kind", fmt.Sprintf("token %d has unknown type %v", i, t.Type)
		}
		if k == bn.TEOF {
			if i != len(toks)-1 {
				return "eof", "more than one end-of-input token"
			}
			if t.Line != 1+nl {
				return "eof-line", fmt.Sprintf("end-of-input token on line %d, text has %d newlines", t.Line, nl)
			}
			continue
		}
		if t.Lexeme == "" {
			return "empty-lexeme", fmt.Sprintf("token %d has an empty lexeme", i)
		}
		j := strings.Index(s[at:], t.Lexeme)
		if j < 0 {
			return "order", fmt.Sprintf("lexeme %q of token %d does not occur in the source after the previous token", t.Lexeme, i)
		}
		at += j + len(t.Lexeme)
		if t.Line < 1 || t.Line > 1+nl {
			return "line-range", fmt.Sprintf("token %d (%q) carries line %d outside 1..%d", i, t.Lexeme, t.Line, 1+nl)
		}
		if i > 0 && t.Line < toks[i-1].Line {
			return "line-order", fmt.Sprintf("token %d (%q) carries line %d after line %d", i, t.Lexeme, t.Line, toks[i-1].Line)
		}
		first, _ := utf8.DecodeRuneInString(t.Lexeme)
		isWord := first == '_' || (!strings.ContainsRune("0123456789", first) && reflex.DigitValue(first) < 0 && first != '"' && isWordStart(first))
		if isWord {
			want, isKw := bn.Keywords[t.Lexeme]
			if isKw && k != want {
				return "keyword", fmt.Sprintf("word %q is a keyword but got token type %v", t.Lexeme, k)
			}
			if !isKw && k != bn.TIdent {
				return "keyword", fmt.Sprintf("word %q is not a keyword but got token type %v", t.Lexeme, k)
			}
		}
		if k == bn.TString {
			lit, ok := litString(t.Literal)
			if !ok {
				return "string-literal", fmt.Sprintf("string token %q has literal of host type %T", t.Lexeme, t.Literal)
			}
			if len(t.Lexeme) < 2 || t.Lexeme[0] != '"' || t.Lexeme[len(t.Lexeme)-1] != '"' || lit != t.Lexeme[1:len(t.Lexeme)-1] {
				return "string-literal", fmt.Sprintf("string token %q has value %q, not the text between its quotes", t.Lexeme, lit)
			}
		}
	}
	// --- differential against the reference lexer ---
	if len(toks) != len(ref.Toks) {
		return "diff-count", fmt.Sprintf("token count %d, reference %d", len(toks), len(ref.Toks))
	}
	for i, t := range toks {
		r := ref.Toks[i]
		k := kindOf[t.Type]
		if k != r.Kind || t.Lexeme != r.Text {
			return "diff-token", fmt.Sprintf("token %d is {%v %q}, reference {%v %q}", i, k, t.Lexeme, r.Kind, r.Text)
		}
		if t.Line != r.Line {
			return "diff-line", fmt.Sprintf("token %d (%q) carries line %d, reference %d", i, t.Lexeme, t.Line, r.Line)
		}
		switch k {
		case bn.TNumber:
			n, ok := litNumber(t.Literal)
			if !ok || !sameFloat(n, r.Num) {
				return "diff-number", fmt.Sprintf("number %q has value %v, reference %v", t.Lexeme, t.Literal, r.Num)
			}
		case bn.TString:
			sv, _ := litString(t.Literal)
			if sv != r.Str {
				return "diff-string", fmt.Sprintf("string %q has value %q, reference %q", t.Lexeme, sv, r.Str)
			}
		default:
			if t.Literal != nil {
				return "diff-literal", fmt.Sprintf("token %q carries a literal %v", t.Lexeme, t.Literal)
			}
		}
	}
	// --- diagnostics ---
	dl := diagLines(fr.Stderr)
	if len(dl) != len(ref.Diags) {
		return "diag-count", fmt.Sprintf("%d lexical diagnostics, expected %d (stray characters, unterminated strings/comments, out-of-range numbers)", len(dl), len(ref.Diags))
	}
	if fr.HadError != (len(ref.Diags) > 0) {
		return "diag-flag", fmt.Sprintf("error flag %v with %d expected diagnostics", fr.HadError, len(ref.Diags))
	}
	for i, d := range ref.Diags {
		ln := run.DiagLine(dl[i])
		if ln < d.LineLo || ln > d.LineHi {
			return "diag-line", fmt.Sprintf("diagnostic %d (%q) names line %d, offending piece spans lines %d..%d", i, dl[i], ln, d.LineLo, d.LineHi)
		}
	}
	return "", ""
}

func isWordStart(r rune) bool {
	res := reflex.Lex([]rune{r})
	return len(res.Toks) == 2 && (res.Toks[0].Kind == bn.TIdent || res.Toks[0].Kind >= bn.TBreak && res.Toks[0].Kind < bn.TEOF)
}

func c09NonTrivial(src []rune, ref *reflex.Result) bool {
	if len(ref.Toks) > 2 || len(ref.Diags) > 0 || len(ref.Comments) > 0 {
		return true
	}
	for _, r := range src {
		if r == '\n' {
			return true
		}
	}
	for _, t := range ref.Toks {
		if t.Kind == bn.TString {
			return true
		}
	}
	return false
}

func (c *Ctx) c09One(s *Sub, sub string, src []rune, enum bool) {
	fr := c.realLex(src)
	ref := reflex.Lex(src)
	nt := c09NonTrivial(src, ref)
	cls := "tokens"
	if len(ref.Diags) > 0 {
		cls = "lexical-error"
	} else if len(ref.Comments) > 0 {
		cls = "comment"
	}
	if enum {
		c.Ev.EnumCase(sub, nt, func() string { return fmt.Sprintf("%q", string(src)) }, cls)
	} else {
		c.Ev.Case(sub, string(src), nt, cls)
	}
	if sig, msg := c09Check(src, &fr, ref); sig != "" {
		s.Violation(Replay{Check: "lex", Sig: sig, Source: string(src), Note: msg,
			Expected: refTokensText(ref.Toks) + fmt.Sprintf(" diags=%d", len(ref.Diags)),
			Observed: tokensText(fr.Toks) + " stderr=" + fr.Stderr})
	}
}

// enumStrings calls f for every string of exactly n symbols over k symbols,
// restricted to this shard; idx is the symbol index vector.
func (c *Ctx) enumTuples(k, n int, f func(idx []int)) {
	idx := make([]int, n)
	var cnt int64
	var rec func(d int)
	rec = func(d int) {
		if d == n {
			if c.Mine(cnt) {
				f(idx)
			}
			cnt++
			return
		}
		for i := 0; i < k; i++ {
			idx[d] = i
			rec(d + 1)
		}
	}
	rec(0)
}

func TestC09(t *testing.T) {
	Main(t, "C09", func(c *Ctx) {
		c.OnReplay("lex", func(s *Sub, rp *Replay) { c.c09One(s, "replay", []rune(rp.Source), false) })
		c.ReplayTier()

		// the text the lexer sees is the text the file holds: characters of every encoded length at every offset
		// around the sizes a reader might use for its buffers (4 KiB, 32 KiB, 64 KiB), through the executable
		c.Sub("files-through-the-executable", func(s *Sub) {
			var k int64
			for _, size := range []int{4096, 8192, 32768, 65536} {
				for _, ch := range []string{"\U0001f600", "\u0995", "\u00e9", "\U00020000", "a"} {
					for off := -5; off <= 2; off++ {
						k++
						if !c.Mine(k) {
							continue
						}
						// a comment pads the file so that the character's first byte lands at size+off
						head := bn.KwPrint + " \"start\";\n// "
						tail := "\n" + bn.KwPrint + " \""
						pad := size + off - len(head) - len(tail)
						src := head + strings.Repeat("x", pad) + tail + ch + ch + "|" + ch + "\";\n" + bn.KwPrint + " \"end\";\n"
						cr := c.CLIScript(src, "", 30*time.Second)
						c.Ev.EnumCase("files-through-the-executable", true, func() string { return fmt.Sprintf("%+q at byte %d", ch, size+off) }, "file-offsets")
						want := "start\n" + ch + ch + "|" + ch + "\nend\n"
						if cr.TimedOut || cr.Status != 0 || cr.Stdout != want || cr.Stderr != "" {
							s.Violation(Replay{Check: "file", Sig: "file-offset", Source: fmt.Sprintf("%+q at byte %d", ch, size+off), Note: fmt.Sprintf("a script whose string literal starts at byte %d must print %+q", size+off, want),
								Observed: fmt.Sprintf("status=%d stdout=%+q stderr=%q", cr.Status, clip(cr.Stdout, 120), clip(cr.Stderr, 200))})
						}
					}
				}
			}
			c.Ev.MarkExhaustive("characters of 1, 2, 3 and 4 bytes at 8 offsets around 4 KiB, 8 KiB, 32 KiB and 64 KiB of a script file")
		})

		maxChars, maxFrags := 4, 3
		if c.Thorough {
			maxChars, maxFrags = 5, 4
		}
		c.Sub("enum-chars", func(s *Sub) {
			buf := make([]rune, 0, 8)
			for n := 0; n <= maxChars; n++ {
				c.enumTuples(len(c09Chars), n, func(idx []int) {
					buf = buf[:0]
					for _, i := range idx {
						buf = append(buf, c09Chars[i])
					}
					c.c09One(s, "enum-chars", buf, true)
				})
			}
			c.Ev.MarkExhaustive(fmt.Sprintf("every string of <= %d characters over the %d-character alphabet", maxChars, len(c09Chars)))
		})
		c.Sub("enum-codepoints", func(s *Sub) {
			var k int64
			for r := rune(0); r <= 0x10FFFF; r++ {
				if r >= 0xD800 && r <= 0xDFFF {
					continue
				}
				if c.Mine(k) {
					c.c09One(s, "enum-codepoints", []rune{r}, true)
					c.c09One(s, "enum-codepoints", []rune{'a', r, 'b'}, true)
					c.c09One(s, "enum-codepoints", []rune{'1', r, '2'}, true)
					// the same code point inside a string, a line comment and a block comment
					c.c09One(s, "enum-codepoints", []rune{'"', 'p', r, 'q', '"', ' ', 'x'}, true)
					c.c09One(s, "enum-codepoints", []rune{'a', ' ', '/', '/', 'b', r, 'c', '\n', 'd'}, true)
					c.c09One(s, "enum-codepoints", []rune{'/', '*', r, '*', '/', 'x'}, true)
				}
				k++
			}
			c.Ev.MarkExhaustive("every Unicode scalar value alone, between a…b, between 1…2, inside a string, inside a line comment and inside a block comment")
		})
		// a code point straight behind each character that can begin a two-character token, behind a digit
		// and a point, behind a quote, and in front of each of them: every code point below U+3000 and, in
		// all planes, every code point whose low 8 or low 16 bits spell an ASCII character
		c.Sub("codepoint-next-to-operator", func(s *Sub) {
			var k int64
			prefixes := []rune{'/', '*', '=', '!', '<', '>', '&', '|', '.', '-', '+', '"', '_'}
			for r := rune(1); r <= 0x10FFFF; r++ {
				if r >= 0xD800 && r <= 0xDFFF {
					continue
				}
				if !(r < 0x3000 || r&0xFF < 0x80 && r > 0xFF && (r&0xFF == '/' || r&0xFF == '*' || r&0xFF == '=' || r&0xFF == '<' || r&0xFF == '>' || r&0xFF == '&' || r&0xFF == '|' || r&0xFF == '"' || r&0xFF == '\n' || r&0xFF == ' ' || r&0xFF == '.' || r&0xFF == '0' || r&0xFF == 'a' || r&0xFF == ';') || r&0xFFFF < 0x80) {
					continue
				}
				k++
				if !c.Mine(k) {
					continue
				}
				for _, p := range prefixes {
					c.c09One(s, "codepoint-next-to-operator", []rune{'x', ' ', p, r, ' ', 'y'}, true)
					c.c09One(s, "codepoint-next-to-operator", []rune{'x', ' ', r, p, ' ', 'y'}, true)
				}
				c.c09One(s, "codepoint-next-to-operator", []rune{'1', '.', r, '5'}, true)
				c.c09One(s, "codepoint-next-to-operator", []rune{'1', r, '.', '5'}, true)
				c.c09One(s, "codepoint-next-to-operator", []rune{'/', '*', ' ', '*', r, '/', ' ', '*', '/', 'x'}, true)
			}
			c.Ev.MarkExhaustive("every code point below U+3000, and every code point of any plane whose low 8 or 16 bits spell an ASCII character, straight behind and straight in front of 13 token-starting characters")
		})
		c.Sub("enum-fragments", func(s *Sub) {
			for n := 1; n <= maxFrags; n++ {
				c.enumTuples(len(c09Frags), n, func(idx []int) {
					var b strings.Builder
					for _, i := range idx {
						b.WriteString(c09Frags[i])
					}
					c.c09One(s, "enum-fragments", []rune(b.String()), true)
				})
			}
			c.Ev.MarkExhaustive(fmt.Sprintf("every concatenation of <= %d fragments of the %d-fragment alphabet", maxFrags, len(c09Frags)))
		})
		n := 3000
		if c.Thorough {
			n = 40000
		}
		pieces := append([]string{}, c09Frags...)
		pieces = append(pieces, "\n", "\n", " ", "\t", "\r\n", "\"multi\nline\nstring\"", "/* multi\nline */", "// to end\n", "abc", "৯৮৭", "\"", "/*")
		c.Rapid("rand-texts", n, func(rt *rapid.T, s *Sub) {
			k := rapid.IntRange(1, 40).Draw(rt, "n")
			var b strings.Builder
			for i := 0; i < k; i++ {
				if rapid.IntRange(0, 9).Draw(rt, "kind") == 0 {
					b.WriteRune(rapid.Rune().Draw(rt, "r"))
				} else {
					b.WriteString(rapid.SampledFrom(pieces).Draw(rt, "p"))
				}
			}
			c.c09One(s, "rand-texts", []rune(b.String()), false)
		})
	})
}
