package checks

import (
	"fmt"
	"strings"

	"verifharness/bn"
)

// Programs that are ordinary in everything but size: many iterations, many
// names in one scope, a long scope chain, many functions, many closures alive
// at once, many properties.  Each is judged by the reference evaluator like any
// other program of its property; sizes sit on and around powers of two and ten.

func scaleLoops(n int) string {
	P := bn.KwPrint
	var b strings.Builder
	fmt.Fprintf(&b, "%s total = 0;\n%s odd = 0;\n", bn.KwVar, bn.KwVar)
	fmt.Fprintf(&b, "%s (%s i = 0; i < %d; i = i + 1) {\n  total = total + i;\n  %s (i %% 2 == 1) { odd = odd + 1; %s; }\n  %s (i %% %d == %d) %s i;\n}\n", bn.KwFor, bn.KwVar, n, bn.KwIf, bn.KwContinue, bn.KwIf, n/4+1, n/4, P)
	fmt.Fprintf(&b, "%s total;\n%s odd;\n%s w = 0;\n%s (%s) { w = w + 1; %s (w >= %d) %s; }\n%s w;\n", P, P, bn.KwVar, bn.KwWhile, bn.KwTrue, bn.KwIf, n, bn.KwBreak, P)
	return b.String()
}

func scaleNames(n int) string {
	var b strings.Builder
	for i := 0; i < n; i++ {
		fmt.Fprintf(&b, "%s v%d = %d;\n", bn.KwVar, i, i)
	}
	// assignments to the earliest and the latest names once the scope is full, directly, from a nested block,
	// from a function called later and through a closure; every one must be seen by the next read
	fmt.Fprintf(&b, "v0 = \"first\";\nv1 = v1 + 1000;\nv%d = \"last\";\n{ v2 = \"from-block\"; { v3 = v3 + 3000; } }\n", n-1)
	fmt.Fprintf(&b, "%s setv() { v4 = \"from-function\"; v%d = \"from-function\"; }\nsetv();\n%s mkset() { %s s(x) { v5 = x; } %s s; }\nmkset()(\"from-closure\");\n", bn.KwFun, n-2, bn.KwFun, bn.KwFun, bn.KwReturn)
	fmt.Fprintf(&b, "%s [v0, v1, v2, v3, v4, v5, v%d, v%d];\n", bn.KwPrint, n-2, n-1)
	fmt.Fprintf(&b, "v%d = 0; v%d = %d; v0 = 0;\n", n-1, n-2, n-2)
	fmt.Fprintf(&b, "v%d = v0 + v%d + v%d;\n%s v%d;\n%s v%d;\n%s v0;\n{ %s v%d = \"inner\"; %s v%d; }\n%s v%d;\n", n/2, n-1, n/3, bn.KwPrint, n/2, bn.KwPrint, n-1, bn.KwPrint, bn.KwVar, n-1, bn.KwPrint, n-1, bn.KwPrint, n-1)
	return b.String()
}

func scaleScopes(depth int) string {
	var b strings.Builder
	fmt.Fprintf(&b, "%s outer = \"o\";\n%s shadow = 0;\n", bn.KwVar, bn.KwVar)
	for i := 0; i < depth; i++ {
		fmt.Fprintf(&b, "{ %s d%d = %d; ", bn.KwVar, i, i)
		if i%97 == 5 {
			fmt.Fprintf(&b, "%s shadow = %d; ", bn.KwVar, i)
		}
		if i%50 == 49 {
			b.WriteString("\n")
		}
	}
	fmt.Fprintf(&b, "\n%s outer; %s shadow; %s d0 + d%d; outer = \"changed\"; shadow = -1;\n", bn.KwPrint, bn.KwPrint, bn.KwPrint, depth-1)
	b.WriteString(strings.Repeat("}", depth) + "\n")
	fmt.Fprintf(&b, "%s outer;\n%s shadow;\n", bn.KwPrint, bn.KwPrint)
	return b.String()
}

func scaleFunctions(n int) string {
	var b strings.Builder
	for i := 0; i < n; i++ {
		fmt.Fprintf(&b, "%s f%d(x) { %s x + %d; }\n", bn.KwFun, i, bn.KwReturn, i)
	}
	fmt.Fprintf(&b, "%s f0(1);\n%s f%d(1);\n%s f%d(f%d(1));\n", bn.KwPrint, bn.KwPrint, n/2, bn.KwPrint, n-1, n/3)
	return b.String()
}

func scaleClosures(n int) string {
	P := bn.KwPrint
	var b strings.Builder
	fmt.Fprintf(&b, "%s mk(start) { %s c = start; %s inc() { c = c + 1; %s c; } %s inc; }\n", bn.KwFun, bn.KwVar, bn.KwFun, bn.KwReturn, bn.KwReturn)
	fmt.Fprintf(&b, "%s all = [];\n%s (%s i = 0; i < %d; i = i + 1) { all = %s(all, mk(i * 1000)); }\n", bn.KwVar, bn.KwFor, bn.KwVar, n, bn.BPush)
	fmt.Fprintf(&b, "%s (%s r = 0; r < 3; r = r + 1) { %s (%s i = 0; i < %d; i = i + 1) { all[i](); } }\n", bn.KwFor, bn.KwVar, bn.KwFor, bn.KwVar, n)
	fmt.Fprintf(&b, "%s all[0]();\n%s all[%d]();\n%s all[%d]();\n%s %s(all);\n", P, P, n/2, P, n-1, P, bn.BLen)
	return b.String()
}

func scaleKeys(n int) string {
	P := bn.KwPrint
	var parts []string
	for i := 0; i < n; i++ {
		parts = append(parts, fmt.Sprintf("k%d: %d", i, i*2))
	}
	var b strings.Builder
	fmt.Fprintf(&b, "%s o = {%s};\n", bn.KwVar, strings.Join(parts, ", "))
	fmt.Fprintf(&b, "%s o.k0 + o.k%d + o.k%d;\n%s %s(%s(o));\n%s(o, \"k%d\");\no.extra = \"x\";\no.k%d = \"changed\";\n%s %s(%s(o));\n%s o.k%d;\n%s o.extra;\n%s o.k%d;\n", P, n/2, n-1, P, bn.BLen, bn.BKeys, bn.BDelKey, n/2, n/3, P, bn.BLen, bn.BValues, P, n/3, P, P, n/2)
	return b.String()
}

// scaleSizes: the sizes of the quick and of the thorough tier.
func (c *Ctx) scaleSizes(quick, thorough []int) []int {
	if c.Thorough {
		return append(append([]int{}, quick...), thorough...)
	}
	return quick
}

// scaleRecursion: user-function calls nested n deep — for the first time in the process, then again, in
// three shapes (value returned through every level, closure counter, mutual recursion).
func scaleRecursion(n int) string {
	P := bn.KwPrint
	var b strings.Builder
	fmt.Fprintf(&b, "%s down(k) { %s (k == 0) { %s \"bottom\"; } %s down(k - 1); }\n", bn.KwFun, bn.KwIf, bn.KwReturn, bn.KwReturn)
	fmt.Fprintf(&b, "%s sum(k) { %s (k == 0) { %s 0; } %s k + sum(k - 1); }\n", bn.KwFun, bn.KwIf, bn.KwReturn, bn.KwReturn)
	fmt.Fprintf(&b, "%s calls = 0;\n%s counted(k) { calls = calls + 1; %s (k > 0) { %s counted(k - 1); } %s calls; }\n", bn.KwVar, bn.KwFun, bn.KwIf, bn.KwReturn, bn.KwReturn)
	fmt.Fprintf(&b, "%s ev(k) { %s (k == 0) %s %s; %s od(k - 1); }\n%s od(k) { %s (k == 0) %s %s; %s ev(k - 1); }\n", bn.KwFun, bn.KwIf, bn.KwReturn, bn.KwTrue, bn.KwReturn, bn.KwFun, bn.KwIf, bn.KwReturn, bn.KwFalse, bn.KwReturn)
	fmt.Fprintf(&b, "%s down(%d);\n%s down(%d);\n%s sum(%d);\n%s counted(%d);\n%s counted(%d);\n%s ev(%d);\n%s down(%d);\n", P, n, P, n, P, n, P, n, P, n, P, n, P, n+n/2)
	return b.String()
}

// scaleContinue: a যতক্ষণ / ফর loop that runs n passes, nearly all of them cut short by চালিয়ে_যাও.
func scaleContinue(n int) string {
	P := bn.KwPrint
	var b strings.Builder
	fmt.Fprintf(&b, "%s i = 0;\n%s kept = 0;\n%s (i < %d) {\n  i = i + 1;\n  %s (i %% %d != 0) { %s; }\n  kept = kept + 1;\n  %s i;\n}\n%s kept;\n", bn.KwVar, bn.KwVar, bn.KwWhile, n, bn.KwIf, n/3+1, bn.KwContinue, P, P)
	fmt.Fprintf(&b, "kept = 0;\n%s (%s j = 0; j < %d; j = j + 1) {\n  %s (j %% %d != 0) %s;\n  kept = kept + 1;\n}\n%s kept;\n%s \"done\";\n", bn.KwFor, bn.KwVar, n, bn.KwIf, n/3+1, bn.KwContinue, P, P)
	return b.String()
}

// scaleLadder: one flat else-if ladder of n rungs (nesting depth of the program: 2), walked by a loop whose values
// hit the first, a middle and the last rung and the final else.
func scaleLadder(n int, braced bool) string {
	var b strings.Builder
	fmt.Fprintf(&b, "%s hits = [0, %d, %d, %d];\n%s (%s i = 0; i < 4; i = i + 1) {\n  %s v = hits[i];\n", bn.KwVar, n/2, n-1, n+5, bn.KwFor, bn.KwVar, bn.KwVar)
	for r := 0; r < n; r++ {
		kw := "  " + bn.KwIf
		if r > 0 {
			kw = "  " + bn.KwElse + " " + bn.KwIf
		}
		if braced {
			fmt.Fprintf(&b, "%s (v == %d) { %s \"rung %d\"; }\n", kw, r, bn.KwPrint, r)
		} else {
			fmt.Fprintf(&b, "%s (v == %d) %s \"rung %d\";\n", kw, r, bn.KwPrint, r)
		}
	}
	fmt.Fprintf(&b, "  %s { %s \"no rung\"; %s; }\n  %s \"after ladder\";\n}\n%s \"end\";\n", bn.KwElse, bn.KwPrint, bn.KwBreak, bn.KwPrint, bn.KwPrint)
	return b.String()
}

// scaleNestedObjects: a chain of n objects nested inside one another (a linked list built in a loop), its depth
// walked, a middle link read and written, and the whole chain printed.
func scaleNestedObjects(n int) string {
	P, V := bn.KwPrint, bn.KwVar
	var b strings.Builder
	fmt.Fprintf(&b, "%s chain = {n: 0};\n%s (%s i = 1; i < %d; i = i + 1) {\n  chain = {c: chain, n: i};\n}\n", V, bn.KwFor, V, n)
	fmt.Fprintf(&b, "%s depth = 0;\n%s at = chain;\n%s (at.n > 0) { at = at.c; depth = depth + 1; }\n%s depth;\n", V, V, bn.KwWhile, P)
	fmt.Fprintf(&b, "at.mark = \"bottom\";\n%s chain.c.n;\n%s chain;\n%s \"done\";\n", P, P, P)
	return b.String()
}
