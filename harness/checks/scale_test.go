package checks

import (
	"fmt"
	"strings"

	"verifharness/bn"
)

// Programs that are ordinary in everything but size: many iterations, many
// names in one scope, a long scope chain, many functions, many closures alive
// at once, many properties.  Each is judged by the reference evaluator like any
// other program of its property; sizes sit on and around powers of two and ten.

func scaleLoops(n int) string {
	P := bn.KwPrint
	var b strings.Builder
	fmt.Fprintf(&b, "%s total = 0;\n%s odd = 0;\n", bn.KwVar, bn.KwVar)
	fmt.Fprintf(&b, "%s (%s i = 0; i < %d; i = i + 1) {\n  total = total + i;\n  %s (i %% 2 == 1) { odd = odd + 1; %s; }\n  %s (i %% %d == %d) %s i;\n}\n", bn.KwFor, bn.KwVar, n, bn.KwIf, bn.KwContinue, bn.KwIf, n/4+1, n/4, P)
	fmt.Fprintf(&b, "%s total;\n%s odd;\n%s w = 0;\n%s (%s) { w = w + 1; %s (w >= %d) %s; }\n%s w;\n", P, P, bn.KwVar, bn.KwWhile, bn.KwTrue, bn.KwIf, n, bn.KwBreak, P)
	return b.String()
}

func scaleNames(n int) string {
	var b strings.Builder
	for i := 0; i < n; i++ {
		fmt.Fprintf(&b, "%s v%d = %d;\n", bn.KwVar, i, i)
	}
	fmt.Fprintf(&b, "v%d = v0 + v%d + v%d;\n%s v%d;\n%s v%d;\n%s v0;\n{ %s v%d = \"inner\"; %s v%d; }\n%s v%d;\n", n/2, n-1, n/3, bn.KwPrint, n/2, bn.KwPrint, n-1, bn.KwPrint, bn.KwVar, n-1, bn.KwPrint, n-1, bn.KwPrint, n-1)
	return b.String()
}

func scaleScopes(depth int) string {
	var b strings.Builder
	fmt.Fprintf(&b, "%s outer = \"o\";\n%s shadow = 0;\n", bn.KwVar, bn.KwVar)
	for i := 0; i < depth; i++ {
		fmt.Fprintf(&b, "{ %s d%d = %d; ", bn.KwVar, i, i)
		if i%97 == 5 {
			fmt.Fprintf(&b, "%s shadow = %d; ", bn.KwVar, i)
		}
		if i%50 == 49 {
			b.WriteString("\n")
		}
	}
	fmt.Fprintf(&b, "\n%s outer; %s shadow; %s d0 + d%d; outer = \"changed\"; shadow = -1;\n", bn.KwPrint, bn.KwPrint, bn.KwPrint, depth-1)
	b.WriteString(strings.Repeat("}", depth) + "\n")
	fmt.Fprintf(&b, "%s outer;\n%s shadow;\n", bn.KwPrint, bn.KwPrint)
	return b.String()
}

func scaleFunctions(n int) string {
	var b strings.Builder
	for i := 0; i < n; i++ {
		fmt.Fprintf(&b, "%s f%d(x) { %s x + %d; }\n", bn.KwFun, i, bn.KwReturn, i)
	}
	fmt.Fprintf(&b, "%s f0(1);\n%s f%d(1);\n%s f%d(f%d(1));\n", bn.KwPrint, bn.KwPrint, n/2, bn.KwPrint, n-1, n/3)
	return b.String()
}

func scaleClosures(n int) string {
	P := bn.KwPrint
	var b strings.Builder
	fmt.Fprintf(&b, "%s mk(start) { %s c = start; %s inc() { c = c + 1; %s c; } %s inc; }\n", bn.KwFun, bn.KwVar, bn.KwFun, bn.KwReturn, bn.KwReturn)
	fmt.Fprintf(&b, "%s all = [];\n%s (%s i = 0; i < %d; i = i + 1) { all = %s(all, mk(i * 1000)); }\n", bn.KwVar, bn.KwFor, bn.KwVar, n, bn.BPush)
	fmt.Fprintf(&b, "%s (%s r = 0; r < 3; r = r + 1) { %s (%s i = 0; i < %d; i = i + 1) { all[i](); } }\n", bn.KwFor, bn.KwVar, bn.KwFor, bn.KwVar, n)
	fmt.Fprintf(&b, "%s all[0]();\n%s all[%d]();\n%s all[%d]();\n%s %s(all);\n", P, P, n/2, P, n-1, P, bn.BLen)
	return b.String()
}

func scaleKeys(n int) string {
	P := bn.KwPrint
	var parts []string
	for i := 0; i < n; i++ {
		parts = append(parts, fmt.Sprintf("k%d: %d", i, i*2))
	}
	var b strings.Builder
	fmt.Fprintf(&b, "%s o = {%s};\n", bn.KwVar, strings.Join(parts, ", "))
	fmt.Fprintf(&b, "%s o.k0 + o.k%d + o.k%d;\n%s %s(%s(o));\n%s(o, \"k%d\");\no.extra = \"x\";\no.k%d = \"changed\";\n%s %s(%s(o));\n%s o.k%d;\n%s o.extra;\n%s o.k%d;\n", P, n/2, n-1, P, bn.BLen, bn.BKeys, bn.BDelKey, n/2, n/3, P, bn.BLen, bn.BValues, P, n/3, P, P, n/2)
	return b.String()
}

// scaleSizes: the sizes of the quick and of the thorough tier.
func (c *Ctx) scaleSizes(quick, thorough []int) []int {
	if c.Thorough {
		return append(append([]int{}, quick...), thorough...)
	}
	return quick
}
