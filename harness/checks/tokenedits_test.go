package checks

import (
	"strings"

	"verifharness/bn"
)

// singleTokenEdits calls each with every text that is one token away from a corpus of small valid texts covering
// every construct: each token deleted, doubled, swapped with its neighbour, and each token of the alphabet inserted
// at each position.  One token per line, so that the line of the first diagnostic is the position of the first bad
// token.  It returns the size of the corpus.
func singleTokenEdits(each func(text string)) int {
	V, F, P, R := bn.KwVar, bn.KwFun, bn.KwPrint, bn.KwReturn
	corpus := []string{
		F + " f ( a , b ) { " + R + " a ; }",
		F + " f ( ) { }",
		P + " f ( 1 , 2 ) ;",
		P + " [ 1 , 2 ] ;",
		V + " o = { k : 1 , v : 2 } ;",
		V + " a = 1 , b = 2 ;",
		V + " a ;",
		bn.KwFor + " ( " + V + " i = 0 ; i < 2 ; i = i + 1 ) " + P + " i ;",
		bn.KwFor + " ( ; ; ) { " + bn.KwBreak + " ; }",
		bn.KwIf + " ( a ) " + P + " 1 ; " + bn.KwElse + " " + P + " 2 ;",
		bn.KwWhile + " ( a < 3 ) { a = a + 1 ; " + bn.KwContinue + " ; }",
		"a [ 0 ] . k = b ( 1 ) [ 2 ] ;",
		"a = b = - ! 1 ** 2 ;",
		"{ { } }",
		R + " ;",
		P + " ( 1 + 2 ) * 3 " + bn.KwOr + " nil ;",
		P + " { k : [ 1 ] } . k [ 0 ] ;",
	}
	for _, text := range corpus {
		toks := strings.Fields(text)
		try := func(parts []string) { each(strings.Join(parts, "\n")) }
		for i := range toks {
			try(append(append([]string{}, toks[:i]...), toks[i+1:]...))
			try(append(append(append([]string{}, toks[:i+1]...), toks[i]), toks[i+1:]...))
			if i+1 < len(toks) {
				sw := append([]string{}, toks...)
				sw[i], sw[i+1] = sw[i+1], sw[i]
				try(sw)
			}
		}
		for i := 0; i <= len(toks); i++ {
			for _, a := range tokenAlphabet {
				try(append(append(append([]string{}, toks[:i]...), a.Text), toks[i:]...))
			}
		}
	}
	return len(corpus)
}
