//go:build verif

package checks

import (
	"fmt"
	"io"
	"os"
	"path/filepath"
	"runtime/debug"
	"strings"
	"testing"

	"github.com/ah-naf/borno/interpreter"
	"github.com/ah-naf/borno/lexer"
	"github.com/ah-naf/borno/parser"
	"github.com/ah-naf/borno/utils"

	"verifharness/bn"
	"verifharness/model"
	"verifharness/reflex"
	"verifharness/refparse"
	"verifharness/run"
)

// Native coverage-guided fuzz targets (thorough tier of C07, C08, C09; run by
// the driver with `go test -fuzz`).  Each target carries its semantic oracle;
// global state of the code under test (the two error flags, the step budget,
// the three standard streams) is reset at the top of every iteration.

type fuzzIO struct {
	in, out, err *os.File
}

var fio *fuzzIO

func fuzzFiles() *fuzzIO {
	if fio == nil {
		mk := func(n string) *os.File {
			f, e := os.CreateTemp("", "verif-fuzz-"+n)
			if e != nil {
				panic(e)
			}
			os.Remove(f.Name())
			return f
		}
		fio = &fuzzIO{mk("in"), mk("out"), mk("err")}
	}
	return fio
}

func resetFile(f *os.File, content string) {
	f.Truncate(0)
	f.Seek(0, io.SeekStart)
	if content != "" {
		f.WriteString(content)
		f.Seek(0, io.SeekStart)
	}
}

func slurp(f *os.File) string {
	f.Seek(0, io.SeekStart)
	b, _ := io.ReadAll(f)
	return string(b)
}

// inprocFront runs the real lexer and parser in this process.
func inprocFront(src []rune, parse bool) (fr frontResult) {
	io3 := fuzzFiles()
	resetFile(io3.err, "")
	saved := os.Stderr
	os.Stderr = io3.err
	utils.HadError, utils.HadRuntimeError = false, false
	func() {
		defer func() {
			if r := recover(); r != nil {
				fr.Panic = fmt.Sprintf("%v\n%s", r, trimStack(debug.Stack()))
			}
		}()
		fr.Toks = lexer.NewScanner(src).ScanTokens()
		if parse {
			fr.Stmts, fr.ParseErr = parser.NewParser(fr.Toks).Parse()
		}
	}()
	os.Stderr = saved
	fr.HadError = utils.HadError
	fr.Stderr = slurp(io3.err)
	return
}

// inprocRun runs the whole pipeline in this process under the step budget
// (the same three steps as run() in main.go).
func inprocRun(src, stdin string, budget, depth int64) (resp run.Resp) {
	io3 := fuzzFiles()
	resetFile(io3.in, stdin)
	resetFile(io3.out, "")
	resetFile(io3.err, "")
	si, so, se := os.Stdin, os.Stdout, os.Stderr
	// a fresh *os.File for stdin so that the interpreter's cached reader is renewed
	in2, _ := os.Open(fmt.Sprintf("/proc/self/fd/%d", io3.in.Fd()))
	if in2 == nil {
		in2 = io3.in
	}
	os.Stdin, os.Stdout, os.Stderr = in2, io3.out, io3.err
	utils.HadError, utils.HadRuntimeError = false, false
	func() {
		defer func() {
			if r := recover(); r != nil {
				if interpreter.VerifIsBudgetPanic(r) {
					resp.BudgetHit = true
				} else {
					resp.Panic = fmt.Sprintf("%v\n%s", r, trimStack(debug.Stack()))
				}
			}
		}()
		interpreter.VerifArm(budget, depth)
		toks := lexer.NewScanner([]rune(src)).ScanTokens()
		stmts, _ := parser.NewParser(toks).Parse()
		if utils.HadError {
			return
		}
		interpreter.NewInterpreter().Interpret(stmts, false)
	}()
	interpreter.VerifArm(0, 0)
	os.Stdin, os.Stdout, os.Stderr = si, so, se
	if in2 != io3.in {
		in2.Close()
	}
	resp.HadErr, resp.HadRt = utils.HadError, utils.HadRuntimeError
	resp.Out, resp.Err = slurp(io3.out), slurp(io3.err)
	return
}

func fuzzSeeds(f *testing.F) {
	for _, e := range shippedExamples() {
		f.Add(e.Src)
	}
	P := bn.KwPrint
	for _, s := range []string{"", P + " 1;", P + " \"a\" + 1;", bn.KwVar + " a = [1, 2]; a[0] = 3; " + P + " a;", bn.KwFun + " f(n) { " + bn.KwIf + " (n < 1) " + bn.KwReturn + " 0; " + bn.KwReturn + " f(n - 1); } " + P + " f(3);",
		bn.KwFor + " (" + bn.KwVar + " i = 0; i < 3; i = i + 1) { " + bn.KwIf + " (i == 1) " + bn.KwContinue + "; " + P + " i; }", bn.KwVar + " o = {a: 1, b: [2]}; o.c = o.a; " + P + " " + bn.BKeys + "(o);",
		"/* c */ " + P + " ১২.৫ ** 2 << 1 >= 3 " + bn.KwOr + " nil; // x", "\"unterminated", "1 = 2;", P + " " + bn.BMin + "([3, 1]) + " + bn.BRound + "(2.5);", bn.KwWhile + " (" + bn.KwTrue + ") { " + bn.KwBreak + "; }"} {
		f.Add(s)
	}
}

// FuzzC09Lex: the token list against the reference lexer and the partition invariants.
func FuzzC09Lex(f *testing.F) {
	fuzzSeeds(f)
	f.Fuzz(func(t *testing.T, text string) {
		if len(text) > 4000 {
			return
		}
		src := []rune(text)
		fr := inprocFront(src, false)
		ref := reflex.Lex(src)
		if sig, msg := c09Check(src, &fr, ref); sig != "" {
			t.Fatalf("C09 %s: %s\nsource=%q", sig, msg, text)
		}
	})
}

// FuzzC08Front: totality, classification, language membership, diagnostic line.
func FuzzC08Front(f *testing.F) {
	fuzzSeeds(f)
	f.Fuzz(func(t *testing.T, text string) {
		if len(text) > 4000 {
			return
		}
		src := []rune(text)
		fr := inprocFront(src, true)
		ref := reflex.Lex(src)
		rp := refparse.Parse(ref.Toks)
		if sig, msg := judgeFront(&fr, ref, rp, ref.Toks, 1+strings.Count(text, "\n")); sig != "" {
			t.Fatalf("C08 %s: %s\nsource=%q", sig, msg, text)
		}
	})
}

// FuzzC07Interp: no abnormal termination, and agreement with the reference
// evaluator on everything the properties determine.
func FuzzC07Interp(f *testing.F) {
	fuzzSeeds(f)
	f.Fuzz(func(t *testing.T, text string) {
		if len(text) > 3000 {
			return
		}
		ref := reflex.Lex([]rune(text))
		if len(ref.Diags) > 0 {
			return
		}
		rp := refparse.Parse(ref.Toks)
		if !rp.OK || rp.OODVarBreak || rp.OODTrailingComma || rp.MaxDepth > 400 {
			return
		}
		if strings.Contains(text, bn.BClock) {
			return
		}
		stdin := "fuzz line 1\nfuzz line 2\nfuzz line 3\n"
		res := model.Run(rp.Prog, model.Options{MaxSteps: 20000, MaxDepth: 150, Stdin: strings.Split(strings.TrimSuffix(stdin, "\n"), "\n")})
		if res.Outcome == model.OverBudget {
			return // over budget / too deep: out of the explored domain
		}
		if res.Outcome == model.Unspecified && (strings.Contains(res.Why, "self-containing") || strings.Contains(res.Why, "break") || strings.Contains(res.Why, "continue")) {
			return // open finding K13 / undocumented corner
		}
		if res.Outcome == model.Unspecified {
			// what happens after the unspecified point may include unbounded recursion or
			// self-containing prints the model cannot rule out: only the determined prefix is compared,
			// under a small depth limit that turns deep recursion into a budget hit
		}
		budget := 50*res.Steps + 100000
		resp := inprocRun(text, stdin, budget, 2000)
		if sig, msg := judgeModel(&resp, res, budget, judgeOpts{}); sig != "" {
			if res.Outcome == model.Unspecified && (sig == "abnormal" && strings.Contains(resp.Panic, "stack overflow")) {
				return
			}
			t.Fatalf("C07/%s: %s\nsource=%q\nexpected:\n%s\nobserved: %s", sig, msg, text, model.ExpectedText(res), resp.Describe())
		}
	})
}

// corpus helper used by the driver: converts a go-fuzz crasher file into text.
func TestFuzzCorpusDirExists(t *testing.T) {
	_ = filepath.Join("testdata", "fuzz")
}
