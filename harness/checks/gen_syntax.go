package checks

import (
	"pgregory.net/rapid"

	"verifharness/bn"
)

// Syntactic generator: arbitrary valid syntax trees over every node form (not
// necessarily meaningful programs).  Used by C01, C08, C18 (dead code), C07.

var synIdents = []string{"a", "b", "c", "x", "y", "ক", "খ_১", "foo", "_t", bn.BLen, bn.BInput, bn.BMin}
var synNames = []string{"a", "b", "c", "x", "y", "ক", "খ_১", "foo", "_t", "input"}
var synProps = []string{"k", "v", "নাম", "a", bn.BLen}
var synStrings = []string{"", "s", "ab c", "১২", "নাহয়", "x+y", "// no comment", "/* not */"}
var synNumbers = []string{"0", "1", "2", "10", "3.5", "০", "৪২", "১.৫", "1000000", "0.001", "12৩"}

type synGen struct {
	rt *rapid.T
	// scalarStores: values stored into elements/properties are scalar
	// expressions, so that no self-containing value can be built
	scalarStores bool
}

func (g *synGen) storeValue(d int) bn.Expr {
	if !g.scalarStores {
		return g.expr(d)
	}
	switch g.pick("sv", 3) {
	case 0:
		return numLit(rapid.SampledFrom(synNumbers).Draw(g.rt, "num"))
	case 1:
		return bn.Str(rapid.SampledFrom(synStrings).Draw(g.rt, "str"))
	default:
		return bn.Bin(rapid.SampledFrom(bn.BinOpList).Draw(g.rt, "bop"), numLit(rapid.SampledFrom(synNumbers).Draw(g.rt, "num")), numLit(rapid.SampledFrom(synNumbers).Draw(g.rt, "num")))
	}
}

func (g *synGen) pick(label string, n int) int { return rapid.IntRange(0, n-1).Draw(g.rt, label) }

func (g *synGen) lit() bn.Expr {
	switch g.pick("lit", 6) {
	case 0:
		return bn.Nil()
	case 1:
		return bn.Bool(true)
	case 2:
		return bn.Bool(false)
	case 3:
		return bn.Str(rapid.SampledFrom(synStrings).Draw(g.rt, "str"))
	default:
		t := rapid.SampledFrom(synNumbers).Draw(g.rt, "num")
		return numLit(t)
	}
}

// numLit builds a number literal from its spelling (value by the reference rules).
func numLit(text string) *bn.Lit {
	ref := lexRef(text)
	return &bn.Lit{Kind: bn.LNum, Num: ref, Text: text}
}

func (g *synGen) ident() bn.Expr { return bn.Id(rapid.SampledFrom(synIdents).Draw(g.rt, "id")) }

func (g *synGen) exprs(depth, max int) []bn.Expr {
	n := g.pick("n", max+1)
	var out []bn.Expr
	for i := 0; i < n; i++ {
		out = append(out, g.expr(depth))
	}
	return out
}

func (g *synGen) expr(depth int) bn.Expr {
	if depth <= 0 {
		if g.pick("leaf", 2) == 0 {
			return g.lit()
		}
		return g.ident()
	}
	d := depth - 1
	switch g.pick("expr", 16) {
	case 0:
		return g.lit()
	case 1:
		return g.ident()
	case 2:
		return &bn.Group{E: g.expr(d)}
	case 3:
		return bn.Un(rapid.SampledFrom(bn.UnOps).Draw(g.rt, "uop"), g.expr(d))
	case 4, 5, 6:
		return bn.Bin(rapid.SampledFrom(bn.BinOpList).Draw(g.rt, "bop"), g.expr(d), g.expr(d))
	case 7:
		op := "or"
		if g.pick("andor", 2) == 0 {
			op = "and"
		}
		return &bn.Logical{Op: op, Sym: g.pick("sym", 2) == 0, L: g.expr(d), R: g.expr(d)}
	case 8:
		switch g.pick("target", 3) {
		case 0:
			return &bn.Assign{Name: rapid.SampledFrom(synIdents).Draw(g.rt, "id"), V: g.expr(d)}
		case 1:
			return &bn.IndexSet{A: g.expr(d), I: g.expr(d), V: g.storeValue(d)}
		default:
			return &bn.PropSet{O: g.expr(d), Name: rapid.SampledFrom(synProps).Draw(g.rt, "prop"), V: g.storeValue(d)}
		}
	case 9, 10:
		return &bn.Call{Callee: g.expr(d), Args: g.exprs(d, 3)}
	case 11:
		return &bn.Index{A: g.expr(d), I: g.expr(d)}
	case 12:
		return &bn.Prop{O: g.expr(d), Name: rapid.SampledFrom(synProps).Draw(g.rt, "prop")}
	case 13:
		return &bn.ArrayLit{Elems: g.exprs(d, 3)}
	case 14:
		o := &bn.ObjLit{}
		n := g.pick("nkeys", 4)
		for i := 0; i < n; i++ {
			k := synProps[(g.pick("k0", len(synProps))+i)%len(synProps)]
			dup := false
			for _, e := range o.Keys {
				if e == k {
					dup = true
				}
			}
			// one literal in four may repeat a property name (every initialiser stays in the tree, in source order)
			if dup && g.pick("allowDup", 4) != 1 {
				continue
			}
			o.Keys = append(o.Keys, k)
			o.Vals = append(o.Vals, g.expr(d))
		}
		return o
	default:
		return bn.Bin(rapid.SampledFrom(bn.BinOpList).Draw(g.rt, "bop"), g.expr(d), g.expr(d))
	}
}

// leftmostIsObj reports whether the expression's text would start with `{`
// when printed in Minimal mode.
func leftmostIsObj(e bn.Expr) bool {
	for {
		switch x := e.(type) {
		case *bn.ObjLit:
			return true
		case *bn.Binary:
			if bn.Level(x.L) < bn.BinOps[x.Op] {
				return false
			}
			e = x.L
		case *bn.Logical:
			lv := bn.LvOr
			if x.Op == "and" {
				lv = bn.LvAnd
			}
			if bn.Level(x.L) < lv {
				return false
			}
			e = x.L
		case *bn.Call:
			if bn.Level(x.Callee) < bn.LvCall {
				return false
			}
			e = x.Callee
		case *bn.Index:
			if bn.Level(x.A) < bn.LvCall {
				return false
			}
			e = x.A
		case *bn.Prop:
			if bn.Level(x.O) < bn.LvCall {
				return false
			}
			e = x.O
		case *bn.IndexSet:
			if bn.Level(x.A) < bn.LvCall {
				return false
			}
			e = x.A
		case *bn.PropSet:
			if bn.Level(x.O) < bn.LvCall {
				return false
			}
			e = x.O
		default:
			return false
		}
	}
}

func exprStmt(e bn.Expr) bn.Stmt {
	if leftmostIsObj(e) {
		e = &bn.Group{E: e}
	}
	return &bn.ExprStmt{E: e}
}

// endsInOpenIf: printing s without braces would let a following else attach
// inside it.
func endsInOpenIf(s bn.Stmt) bool {
	switch x := s.(type) {
	case *bn.If:
		if x.Else == nil {
			return true
		}
		return endsInOpenIf(x.Else)
	case *bn.While:
		return endsInOpenIf(x.Body)
	case *bn.For:
		return endsInOpenIf(x.Body)
	}
	return false
}

func (g *synGen) body(depth int, inFunc, inLoop bool) bn.Stmt {
	s := g.stmt(depth, inFunc, inLoop, false)
	switch s.(type) {
	case *bn.Var, *bn.VarList, *bn.Func:
		return &bn.Block{Stmts: []bn.Stmt{s}}
	}
	return s
}

func (g *synGen) varDecl(depth int) *bn.Var {
	v := &bn.Var{Name: rapid.SampledFrom(synNames).Draw(g.rt, "name")}
	if g.pick("init", 3) != 0 {
		v.Init = g.expr(depth)
	}
	return v
}

func (g *synGen) stmts(depth, max int, inFunc, inLoop bool) []bn.Stmt {
	n := g.pick("nstmts", max+1)
	out := []bn.Stmt{}
	for i := 0; i < n; i++ {
		out = append(out, g.stmt(depth, inFunc, inLoop, true))
	}
	return out
}

func (g *synGen) stmt(depth int, inFunc, inLoop, declOK bool) bn.Stmt {
	ed := 2
	if depth <= 0 {
		switch g.pick("simple", 3) {
		case 0:
			return &bn.Print{E: g.expr(ed)}
		default:
			return exprStmt(g.expr(ed))
		}
	}
	d := depth - 1
	switch g.pick("stmt", 14) {
	case 0, 1:
		return exprStmt(g.expr(ed + 1))
	case 2:
		return &bn.Print{E: g.expr(ed + 1)}
	case 3:
		if g.pick("list", 3) == 0 {
			vl := &bn.VarList{}
			n := 2 + g.pick("nv", 2)
			for i := 0; i < n; i++ {
				vl.Decls = append(vl.Decls, g.varDecl(ed))
			}
			return vl
		}
		return g.varDecl(ed)
	case 4:
		return &bn.Block{Stmts: g.stmts(d, 3, inFunc, inLoop)}
	case 5, 6:
		s := &bn.If{C: g.expr(ed), Then: g.body(d, inFunc, inLoop)}
		if g.pick("else", 2) == 0 {
			s.Else = g.body(d, inFunc, inLoop)
			if endsInOpenIf(s.Then) {
				s.Then = &bn.Block{Stmts: []bn.Stmt{s.Then}}
			}
		}
		return s
	case 7:
		return &bn.While{C: g.expr(ed), Body: g.body(d, inFunc, true)}
	case 8, 9:
		f := &bn.For{}
		switch g.pick("init", 4) {
		case 0:
			f.Init = g.varDecl(ed)
		case 1:
			f.Init = exprStmt(g.expr(ed))
		case 2:
			f.Init = &bn.VarList{Decls: []*bn.Var{g.varDecl(1), g.varDecl(1)}}
		}
		if g.pick("cond", 2) == 0 {
			f.Cond = g.expr(ed)
		}
		if g.pick("incr", 2) == 0 {
			f.Incr = g.expr(ed)
		}
		f.Body = g.body(d, inFunc, true)
		return f
	case 10:
		fn := &bn.Func{Name: rapid.SampledFrom(synNames).Draw(g.rt, "fname")}
		np := g.pick("np", 4)
		for i := 0; i < np; i++ {
			fn.Params = append(fn.Params, rapid.SampledFrom(synIdents).Draw(g.rt, "param"))
		}
		fn.Body = g.stmts(d, 3, true, false)
		return fn
	case 11:
		r := &bn.Return{}
		if g.pick("val", 2) == 0 {
			r.V = g.expr(ed)
		}
		return r
	case 12:
		return &bn.Break{}
	default:
		return &bn.Continue{}
	}
}

func (g *synGen) program(depth, max int) []bn.Stmt {
	n := 1 + g.pick("nprog", max)
	var out []bn.Stmt
	for i := 0; i < n; i++ {
		out = append(out, g.stmt(depth, false, false, true))
	}
	return out
}

// normalizeTree returns a dump used to compare two trees structurally:
// lines ignored, object keys sorted, a missing for-condition equal to `true`.
func normDump(p []bn.Stmt, stripGroups bool) string {
	// a missing for-condition is documented to mean true
	return bn.DumpProgram(p, bn.DumpOpt{StripGroups: stripGroups, SortKeys: false, NilCondTrue: true})
}
