package checks

import (
	"fmt"
	"strings"
	"testing"

	"pgregory.net/rapid"

	"verifharness/bn"
	"verifharness/model"
)

// C05 — branches and loops run exactly the arms and iterations their
// conditions dictate.

// c05Gen builds control skeletons as text.  Every loop owns a counter that is
// advanced before anything in its body can skip ahead, so every program
// terminates.
type c05Gen struct {
	pick    func(label string, n int) int
	nTag    int
	nLoop   int
	budget  int // remaining constructs
	deepBrk bool
	retOK   bool // inside a function body: ফেরত statements may be generated
	nRet    int
	deepRet bool // a return was placed at nesting depth >= 1
	fnDecls bool // statement lists may hold function declarations (random generation only: keeps the enumerations as they are)
	nFn     int
	b       strings.Builder
}

var c05Consts = []string{"0", "1", "\"\"", "\"x\"", "nil", bn.KwTrue, bn.KwFalse, "[]", "({})", "0.5", "(0 - 0)",
	// every other value is truthy: built-in function values, strings that spell zero or false, NaN, infinities, containers of falsy values
	bn.BLen, bn.BClock, bn.BInput, "\"0\"", "\"0.0\"", "\"০\"", "\" \"", "\"nil\"", "(-0)", "0.0", "০", "((2 ** 1024) - (2 ** 1024))", "(2 ** 1024)", "[0]", "[nil]", "({a: 0})", "((1 << 62) | 1)", "(1 << 64)", "0.000001"}

func (g *c05Gen) tag() string {
	g.nTag++
	return fmt.Sprintf("%s \"t%d\";", bn.KwPrint, g.nTag)
}

func (g *c05Gen) cond(ctrs []string) string {
	if len(ctrs) > 0 && g.pick("condkind", 3) != 0 {
		c := ctrs[g.pick("ctr", len(ctrs))]
		switch g.pick("cmp", 5) {
		case 0:
			return c + " < " + fmt.Sprint(1+g.pick("k", 2))
		case 1:
			return c + " == " + fmt.Sprint(1+g.pick("k", 2))
		case 2:
			return c + " % 2 == 0"
		case 3:
			return c + " >= 2 " + bn.KwOr + " " + c + " == 0"
		default:
			return c + " != 1 " + bn.KwAnd + " " + c + " < 3"
		}
	}
	return c05Consts[g.pick("const", len(c05Consts))]
}

// stmt writes one statement at the given indentation.  loopDepth counts
// enclosing loops; sinceLoop counts if/block constructs between here and the
// innermost loop; outer tells whether that loop is itself nested in a construct.
func (g *c05Gen) stmt(ind string, depth int, ctrs []string, inLoop bool, sinceLoop int, loopNested bool, braced bool) {
	g.budget--
	choices := 10
	if depth <= 0 || g.budget <= 0 {
		choices = 3
	}
	k := g.pick("stmt", choices)
	if !inLoop && (k == 1 || k == 2) {
		k = 0
	}
	if g.retOK && g.pick("ret", 5) == 0 {
		g.nRet++
		if g.fnDecls && g.pick("bareReturn", 4) == 0 {
			g.b.WriteString(ind + bn.KwReturn + ";\n") // the call's value is nil
		} else {
			g.b.WriteString(ind + bn.KwReturn + " " + fmt.Sprint(1000+g.nRet) + ";\n")
		}
		if ind != "  " {
			g.deepRet = true
		}
		return
	}
	switch k {
	case 0:
		g.b.WriteString(ind + g.tag() + "\n")
		if g.fnDecls && braced && g.pick("fndecl", 4) == 0 {
			// a function declared (and called) right here, between the jumps of the surrounding loops
			g.nFn++
			g.nTag++
			fmt.Fprintf(&g.b, "%s%s h%d(v) { %s \"t%d\"; %s v; }\n", ind, bn.KwFun, g.nFn, bn.KwPrint, g.nTag, bn.KwReturn)
			if g.pick("fncall", 2) == 0 {
				fmt.Fprintf(&g.b, "%sh%d(%d);\n", ind, g.nFn, g.nFn)
			}
		}
		if len(ctrs) > 0 && g.pick("showctr", 2) == 0 {
			// shown as a separate statement only where a statement list is allowed
			if braced {
				g.b.WriteString(ind + bn.KwPrint + " " + ctrs[len(ctrs)-1] + ";\n")
			}
		}
	case 1:
		g.b.WriteString(ind + bn.KwBreak + ";\n")
		if sinceLoop >= 1 && loopNested {
			g.deepBrk = true
		}
	case 2:
		g.b.WriteString(ind + bn.KwContinue + ";\n")
		if sinceLoop >= 1 && loopNested {
			g.deepBrk = true
		}
	case 3, 4: // if / if-else
		g.b.WriteString(ind + bn.KwIf + " (" + g.cond(ctrs) + ")")
		g.body(ind, depth-1, ctrs, inLoop, sinceLoop+1, loopNested, true)
		if g.pick("else", 2) == 0 {
			g.b.WriteString(ind + bn.KwElse)
			g.body(ind, depth-1, ctrs, inLoop, sinceLoop+1, loopNested, false)
		}
	case 9: // else-if ladder whose conditions are tagged probes
		rungs := 2 + g.pick("rungs", 3)
		for r := 0; r < rungs; r++ {
			kw := bn.KwIf
			if r > 0 {
				kw = bn.KwElse + " " + bn.KwIf
			}
			g.nTag++
			cond := fmt.Sprintf("pr(\"c%d\", %s)", g.nTag, g.cond(ctrs))
			if r == 0 {
				g.b.WriteString(ind + kw + " (" + cond + ") {\n")
			} else {
				g.b.WriteString(ind + "} " + kw + " (" + cond + ") {\n")
			}
			g.stmt(ind+"  ", depth-1, ctrs, inLoop, sinceLoop+1, loopNested, true)
		}
		if g.pick("else", 2) == 0 {
			g.b.WriteString(ind + "} " + bn.KwElse + " {\n")
			g.stmt(ind+"  ", depth-1, ctrs, inLoop, sinceLoop+1, loopNested, true)
		}
		g.b.WriteString(ind + "}\n")
	case 5: // block
		g.b.WriteString(ind + "{\n")
		if g.fnDecls && len(ctrs) > 0 && g.pick("shadow", 2) == 0 {
			// the block has its own variable named like the counter of a surrounding loop; a jump out of the block
			// leaves it behind
			g.b.WriteString(ind + "  " + bn.KwVar + " " + ctrs[g.pick("shadowed", len(ctrs))] + " = 100;\n")
		}
		n := 1 + g.pick("n", 3)
		for i := 0; i < n; i++ {
			g.stmt(ind+"  ", depth-1, ctrs, inLoop, sinceLoop+1, loopNested, true)
		}
		g.b.WriteString(ind + "}\n")
	case 6: // while
		if !braced {
			g.b.WriteString(ind + g.tag() + "\n")
			return
		}
		g.nLoop++
		c := fmt.Sprintf("w%d", g.nLoop)
		bound := 1 + g.pick("bound", 3)
		if g.fnDecls && g.pick("unbracedWhile", 3) == 0 {
			// a loop whose body is one statement without braces (the counter moves in the condition)
			g.b.WriteString(ind + bn.KwVar + " " + c + " = 0;\n")
			g.b.WriteString(ind + bn.KwWhile + " ((" + c + " = " + c + " + 1) <= " + fmt.Sprint(bound) + ")\n")
			g.stmt(ind+"  ", depth-1, append(append([]string{}, ctrs...), c), true, 0, inLoop || sinceLoop > 0 || len(ctrs) > 0, false)
			g.b.WriteString(ind + bn.KwPrint + " [" + strings.Join(append(append([]string{}, ctrs...), c), ", ") + "];\n")
			return
		}
		g.b.WriteString(ind + bn.KwVar + " " + c + " = 0;\n")
		g.b.WriteString(ind + bn.KwWhile + " (" + c + " < " + fmt.Sprint(bound) + ") {\n")
		g.b.WriteString(ind + "  " + c + " = " + c + " + 1;\n")
		n := 1 + g.pick("n", 3)
		for i := 0; i < n; i++ {
			g.stmt(ind+"  ", depth-1, append(append([]string{}, ctrs...), c), true, 0, inLoop || sinceLoop > 0 || len(ctrs) > 0, true)
		}
		g.b.WriteString(ind + "}\n")
		if g.fnDecls {
			g.b.WriteString(ind + bn.KwPrint + " [" + strings.Join(append(append([]string{}, ctrs...), c), ", ") + "];\n")
		}
	case 7, 8: // for, all clause combinations
		fallthrough
	default:
		if !braced {
			g.b.WriteString(ind + g.tag() + "\n")
			return
		}
		g.nLoop++
		c := fmt.Sprintf("f%d", g.nLoop)
		bound := 1 + g.pick("bound", 3)
		hasInit, hasCond, hasIncr := g.pick("init", 2) == 0, g.pick("cond", 3) != 0, g.pick("incr", 3) != 0
		probes := g.pick("probes", 3) == 0
		init, cond, incr := "", "", ""
		if hasInit {
			init = bn.KwVar + " " + c + " = 0;"
			if probes {
				init = bn.KwVar + " " + c + " = pr(\"init-" + c + "\", 0);"
			}
		} else {
			g.b.WriteString(ind + bn.KwVar + " " + c + " = 0;\n")
			init = ";"
		}
		if hasCond {
			cond = " " + c + " < " + fmt.Sprint(bound)
			if probes {
				cond = " pr(\"cond-" + c + "\", " + c + " < " + fmt.Sprint(bound) + ")"
			}
		}
		if hasIncr {
			incr = " " + c + " = " + c + " + 1"
			if probes {
				incr = " " + c + " = pr(\"incr-" + c + "\", " + c + " + 1)"
			}
		}
		g.b.WriteString(ind + bn.KwFor + " (" + init + cond + ";" + incr + ") {\n")
		if !hasCond {
			g.b.WriteString(ind + "  " + bn.KwIf + " (" + c + " >= " + fmt.Sprint(bound) + ") " + bn.KwBreak + ";\n")
		}
		if !hasIncr {
			g.b.WriteString(ind + "  " + c + " = " + c + " + 1;\n")
		}
		n := 1 + g.pick("n", 3)
		for i := 0; i < n; i++ {
			g.stmt(ind+"  ", depth-1, append(append([]string{}, ctrs...), c), true, 0, inLoop || sinceLoop > 0 || len(ctrs) > 0, true)
		}
		g.b.WriteString(ind + "}\n")
		if g.fnDecls && len(ctrs) > 0 {
			g.b.WriteString(ind + bn.KwPrint + " [" + strings.Join(ctrs, ", ") + "];\n")
		}
	}
}

// body writes the statement controlled by if/else: braced or (sometimes) a
// single unbraced statement.
func (g *c05Gen) body(ind string, depth int, ctrs []string, inLoop bool, sinceLoop int, loopNested bool, mayDangle bool) {
	if g.pick("braced", 3) != 0 {
		g.b.WriteString(" {\n")
		n := 1 + g.pick("n", 2)
		for i := 0; i < n; i++ {
			g.stmt(ind+"  ", depth, ctrs, inLoop, sinceLoop, loopNested, true)
		}
		g.b.WriteString(ind + "}\n")
		return
	}
	g.b.WriteString("\n")
	// unbraced: a simple statement (tag, break, continue) to keep else attachment unambiguous
	k := g.pick("simple", 3)
	if !inLoop {
		k = 0
	}
	if g.retOK && g.pick("ret", 4) == 0 {
		g.nRet++
		g.deepRet = true
		g.b.WriteString(ind + "  " + bn.KwReturn + " " + fmt.Sprint(1000+g.nRet) + ";\n")
		return
	}
	switch k {
	case 0:
		g.b.WriteString(ind + "  " + g.tag() + "\n")
	case 1:
		g.b.WriteString(ind + "  " + bn.KwBreak + ";\n")
	default:
		g.b.WriteString(ind + "  " + bn.KwContinue + ";\n")
	}
}

// smallArity caps the arity of the generator's decisions in the enumerated
// tiers, so that the decision tree can be walked completely.
var smallArity = map[string]int{"const": 2, "condkind": 2, "cmp": 2, "k": 1, "bound": 2, "n": 2, "showctr": 1, "probes": 2,
	"braced": 2, "init": 2, "cond": 2, "incr": 2, "ret": 2, "else": 2, "simple": 3, "ctr": 1, "nbody": 1, "rungs": 1}

// walkDecisions runs gen for every decision vector of its (arity-capped)
// decision tree, up to maxLeaves complete programs; it reports whether the
// walk was complete.
func walkDecisions(maxLeaves int64, gen func(pick func(string, int) int), leaf func(k int64)) bool {
	type needMore struct{ arity int }
	var k int64
	complete := true
	var explore func(prefix []int)
	explore = func(prefix []int) {
		if k >= maxLeaves {
			complete = false
			return
		}
		i := 0
		arity := 0
		func() {
			defer func() {
				if r := recover(); r != nil {
					nm, ok := r.(needMore)
					if !ok {
						panic(r)
					}
					arity = nm.arity
				}
			}()
			gen(func(label string, n int) int {
				if a, ok := smallArity[label]; ok && a < n {
					n = a
				}
				if n <= 1 {
					return 0
				}
				if i >= len(prefix) {
					panic(needMore{n})
				}
				v := prefix[i]
				i++
				return v
			})
		}()
		if arity == 0 {
			k++
			leaf(k)
			return
		}
		for d := 0; d < arity; d++ {
			explore(append(append([]int{}, prefix...), d))
		}
	}
	explore(nil)
	return complete
}

const c05Prelude = "ফাংশন pr(tag, v) { দেখাও tag; ফেরত v; }\n"

func (g *c05Gen) program(depth, nTop int) string {
	g.b.WriteString(c05Prelude)
	for i := 0; i < nTop; i++ {
		g.stmt("", depth, nil, false, 0, false, true)
	}
	g.b.WriteString(bn.KwPrint + " \"end\";\n")
	return g.b.String()
}

func (c *Ctx) c05Program(s *Sub, sub, src string, deep bool) {
	mc := c.runModelCase(s, src, "", model.Options{MaxSteps: 20000}, judgeOpts{checkLine: true, checkKind: true})
	if mc.Res.Outcome == model.OverBudget {
		return
	}
	nt := deep || mc.Res.Tags["if-else"] > 0
	labels := []string{"outcome-" + mc.Res.Outcome.String()}
	for _, t := range []string{"break", "continue", "if-else", "if-then"} {
		if mc.Res.Tags[t] > 0 {
			labels = append(labels, "ran-"+t)
		}
	}
	if deep {
		labels = append(labels, "nested-break-continue")
	}
	c.Ev.Case(sub, src, nt, labels...)
	if mc.Sig != "" {
		s.Violation(mc.replay("control"))
	}
}

func TestC05(t *testing.T) {
	Main(t, "C05", func(c *Ctx) {
		c.OnReplay("control", func(s *Sub, rp *Replay) { c.c05Program(s, "replay", rp.Source, true) })
		c.ReplayTier()

		c.Sub("scale", func(s *Sub) {
			if c.Shard != 0 {
				return
			}
			c.stepOverride = 400000000
			defer func() { c.stepOverride = 0 }()
			for _, n := range c.scaleSizes([]int{1000, 4096, 10000}, []int{65536, 100000, 300000}) {
				c.c05Program(s, "scale", scaleLoops(n), true)
			}
			for _, n := range c.scaleSizes([]int{1000, 100000, 1000000}, []int{5000000}) {
				c.c05Program(s, "scale", scaleContinue(n), true)
			}
			// long flat else-if ladders: exactly one arm runs, however many rungs come before it
			c.depthOverride = 12000
			defer func() { c.depthOverride = 0 }()
			for _, n := range c.scaleSizes([]int{126, 127, 128, 129, 140, 300, 1000}, []int{3000}) {
				c.c05Program(s, "scale", scaleLadder(n, n%2 == 0), true)
			}
		})
		c.Sub("stray-signals", func(s *Sub) {
			if c.Shard != 0 {
				return
			}
			for _, kw := range []string{bn.KwBreak + ";", bn.KwContinue + ";", bn.KwReturn + ";", bn.KwReturn + " 1;"} {
				for _, wrap := range []string{"%s", "{ %s }", bn.KwIf + " (1) %s", bn.KwIf + " (0) 1; " + bn.KwElse + " %s", "{ { %s } }", bn.KwIf + " (1) { " + bn.KwPrint + " \"in\"; %s }",
				bn.KwFun + " sg() { " + bn.KwPrint + " \"in-sg\"; %s " + bn.KwPrint + " \"in-sg-after\"; }\nsg();", bn.KwFun + " sg() { %s }\n" + bn.KwWhile + " (" + bn.KwTrue + ") { sg(); " + bn.KwPrint + " \"iter\"; " + bn.KwBreak + "; }"} {
					for _, pre := range []string{"", bn.KwPrint + " \"a\";\n", bn.KwPrint + " \"a\";\n\n" + bn.KwVar + " x = 1;\n"} {
						src := pre + fmt.Sprintf(wrap, kw) + "\n" + bn.KwPrint + " \"after\";\n"
						c.c05Program(s, "stray-signals", src, true)
					}
				}
			}
			// a loop that ended must not swallow a later stray signal, and a signal must not leak out of a function
			extra := []string{
				// ফেরত of every kind inside loops: at the top level a stray signal, in a function the end of the call —
				// the loop runs no further round either way
				bn.KwVar + " n = 0;\n" + bn.KwWhile + " (n < 3) { n = n + 1; " + bn.KwPrint + " n; " + bn.KwIf + " (n == 2) { " + bn.KwReturn + "; } }\n",
				bn.KwVar + " n = 0;\n" + bn.KwWhile + " (n < 3) { n = n + 1; " + bn.KwPrint + " n; " + bn.KwIf + " (n == 2) " + bn.KwReturn + " nil; }\n",
				bn.KwFor + " (" + bn.KwVar + " i = 0; i < 3; i = i + 1) { " + bn.KwPrint + " i; " + bn.KwReturn + "; }\n",
				bn.KwFun + " w(k) { " + bn.KwVar + " n = 0; " + bn.KwWhile + " (n < 5) { n = n + 1; " + bn.KwPrint + " n; " + bn.KwIf + " (n == k) { " + bn.KwReturn + "; } } " + bn.KwPrint + " \"ran out\"; }\nw(2);\n" + bn.KwPrint + " w(9);\n",
				bn.KwFun + " w(k) { " + bn.KwVar + " n = 0; " + bn.KwWhile + " (" + bn.KwTrue + ") { n = n + 1; " + bn.KwIf + " (n == k) " + bn.KwReturn + " nil; " + bn.KwIf + " (n > 20) " + bn.KwBreak + "; } " + bn.KwPrint + " \"left by break\"; }\n" + bn.KwPrint + " w(3);\n",
				bn.KwFun + " w(k) { " + bn.KwVar + " n = 0; " + bn.KwWhile + " ((n = n + 1) < 6) " + bn.KwIf + " (n == k) " + bn.KwReturn + " n; " + bn.KwReturn + " \"ran out\"; }\n" + bn.KwPrint + " w(2);\n" + bn.KwPrint + " w(8);\n",
				bn.KwFun + " w(k) { " + bn.KwVar + " n = 0; " + bn.KwWhile + " ((n = n + 1) < 6) " + bn.KwWhile + " (n == k) { " + bn.KwReturn + " n * 10; } " + bn.KwReturn + " \"ran out\"; }\n" + bn.KwPrint + " w(3);\n",
				bn.KwWhile + " (0) { }\n" + bn.KwBreak + ";\n",
				bn.KwFor + " (;0;) { }\n" + bn.KwContinue + ";\n",
				bn.KwFun + " f() { " + bn.KwReturn + " 1; }\nf();\n" + bn.KwPrint + " \"ok\";\n" + bn.KwReturn + ";\n",
			}
			for _, e := range extra {
				c.c05Program(s, "stray-signals", e, true)
			}
		})

		maxConstructs, maxLeaves := 2, int64(40000)
		if c.Thorough {
			maxConstructs, maxLeaves = 3, 1500000
		}
		c.Sub("enum-skeletons", func(s *Sub) {
			var src string
			var deep bool
			var total int64
			complete := walkDecisions(maxLeaves, func(pick func(string, int) int) {
				g := &c05Gen{budget: maxConstructs, pick: pick}
				src = g.program(3, 1)
				deep = g.deepBrk
			}, func(k int64) {
				total = k
				if c.Mine(k) {
					c.c05Program(s, "enum-skeletons", src, deep)
				}
			})
			if complete {
				c.Ev.MarkExhaustive(fmt.Sprintf("every skeleton the generator derives with at most %d constructs over the reduced decision alphabet (complete walk of its decision tree: %d programs)", maxConstructs, total))
			} else {
				c.Ev.Note(fmt.Sprintf("enum-skeletons: decision-tree walk stopped at %d programs (not exhaustive)", total))
			}
		})

		n := 2500
		if c.Thorough {
			n = 40000
		}
		c.Rapid("rand-skeletons", n, func(rt *rapid.T, s *Sub) {
			g := &c05Gen{budget: rapid.IntRange(3, 25).Draw(rt, "budget"), fnDecls: rapid.Bool().Draw(rt, "functionDeclarations")}
			g.pick = func(label string, n int) int { return rapid.IntRange(0, n-1).Draw(rt, label) }
			src := g.program(rapid.IntRange(1, 4).Draw(rt, "depth"), rapid.IntRange(1, 3).Draw(rt, "top"))
			c.c05Program(s, "rand-skeletons", place(src, drawPlacement(rt)), g.deepBrk)
		})

		// the initialiser of ফর in all its forms — none, an expression, one declaration, several declarations,
		// names that shadow outer variables — runs once per execution of the loop statement, also when the loop
		// statement itself runs several times in one scope (as the unbraced body of another loop), and leaves
		// the outer variables as they were
		c.Rapid("for-initialiser-forms", n/2, func(rt *rapid.T, s *Sub) {
			P, V := bn.KwPrint, bn.KwVar
			var b strings.Builder
			b.WriteString(V + " i = 100;\n" + V + " j = 200;\n" + V + " k = 300;\n" + V + " runs = 0;\n")
			var loop func(ind string, d int, names []string)
			loop = func(ind string, d int, names []string) {
				v := rapid.SampledFrom(names).Draw(rt, "counter")
				w := rapid.SampledFrom(names).Draw(rt, "second")
				bound := rapid.IntRange(1, 3).Draw(rt, "bound")
				var init string
				fresh := true
				switch rapid.IntRange(0, 5).Draw(rt, "init") {
				case 0:
					init, fresh = v+" = 0;", false
				case 1:
					init = V + " " + v + " = 0;"
				case 2, 3:
					if w == v {
						w = "extra"
					}
					init = V + " " + v + " = 0, " + w + " = " + v + " + 10;"
				case 4:
					if w == v {
						w = "extra"
					}
					init = V + " " + w + " = 7, " + v + " = 0, late;"
				default:
					b.WriteString(ind + v + " = 0;\n")
					init, fresh = ";", false
				}
				b.WriteString(ind + bn.KwFor + " (" + init + " " + v + " < " + fmt.Sprint(bound) + "; " + v + " = " + v + " + 1)")
				inner := ind + "  "
				show := func() {
					b.WriteString(inner + "runs = runs + 1;\n" + inner + P + " [" + strings.Join(names, ", ") + ", runs];\n")
				}
				switch k := rapid.IntRange(0, 3).Draw(rt, "body"); {
				case k == 0 && d > 0 && fresh:
					// another loop statement directly as the body: it runs once per iteration in the scope of this loop
					b.WriteString("\n")
					loop(inner, d-1, names)
				case k == 1 || d <= 0:
					b.WriteString(" {\n")
					show()
					b.WriteString(ind + "}\n")
				default:
					b.WriteString(" {\n")
					show()
					loop(inner, d-1, names)
					if rapid.Bool().Draw(rt, "twiceInOneScope") {
						loop(inner, d-1, names)
					}
					b.WriteString(ind + "}\n")
				}
				b.WriteString(ind + P + " [" + strings.Join(names, ", ") + "];\n")
			}
			names := []string{"i", "j", "k"}
			for n := rapid.IntRange(1, 2).Draw(rt, "top"); n > 0; n-- {
				loop("", rapid.IntRange(1, 3).Draw(rt, "depth"), names)
			}
			c.c05Program(s, "for-initialiser-forms", place(b.String(), drawPlacement(rt)), true)
		})
	})
}
