package checks

import (
	"fmt"
	"regexp"
	"strings"
	"time"

	"verifharness/bn"
	"verifharness/ev"
	"verifharness/model"
	"verifharness/reflex"
	"verifharness/refparse"
	"verifharness/run"
)

// parseRef lexes and parses a generated program with the reference front end;
// a failure is harness trouble (generators only produce valid programs).
func parseRef(src string) ([]bn.Stmt, error) {
	ref := reflex.Lex([]rune(src))
	if len(ref.Diags) > 0 {
		return nil, fmt.Errorf("generated program has a lexical error")
	}
	rp := refparse.Parse(ref.Toks)
	if !rp.OK {
		return nil, fmt.Errorf("generated program is rejected by the reference parser at token %d %q (line %d)", rp.ErrTok, ref.Toks[rp.ErrTok].Text, ref.Toks[rp.ErrTok].Line)
	}
	if rp.OODVarBreak || rp.OODTrailingComma {
		return nil, fmt.Errorf("generated program is outside the accept/reject domain")
	}
	return rp.Prog, nil
}

type judgeOpts struct {
	checkLine bool // compare the diagnostic's line with the model's
	checkKind bool // compare the diagnostic's kind class (C06)
}

var kindPatterns = map[string]*regexp.Regexp{
	model.EZeroDiv:     regexp.MustCompile(`(?i)zero|\b0\b|divi|modul|শূন্য`),
	model.EIndex:       regexp.MustCompile(`(?i)index|bound|range|subscript|integer|ইনডেক্স`),
	model.ENotArray:    regexp.MustCompile(`(?i)array|index|list|subscript|অ্যারে`),
	model.ENotCallable: regexp.MustCompile(`(?i)call|function|invoke|ফাংশন`),
	model.EType:        regexp.MustCompile(`(?i)operand|number|integer|string|expected|must|type|invalid|unsupported|cannot|can't`),
	model.ENegShift:    regexp.MustCompile(`(?i)shift|negative|operand|integer|count`),
	model.ENotObject:   regexp.MustCompile(`(?i)object|property|field|member|অবজেক্ট|অব্জেক্ট`),
	model.ECyclicPrint: regexp.MustCompile(`(?i)itself|cycl|recurs|circular|self|print`),
}

// kindMatches implements the lenient kind classes of DESIGN.md section 3.
func kindMatches(res *model.Result, first string) bool {
	switch res.ErrKind {
	case model.EUndefined, model.ERedeclare, model.EProperty:
		return strings.Contains(first, res.ErrName)
	case model.EArity:
		return strings.Contains(first, fmt.Sprint(res.ErrCounts[0])) && strings.Contains(first, fmt.Sprint(res.ErrCounts[1]))
	case model.EBuiltin:
		return strings.TrimSpace(first) != ""
	case model.EStray:
		words := map[string][]string{"break": {"break", bn.KwBreak}, "continue": {"continue", bn.KwContinue}, "return": {"return", bn.KwReturn}}
		for _, w := range words[res.ErrName] {
			if strings.Contains(first, w) {
				return true
			}
		}
		return false
	}
	if re, ok := kindPatterns[res.ErrKind]; ok {
		return re.MatchString(first)
	}
	return strings.TrimSpace(first) != ""
}

// judgeModel compares one execution with the model's prediction.
func judgeModel(resp *run.Resp, res *model.Result, budget int64, o judgeOpts) (sig, msg string) {
	switch resp.Class() {
	case run.Abnormal:
		return "abnormal", "abnormal termination: " + clip(resp.Panic+resp.CrashInfo, 400)
	case run.Hung:
		return "hang", "no answer within the watchdog limit"
	case run.Rejected:
		return "valid-rejected", "a valid program was rejected: " + run.FirstLine(resp.Err)
	case run.Budget:
		if res.Outcome == model.OK || res.Outcome == model.RuntimeError {
			return "not-finished", fmt.Sprintf("the program should finish within %d model steps but was still running after %d evaluation steps", res.Steps, budget)
		}
		return "", ""
	}
	if ok, why := model.CompareStdout(res, resp.Out); !ok {
		return "stdout", why
	}
	switch res.Outcome {
	case model.OK:
		if resp.HadRt || strings.TrimSpace(resp.Err) != "" {
			return "spurious-error", "a program that performs no invalid operation reported: " + run.FirstLine(resp.Err)
		}
	case model.RuntimeError:
		if !resp.HadRt || strings.TrimSpace(resp.Err) == "" {
			return "missing-error", fmt.Sprintf("expected a runtime error (%s, line %d) but none was reported", res.ErrKind, res.ErrLine)
		}
		if o.checkLine && res.ErrLine > 0 {
			if ln := run.DiagLine(resp.Err); ln != res.ErrLine {
				return "error-line", fmt.Sprintf("runtime error (%s) reported for line %d, the failing operation is on line %d: %q", res.ErrKind, ln, res.ErrLine, clip(resp.Err, 200))
			}
		}
		if o.checkKind && !kindMatches(res, run.FirstLine(resp.Err)) {
			return "error-kind", fmt.Sprintf("first diagnostic %q does not describe the failing operation (%s %s)", run.FirstLine(resp.Err), res.ErrKind, res.ErrName)
		}
	}
	return "", ""
}

// modelCase runs one program through the model and the batch worker and
// judges it.  It returns the model result (for classification) and a verdict.
type modelCase struct {
	Src   string
	Stdin string
	Res   *model.Result
	Resp  run.Resp
	Sig   string
	Msg   string
}

func (c *Ctx) runModelCase(s *Sub, src, stdin string, opt model.Options, o judgeOpts) *modelCase {
	prog, err := parseRef(src)
	if err != nil {
		s.Harness("%v:\n%s", err, src)
	}
	if c.stepOverride > 0 {
		opt.MaxSteps = c.stepOverride
	}
	realDepth := int64(4000)
	if c.depthOverride > 0 {
		opt.MaxDepth = c.depthOverride
		realDepth = int64(c.depthOverride) + 200
	}
	if stdin != "" {
		opt.Stdin = strings.Split(strings.TrimSuffix(stdin, "\n"), "\n")
	}
	res := model.Run(prog, opt)
	mc := &modelCase{Src: src, Stdin: stdin, Res: res}
	if res.Outcome == model.OverBudget {
		c.Ev.Discard("model-over-budget")
		return mc
	}
	budget := 50*res.Steps + 100000
	mc.Resp = c.W().Run(run.Req{Src: src, Stdin: stdin, Budget: budget, Depth: realDepth})
	mc.Sig, mc.Msg = judgeModel(&mc.Resp, res, budget, o)
	// CLI cross-check of a deterministic sample: the batch mode (verif hook) and
	// the ordinary executable must show the same behaviour for the same program
	every := uint64(400)
	if c.Thorough {
		every = 150
	}
	if mc.Sig == "" && ev.Hash(src)%every == 0 && (mc.Resp.Class() == run.Clean || mc.Resp.Class() == run.RtError) {
		// the script file as generated, without its final newline, or with CRLF line ends (no multi-line tokens):
		// none of these is significant
		cliSrc := src
		switch (ev.Hash(src) / every) % 3 {
		case 1:
			cliSrc = strings.TrimRight(src, "\n")
		case 2:
			if !strings.Contains(src, "\"") && !strings.Contains(src, "/*") {
				cliSrc = strings.ReplaceAll(src, "\n", "\r\n")
			}
		}
		cr := c.CLIScript(cliSrc, stdin, 30*time.Second)
		c.Ev.Class("cli-crosscheck")
		wantStatus := 0
		if mc.Resp.Class() == run.RtError {
			wantStatus = 70
		}
		if !cr.TimedOut && (cr.Stdout != mc.Resp.Out || cr.Status != wantStatus || run.FirstLine(cr.Stderr) != run.FirstLine(mc.Resp.Err)) {
			mc.Sig, mc.Msg = "cli-vs-batch", fmt.Sprintf("the ordinary executable behaves differently from the batch mode of the same build: status=%d stdout=%q stderr=%q", cr.Status, clip(cr.Stdout, 300), clip(cr.Stderr, 200))
		}
	}
	return mc
}

func (mc *modelCase) replay(check string) Replay {
	return Replay{Check: check, Sig: mc.Sig, Source: mc.Src, Stdin: mc.Stdin, Note: mc.Msg, Expected: model.ExpectedText(mc.Res), Observed: mc.Resp.Describe()}
}
