package checks

import (
	"fmt"
	"math"
	"math/big"
	"regexp"
	"strconv"
	"strings"
	"testing"
	"time"
	"unicode"

	"golang.org/x/text/unicode/norm"
	"pgregory.net/rapid"

	"verifharness/bn"
	"verifharness/model"
)

// C15 — দেখাও prints each value faithfully, newline-terminated, consistent with +.

var plainInt = regexp.MustCompile(`^-?[0-9]+$`)

// sigDigits counts the significant digits of a printed numeral.
func sigDigits(text string) int {
	t := strings.TrimLeft(text, "+-")
	if i := strings.IndexAny(t, "eE"); i >= 0 {
		t = t[:i]
	}
	t = strings.Replace(t, ".", "", 1)
	t = strings.TrimLeft(t, "0")
	t = strings.TrimRight(t, "0")
	return len(t)
}

// c15NumberText checks one printed numeral against the double it must denote.
func c15NumberText(text string, want float64) string {
	if math.IsNaN(want) || math.IsInf(want, 0) {
		if text == "" {
			return "nothing printed for a non-finite number"
		}
		return ""
	}
	got, err := strconv.ParseFloat(text, 64)
	if err != nil {
		return fmt.Sprintf("%q is not a decimal numeral", text)
	}
	if math.Float64bits(got) != math.Float64bits(want) && !(got == 0 && want == 0) {
		return fmt.Sprintf("%q reads back as %v, not %v", text, got, want)
	}
	shortest := sigDigits(strconv.FormatFloat(want, 'e', -1, 64))
	if d := sigDigits(text); d > shortest {
		return fmt.Sprintf("%q has %d significant digits, the shortest numeral that reads back has %d", text, d, shortest)
	}
	if want == math.Trunc(want) && math.Abs(want) < 1e6 && !plainInt.MatchString(text) {
		return fmt.Sprintf("integer of magnitude below one million printed as %q", text)
	}
	return ""
}

type c15Case struct {
	expr     string // source expression
	isNum    bool
	num      float64
	intTyped bool     // result of a bitwise operator
	exact    *big.Int // integer-typed value beyond 2^53
	str      string   // string value (source text between quotes)
	fixed    string   // exact expected text for nil/true/false
}

func (c *Ctx) c15Value(s *Sub, sub string, v c15Case, enum bool) {
	P := bn.KwPrint
	src := P + " " + v.expr + ";\n" + P + " \"\" + " + v.expr + ";\n" + P + " \"p\" + " + v.expr + ";\n" +
		P + " " + v.expr + " + \"\";\n" + P + " " + v.expr + " + \"s\";\n" + P + " \"p\" + " + v.expr + " + \"s\";\n" +
		P + " \"\" + " + v.expr + " + 1;\n" + P + " (\"\" + " + v.expr + ") == (" + v.expr + " + \"\");\n" +
		P + " [" + v.expr + "];\n" + P + " {k: " + v.expr + "};\n" +
		P + " [1, [" + v.expr + ", 2]];\n" + P + " \"end\";\n"
	if v.fixed != "" {
		// nil / booleans: + is not defined for them
		src = P + " " + v.expr + ";\n" + P + " [" + v.expr + "];\n" + P + " {k: " + v.expr + "};\n" + P + " \"end\";\n"
	}
	r := c.RunB(src, "")
	nt := v.isNum && !(v.num == math.Trunc(v.num) && math.Abs(v.num) < 1000) || (!v.isNum && v.fixed == "" && !isASCII(v.str))
	cls := "string"
	if v.isNum {
		cls = "number"
	} else if v.fixed != "" {
		cls = "constant"
	}
	if enum {
		c.Ev.EnumCase(sub, nt, func() string { return v.expr }, cls)
	} else {
		c.Ev.Case(sub, v.expr, nt, cls)
	}
	fail := func(sig, msg string) {
		s.Violation(Replay{Check: "print", Sig: sig, Source: src, Note: msg, Extra: map[string]string{"expr": v.expr}, Observed: r.Describe()})
	}
	if r.Class() != "clean" {
		fail("not-clean", "printing a value failed")
	}
	out := r.Out
	if !strings.HasSuffix(out, "end\n") {
		fail("truncated", "output does not end with the final marker line")
	}
	body := strings.TrimSuffix(out, "end\n")
	switch {
	case v.fixed != "":
		want := v.fixed + "\n"
		if !strings.HasPrefix(body, want) {
			fail("constant", fmt.Sprintf("expected %q on the first line", v.fixed))
		}
		rest := strings.Split(strings.TrimSuffix(body[len(want):], "\n"), "\n")
		if len(rest) != 2 {
			fail("newline", "each দেখাও must write exactly one line for this value")
		}
		for _, ln := range rest {
			n := strings.ReplaceAll(ln, "<nil>", "nil")
			if !strings.Contains(n, v.fixed) {
				fail("container", fmt.Sprintf("container line %q does not show %q", ln, v.fixed))
			}
		}
	case v.isNum:
		ln := strings.Split(strings.TrimSuffix(body, "\n"), "\n")
		if len(ln) != 11 {
			fail("newline", fmt.Sprintf("expected 11 lines (one newline per দেখাও), got %d", len(ln)))
		}
		if v.exact != nil {
			r2, ok := new(big.Rat).SetString(ln[0])
			if !ok || !r2.IsInt() || r2.Num().Cmp(v.exact) != 0 {
				fail("number", fmt.Sprintf("%q does not denote the exact integer %s", ln[0], v.exact))
			}
		} else if why := c15NumberText(ln[0], v.num); why != "" {
			// an integer-typed value may also be written out exactly, digit for digit
			r2, ok := new(big.Rat).SetString(ln[0])
			if !(v.intTyped && ok && r2.IsInt() && plainInt.MatchString(ln[0]) && r2.Cmp(new(big.Rat).SetFloat64(v.num)) == 0) {
				fail("number", why)
			}
		}
		if ln[1] != ln[0] {
			fail("concat", fmt.Sprintf("\"\" + v printed %q but v printed %q", ln[1], ln[0]))
		}
		if ln[2] != "p"+ln[0] {
			fail("concat", fmt.Sprintf("\"p\" + v printed %q but v printed %q", ln[2], ln[0]))
		}
		// the number as the left operand of +, and between two strings
		if ln[3] != ln[0] {
			fail("concat", fmt.Sprintf("v + \"\" printed %q but v printed %q", ln[3], ln[0]))
		}
		if ln[4] != ln[0]+"s" {
			fail("concat", fmt.Sprintf("v + \"s\" printed %q but v printed %q", ln[4], ln[0]))
		}
		if ln[5] != "p"+ln[0]+"s" {
			fail("concat", fmt.Sprintf("\"p\" + v + \"s\" printed %q but v printed %q", ln[5], ln[0]))
		}
		// what "" + v yields is a string: a further + splices, and it equals v + ""
		if ln[6] != ln[0]+"1" {
			fail("concat", fmt.Sprintf("\"\" + v + 1 printed %q but v printed %q", ln[6], ln[0]))
		}
		if ln[7] != "true" {
			fail("concat", fmt.Sprintf("(\"\" + v) == (v + \"\") printed %q", ln[7]))
		}
		for _, cl := range ln[8:] {
			found := false
			for _, tok := range strings.Fields(strings.NewReplacer("map[", " ", "[", " ", "]", " ", "{", " ", "}", " ", ",", " ", "k:", " ").Replace(cl)) {
				if v.exact != nil {
					r2, ok := new(big.Rat).SetString(tok)
					if ok && r2.IsInt() && r2.Num().Cmp(v.exact) == 0 {
						found = true
					}
				} else if c15NumberText(tok, v.num) == "" && !(math.IsNaN(v.num) || math.IsInf(v.num, 0)) {
					found = true
				} else if r2, ok := new(big.Rat).SetString(tok); v.intTyped && ok && !math.IsInf(v.num, 0) && !math.IsNaN(v.num) && r2.Cmp(new(big.Rat).SetFloat64(v.num)) == 0 {
					found = true
				} else if math.IsNaN(v.num) || math.IsInf(v.num, 0) {
					found = true
				}
			}
			if !found {
				fail("container", fmt.Sprintf("container line %q does not show a numeral denoting the element", cl))
			}
		}
	default:
		want := norm.NFC.String(v.str)
		// line 1: the string itself
		if !strings.HasPrefix(body, want+"\n") {
			got := body
			if len(got) > len(want)+20 {
				got = got[:len(want)+20]
			}
			if norm.NFD.String(strings.TrimSuffix(strings.SplitAfterN(body, "\n", 2)[0], "\n")) == norm.NFD.String(v.str) {
				fail("nfc", fmt.Sprintf("output %q is canonically equivalent to the string but not in NFC", got))
			}
			fail("string", fmt.Sprintf("expected %q then a newline, output starts %q", want, got))
		}
		rest := body[len(want)+1:]
		if !strings.HasPrefix(rest, want+"\n") {
			fail("concat", "\"\" + v does not print what v prints")
		}
		rest = rest[len(want)+1:]
		pl := "p" + want + "\n"
		if !strings.HasPrefix(rest, pl) {
			pl = norm.NFC.String("p"+v.str) + "\n"
			if !strings.HasPrefix(rest, pl) {
				fail("concat", "\"p\" + v does not print p followed by what v prints")
			}
		}
		rest = rest[len(pl):]
		for _, w := range []string{v.str, v.str + "s", "p" + v.str + "s", v.str + "1", "true"} {
			wl := norm.NFC.String(w) + "\n"
			if !strings.HasPrefix(rest, wl) {
				fail("concat", fmt.Sprintf("v as the left operand of +: expected %q, output continues %q", wl, clip(rest, 80)))
			}
			rest = rest[len(wl):]
		}
		// containers: three lines, each containing NFC(v)
		cont := rest
		if want != "" && strings.Count(cont, want) < 3 {
			fail("container", fmt.Sprintf("the string inside arrays/objects is not shown as its characters: %q", clip(cont, 300)))
		}
		if !norm.NFC.IsNormalString(cont) {
			fail("nfc", "container output is not in NFC")
		}
		wantNL := 3 + 3*strings.Count(want, "\n")
		if strings.Count(cont, "\n") != wantNL {
			fail("newline", fmt.Sprintf("container lines: expected %d newlines, got %d", wantNL, strings.Count(cont, "\n")))
		}
	}
}

func isASCII(s string) bool {
	for _, r := range s {
		if r > 127 {
			return false
		}
	}
	return true
}

func numCase(f float64) c15Case {
	return c15Case{expr: numExpr(f), isNum: true, num: f}
}

func TestC15(t *testing.T) {
	Main(t, "C15", func(c *Ctx) {
		c.OnReplay("print", func(s *Sub, rp *Replay) {
			// replays carry the expression; re-derive the case for numbers via the reference evaluator is not possible here,
			// so replay re-checks structural relations only through a fresh generic run
			expr := rp.Extra["expr"]
			if expr == "shared" {
				c.c15Shared(s)
				return
			}
			if expr == "prompt-print" || expr == "abrupt-end" {
				return // re-run by the sub-checks themselves on every run
			}
			if expr == "long-source-line" {
				return // re-run by the sub-check itself on every run
			}
			if expr == "equivalent-names" {
				c.c15EquivalentNames(s, "print")
				return
			}
			if rp.Sig == "number-plus-string" {
				c.c15NumberPlusString(s)
				return
			}
			if f, err := strconv.ParseFloat(strings.Trim(expr, "()"), 64); err == nil && !strings.ContainsAny(expr, "|&<\"") {
				c.c15Value(s, "replay", numCase(f), false)
				return
			}
			if strings.HasPrefix(expr, "\"") && strings.HasSuffix(expr, "\"") && strings.Count(expr, "\"") == 2 {
				c.c15Value(s, "replay", c15Case{expr: expr, str: strings.Trim(expr, "\"")}, false)
			}
		})
		c.ReplayTier()

		c.Sub("boundary-numbers", func(s *Sub) {
			if c.Shard != 0 {
				return
			}
			var vals []float64
			vals = append(vals, 0, math.Copysign(0, -1), 5e-324, 2.2250738585072014e-308, 1.7976931348623157e308,
				9007199254740991, 9007199254740992, 9007199254740993, 9007199254740994, 999999, 1e6, 1000001, 999999.5, 123456.789, 0.1, 0.2, 0.30000000000000004,
				1.0/3, 2.0/3, 100, 1e5, 1e-5, 0.0001, 0.00001234, 4611686018427387904, 9223372036854775808, 1e21, 1e20, 123456789012345680000)
			for k := -6; k <= 23; k++ {
				p := math.Pow(10, float64(k))
				vals = append(vals, p, math.Nextafter(p, 0), math.Nextafter(p, math.Inf(1)), -p)
			}
			for i := 1; i <= 17; i++ {
				f, _ := strconv.ParseFloat(strings.Repeat("7", i), 64)
				vals = append(vals, f, f/1000, -f)
			}
			for _, f := range vals {
				c.c15Value(s, "boundary-numbers", numCase(f), true)
			}
			// non-finite and integer-typed values
			c.c15Value(s, "boundary-numbers", c15Case{expr: "(2 ** 1024)", isNum: true, num: math.Inf(1)}, true)
			c.c15Value(s, "boundary-numbers", c15Case{expr: "(-(2 ** 1024))", isNum: true, num: math.Inf(-1)}, true)
			c.c15Value(s, "boundary-numbers", c15Case{expr: "((2 ** 1024) - (2 ** 1024))", isNum: true, num: math.NaN()}, true)
			ints := []struct {
				e string
				v int64
			}{{"(3 | 0)", 3}, {"(999999 | 0)", 999999}, {"(1000000 | 0)", 1000000}, {"(1 << 20)", 1 << 20}, {"(1 << 53)", 1 << 53}, {"(1 << 62)", 1 << 62}, {"((1 << 62) | 1)", 1<<62 | 1},
				{"(~0)", -1}, {"(1 << 63)", math.MinInt64}, {"((1 << 53) + 1 | 0)", 1 << 53}, {"(((1 << 53) | 1))", 1<<53 | 1}, {"(0 - 7 >> 1)", -4}, {"(~(1 << 62))", ^(1 << 62)}}
			for _, iv := range ints {
				cs := c15Case{expr: iv.e, isNum: true, num: float64(iv.v), intTyped: true}
				if int64(float64(iv.v)) != iv.v || iv.v > 1<<53 || iv.v < -(1<<53) {
					if float64(iv.v) != float64(int64(float64(iv.v))) || new(big.Float).SetInt64(iv.v).Cmp(new(big.Float).SetFloat64(float64(iv.v))) != 0 {
						cs.exact = big.NewInt(iv.v)
					}
				}
				c.c15Value(s, "boundary-numbers", cs, true)
			}
			for _, k := range []c15Case{{expr: "nil", fixed: "nil"}, {expr: bn.KwTrue, fixed: "true"}, {expr: bn.KwFalse, fixed: "false"}, {expr: "(1 < 2)", fixed: "true"}, {expr: "(!1)", fixed: "false"}} {
				c.c15Value(s, "boundary-numbers", k, true)
			}
		})
		// values nested d containers deep, built at run time: every level is an element / a property and must
		// be shown, down to the innermost scalar
		c.Sub("deep-nesting", func(s *Sub) {
			var k int64
			for _, d := range []int{1, 2, 3, 5, 10, 31, 32, 33, 63, 64, 65, 66, 100, 127, 128, 129, 255, 256, 257, 500, 1000, 2000} {
				for _, form := range []string{"array", "object", "mixed"} {
					k++
					if !c.Mine(k) {
						continue
					}
					wrap := map[string]string{"array": "a = [a];", "object": "a = {v: a};", "mixed": bn.KwIf + " (i % 2 == 0) a = [a]; " + bn.KwElse + " a = {v: a};"}[form]
					src := fmt.Sprintf("%s a = [\"ক\", 7];\n%s (%s i = 0; i < %d; i = i + 1) { %s }\n%s a;\n%s \"end\";\n", bn.KwVar, bn.KwFor, bn.KwVar, d, wrap, bn.KwPrint, bn.KwPrint)
					r := c.RunB(src, "")
					c.Ev.EnumCase("deep-nesting", true, func() string { return src }, "nesting-"+form, fmt.Sprintf("depth-%d", d))
					bad := ""
					ln := strings.Split(r.Out, "\n")
					switch {
					case r.Class() != "clean" || len(ln) != 3 || ln[1] != "end":
						bad = "the program must print one line for the value, then end"
					case !strings.Contains(ln[0], "ক") || !strings.Contains(ln[0], "7"):
						bad = "the innermost elements are not shown"
					default:
						// punctuation is not pinned: any bracket character counts, and the property name is the only v
						opens := strings.Count(ln[0], "[") + strings.Count(ln[0], "{")
						closes := strings.Count(ln[0], "]") + strings.Count(ln[0], "}")
						props := strings.Count(ln[0], "v")
						wantOpens, wantProps := d+1, 0
						if form == "object" {
							wantProps = d
						} else if form == "mixed" {
							wantProps = d / 2
						}
						if opens != wantOpens || closes != wantOpens || props != wantProps {
							bad = fmt.Sprintf("expected %d nested containers (%d of them objects with property v), the line shows %d opening brackets, %d closing brackets, %d properties", wantOpens, wantProps, opens, closes, props)
						}
					}
					if bad != "" {
						s.Violation(Replay{Check: "nesting", Sig: "nesting-" + form, Source: src, Note: bad, Observed: clip(r.Describe(), 400)})
					}
				}
			}
			c.Ev.MarkExhaustive("22 nesting depths (1..2000, around 32/64/128/256) x arrays, objects, alternating")
		})
		// runs of combining marks behind one base letter.  None of these marks composes with the base or with
		// another mark, so the NFC form is the run stably sorted by combining class — computed here without the
		// normalisation library, which is what the interpreter itself uses.  Runs of more than 30 marks are
		// open finding overlong-mark-run: the library's stream-safe mode inserts U+034F after every 30th mark.
		c.Sub("combining-mark-runs", func(s *Sub) {
			type mk struct {
				r   rune
				ccc int
			}
			marks := []mk{{0x09bc, 7}, {0x09cd, 9}, {0x0323, 220}, {0x0301, 230}, {0x09fe, 230}}
			var k int64
			for _, base := range []string{"ক", "x", "য"} {
				for _, n := range []int{1, 2, 3, 5, 10, 29, 30, 31, 32, 45, 60, 61, 100} {
					for pat := 0; pat < 6; pat++ {
						k++
						if !c.Mine(k) {
							continue
						}
						run := make([]mk, n)
						for i := range run {
							switch pat {
							case 0, 1, 2:
								run[i] = marks[pat] // one mark repeated
							case 3:
								run[i] = marks[4-i%5] // descending classes: must be reordered
							case 4:
								run[i] = marks[(i*3)%5]
							default:
								run[i] = marks[3+i%2] // equal classes: order must be kept
							}
						}
						if base == "য" && run[0].r == 0x09bc {
							continue // য + nukta is the one pair here that has a composite (excluded from NFC, but keep clear of it)
						}
						in := base
						for _, m := range run {
							in += string(m.r)
						}
						sorted := append([]mk{}, run...)
						for i := 1; i < len(sorted); i++ { // stable insertion sort by class
							for j := i; j > 0 && sorted[j-1].ccc > sorted[j].ccc; j-- {
								sorted[j-1], sorted[j] = sorted[j], sorted[j-1]
							}
						}
						want := base
						for _, m := range sorted {
							want += string(m.r)
						}
						src := bn.KwPrint + " \"" + in + "\";\n" + bn.KwPrint + " [\"" + in + "\"];\n" + bn.KwPrint + " \"\" + \"" + in + "\";\n"
						if n > 30 && c.Open("overlong-mark-run") {
							c.Ev.Exclude("overlong-mark-run")
							r := c.RunB(src, "")
							// the listed finding and nothing else: exactly the stream-safe form of the library
							if ss := norm.NFC.String(in); r.Out != ss+"\n["+ss+"]\n"+ss+"\n" {
								s.Violation(Replay{Check: "marks", Sig: "overlong-other", Source: src, Note: "a run of more than 30 marks prints neither its NFC form nor the form of open finding overlong-mark-run", Observed: clip(r.Describe(), 400)})
							}
							continue
						}
						r := c.RunB(src, "")
						c.Ev.EnumCase("combining-mark-runs", true, func() string { return src }, fmt.Sprintf("marks-%d", n), fmt.Sprintf("pattern-%d", pat))
						if r.Class() != "clean" || r.Out != want+"\n["+want+"]\n"+want+"\n" {
							s.Violation(Replay{Check: "marks", Sig: "mark-run", Source: src, Note: fmt.Sprintf("a base letter followed by %d combining marks must print as the letter and the marks in canonical order (%+q)", n, want), Observed: clip(r.Describe(), 400)})
						}
					}
				}
			}
			c.Ev.MarkExhaustive("3 base letters x 13 run lengths (1..100) x 6 patterns over five non-composing marks of four combining classes")
		})
		c.Probe("overlong-mark-run", func() bool {
			in := "ক" + strings.Repeat("\u09bc", 31)
			r := c.RunB(bn.KwPrint+" \""+in+"\";\n", "")
			return r.Out != in+"\n"
		})
		// differential NFC: what দেখাও prints for a string over Latin letters, Bangla letters and signs, combining
		// marks and precomposed characters against a second NFC implementation (Python's unicodedata)
		nd := 1500
		if c.Thorough {
			nd = 40000
		}
		var py *pyNFC
		var pyErr error
		pyTried := false
		defer func() {
			if py != nil {
				py.Close()
			}
		}()
		c15Alphabet := []rune{'a', 'e', 'E', 'o', 'u', 'A', 'n', ' ', 'ক', 'য', 'ড', 'ঢ', 'ব', 'র', 0x09be, 0x09c7, 0x09d7, 0x09cb, 0x09cc, 0x09bf, 0x09bc, 0x09cd, 0x0981, 0x09fe,
			0x0301, 0x0308, 0x0323, 0x0334, 0x0327, 0x0303, 0x00e9, 0x00c5, 0x1ea1, 0x09dc, 0x09dd, 0x09df, 0x00a8, 0x0344, '1', '-'}
		// the inputs of open finding vowel-sign-then-composing-mark: U+09BE or U+09D7 that is not the second half of a
		// two-part vowel (not straight after U+09C7)
		k21Shape := func(s string) bool {
			r := []rune(s)
			for i, ch := range r {
				if (ch == 0x09be || ch == 0x09d7) && (i == 0 || r[i-1] != 0x09c7) {
					return true
				}
			}
			return false
		}
		c.Rapid("nfc-differential", nd, func(rt *rapid.T, s *Sub) {
			if !pyTried {
				pyTried = true
				py, pyErr = startPyNFC()
				if pyErr != nil {
					c.Ev.Note("nfc-differential skipped: " + pyErr.Error())
				}
			}
			if py == nil {
				rt.Skip("no python3")
			}
			n := rapid.IntRange(1, 10).Draw(rt, "len")
			r := make([]rune, n)
			for i := range r {
				r[i] = rapid.SampledFrom(c15Alphabet).Draw(rt, "ch")
			}
			str := string(r)
			want, run, err := py.NFC(str)
			if err != nil {
				s.Harness("python NFC co-process failed: %v", err)
			}
			split := rapid.IntRange(0, n).Draw(rt, "split")
			src := bn.KwPrint + " \"" + str + "\";\n" + bn.KwPrint + " [\"" + str + "\"];\n" + bn.KwPrint + " \"" + string(r[:split]) + "\" + \"" + string(r[split:]) + "\";\n"
			res := c.RunB(src, "")
			lib := norm.NFC.String(str)
			asLib := res.Out == lib+"\n["+lib+"]\n"+lib+"\n"
			switch {
			case run > 30 && c.Open("overlong-mark-run"):
				c.Ev.Exclude("overlong-mark-run")
				if !asLib {
					s.Violation(Replay{Check: "nfc", Sig: "overlong-other", Source: src, Note: "neither NFC nor the form of open finding overlong-mark-run", Observed: clip(res.Describe(), 400)})
				}
				return
			case k21Shape(str) && c.Open("vowel-sign-then-composing-mark"):
				c.Ev.Exclude("vowel-sign-then-composing-mark")
				if !asLib {
					s.Violation(Replay{Check: "nfc", Sig: "vowel-sign-other", Source: src, Note: "neither NFC nor the form of open finding vowel-sign-then-composing-mark", Observed: clip(res.Describe(), 400)})
				}
				return
			}
			c.Ev.Case("nfc-differential", str, want != str || lib != str, "nfc-differential")
			if res.Class() != "clean" || res.Out != want+"\n["+want+"]\n"+want+"\n" {
				s.Violation(Replay{Check: "nfc", Sig: "nfc-differs", Source: src, Note: fmt.Sprintf("the printed text is not the NFC form of the string: expected %+q", want), Expected: want, Observed: clip(res.Describe(), 400)})
			}
		})
		c.Probe("vowel-sign-then-composing-mark", func() bool {
			in := "a\u09be\u09cd\u0301"
			r := c.RunB(bn.KwPrint+" \""+in+"\";\n", "")
			return r.Out != in+"\n"
		})
		// + between a number and a string splices whatever the string spells — digits, signs, exponents, the
		// names of other values: the text is what দেখাও prints for the number next to what it prints for the string
		c.Sub("numeric-looking-strings", func(s *Sub) { c.c15NumberPlusString(s) })
		// property names that are canonically equivalent but differently encoded are different names: an object
		// that was given both shows both (the printed names look alike, being written in NFC), with their own values
		c.Sub("equivalent-property-names", func(s *Sub) { c.c15EquivalentNames(s, "print") })
		// every executed দেখাও has written its line by the time the program ends, however it ends: at the end of the
		// text (with or without a final newline), by a runtime error, by a stray jump out of a top-level compound
		// statement or out of a function, in the middle of a loop or of a nest of calls
		c.Sub("prints-before-every-kind-of-end", func(s *Sub) {
			P := bn.KwPrint
			vals := []string{"\"line\"", "12.5", "[1, \"ক\u09cb\"]", "{k: nil}"}
			compounds := []struct{ name, open, close string }{
				{"top-level", "", ""},
				{"block", "{\n", "}\n"},
				{"nested-blocks", "{\n{\n", "}\n}\n"},
				{"if-arm", bn.KwIf + " (" + bn.KwTrue + ") {\n", "}\n"},
				{"else-arm", bn.KwIf + " (" + bn.KwFalse + ") { } " + bn.KwElse + " {\n", "}\n"},
				{"while-body", bn.KwVar + " w = 0;\n" + bn.KwWhile + " (w < 2) {\nw = w + 1;\n", "}\n"},
				{"for-body", bn.KwFor + " (" + bn.KwVar + " i = 0; i < 2; i = i + 1) {\n", "}\n"},
				{"function-body", bn.KwFun + " host() {\n", "}\nhost();\n"},
				{"function-called-in-loop", bn.KwFun + " host() {\n", "}\n" + bn.KwFor + " (" + bn.KwVar + " i = 0; i < 2; i = i + 1) { host(); }\n"},
				{"nested-calls", bn.KwFun + " inner() {\n", "}\n" + bn.KwFun + " outer() { " + P + " \"outer\"; inner(); " + P + " \"outer-after\"; }\nouter();\n"},
			}
			ends := []string{"", bn.KwBreak + ";", bn.KwContinue + ";", bn.KwReturn + ";", bn.KwReturn + " 5;", "nope;", P + " 1 - nil;", "[1][7];", bn.BLen + "(5);", bn.KwIf + " (" + bn.KwTrue + ") { " + bn.KwBreak + "; }", "{ { " + bn.KwReturn + "; } }"}
			var k int64
			for _, cp := range compounds {
				for _, e := range ends {
					for _, v := range vals {
						k++
						if !c.Mine(k) {
							continue
						}
						src := P + " \"first\";\n" + cp.open + P + " " + v + ";\n" + P + " \"second\";\n" + e + "\n" + P + " \"after-end\";\n" + cp.close + P + " \"last\";"
						mc := c.runModelCase(s, src, "", model.Options{MaxSteps: 5000}, judgeOpts{checkLine: true})
						if mc.Res.Outcome == model.OverBudget {
							continue
						}
						c.Ev.EnumCase("prints-before-every-kind-of-end", true, func() string { return src }, "abrupt-end", "outcome-"+mc.Res.Outcome.String())
						if mc.Sig != "" {
							rp := mc.replay("print")
							rp.Extra = map[string]string{"expr": "abrupt-end"}
							s.Violation(rp)
						}
						// and through the real executable, as a file without a final newline
						if k%4 == 0 && mc.Res.Outcome != model.Unspecified {
							cr := c.CLIScript(src, "", 30*time.Second)
							if ok, why := model.CompareStdout(mc.Res, cr.Stdout); !ok || cr.TimedOut {
								s.Violation(Replay{Check: "print", Sig: "abrupt-end-cli", Source: src, Extra: map[string]string{"expr": "abrupt-end"}, Note: "through the executable: " + why, Observed: fmt.Sprintf("status=%d stdout=%q stderr=%q", cr.Status, clip(cr.Stdout, 300), clip(cr.Stderr, 200))})
							}
						}
					}
				}
			}
			c.Ev.MarkExhaustive(fmt.Sprintf("%d enclosing constructs x %d ways of ending x %d printed values", len(compounds), len(ends), len(vals)))
		})
		// script files with one very long source line — a string literal, an array literal, a comment — through the
		// executable: every দেখাও before, on and after that line writes its line
		c.Sub("long-source-lines", func(s *Sub) {
			P := bn.KwPrint
			var k int64
			for _, n := range []int{65000, 65535, 65536, 65537, 70000, 131072, 200001, 1 << 20} {
				for form := 0; form < 4; form++ {
					k++
					if !c.Mine(k) || (!c.Thorough && n > 200001) {
						continue
					}
					var line, want string
					switch form {
					case 0:
						body := strings.Repeat("\u09ac\u09be\u0982\u09b2\u09be ", n/16+1)
						line, want = P+" \""+body+"\";", body
					case 1:
						body := strings.Repeat("ab ", n/3+1)
						line, want = P+" \""+body+"\" + \"|\";", body+"|"
					case 2:
						line, want = P+" "+bn.BLen+"(["+strings.Repeat("1, ", n/3+1)+"1]);", fmt.Sprint(n/3+2)
					default:
						line, want = P+" \"after a long comment\"; // "+strings.Repeat("c", n), "after a long comment"
					}
					src := P + " \"start\";\n" + line + "\n" + P + " 1 + 2;\n" + P + " \"end\";\n"
					cr := c.CLIScript(src, "", 60*time.Second)
					c.Ev.EnumCase("long-source-lines", true, func() string { return fmt.Sprintf("form %d, a line of about %d bytes", form, len(line)) }, "long-source-line")
					exp := "start\n" + want + "\n3\nend\n"
					if cr.Truncated {
						s.Harness("capture limit reached")
					}
					if cr.TimedOut || cr.Status != 0 || cr.Stdout != exp || cr.Stderr != "" {
						s.Violation(Replay{Check: "print", Sig: "long-source-line", Source: fmt.Sprintf("form %d n %d", form, n), Extra: map[string]string{"expr": "long-source-line"},
							Note:     fmt.Sprintf("a script whose second line is %d bytes long must print 4 lines (%d bytes) and exit 0", len(line), len(exp)),
							Observed: fmt.Sprintf("status=%d stdout %d bytes starting %q, stderr=%q", cr.Status, len(cr.Stdout), clip(cr.Stdout, 60), clip(cr.Stderr, 200))})
					}
				}
			}
		})
		// দেখাও at the interactive prompt is দেখাও: the same text, in NFC, newline-terminated, whether the statement
		// stands at the top level of the line, in a block, an arm, a loop or a function called from the line
		c.Sub("prints-at-the-prompt", func(s *Sub) {
			P := bn.KwPrint
			strs := []string{"plain", "\u09a1\u09bc", "\u09dc", "\u09af\u09bc\u09be", "\u09df", "\u0995\u09c7\u09be", "\u0995\u09cb", "e\u0301", "\u00e9", "a\u0323\u0302", "\u09a2\u09bc", "\u09dd", "\u0995\u09c7\u09d7"}
			var k int64
			for _, str := range strs {
				k++
				if !c.Mine(k) {
					continue
				}
				q := "\"" + str + "\""
				n := norm.NFC.String(str)
				type lw struct{ line, want string }
				cases := []lw{
					{P + " " + q + ";", n + "\n"},
					{P + " [" + q + "];", "[" + n + "]\n"},
					{P + " \"x\" + 1.5 + " + q + ";", norm.NFC.String("x1.5"+str) + "\n"},
					{bn.KwVar + " v = " + q + "; " + P + " v;", n + "\n"},
					{"{ " + P + " " + q + "; }", n + "\n"},
					{bn.KwIf + " (" + bn.KwTrue + ") " + P + " " + q + ";", n + "\n"},
					{bn.KwFor + " (" + bn.KwVar + " i = 0; i < 2; i = i + 1) " + P + " " + q + ";", n + "\n" + n + "\n"},
					{bn.KwFun + " show() { " + P + " " + q + "; } show();", n + "\nnil\n"},
					{P + " {k: " + q + "};", "map[k:" + n + "]\n"},
					{P + " 12.5;", "12.5\n"},
				}
				var lines []string
				for _, cs := range cases {
					lines = append(lines, cs.line)
				}
				parts, status, raw, ok := c.c20Session(lines, true)
				c.Ev.EnumCase("prints-at-the-prompt", true, func() string { return fmt.Sprintf("%q in %d forms", str, len(cases)) }, "prompt-print")
				bad := ""
				if !ok || status != 0 || len(parts) != len(lines)+2 {
					bad = fmt.Sprintf("a session of %d lines must show %d prompts and end with status 0 (status %d, %d prompts)", len(lines), len(lines)+1, status, len(parts)-1)
				} else {
					for i, cs := range cases {
						if parts[i+1] != cs.want {
							bad = fmt.Sprintf("the line %q answered %q (%+q) instead of %q (%+q)", cs.line, parts[i+1], parts[i+1], cs.want, cs.want)
							break
						}
					}
				}
				if bad != "" {
					s.Violation(Replay{Check: "print", Sig: "prompt-print", Source: strings.Join(lines, "\n"), Extra: map[string]string{"expr": "prompt-print"}, Note: bad, Observed: fmt.Sprintf("status=%d output=%+q", status, clip(raw, 500))})
				}
			}
			c.Ev.MarkExhaustive(fmt.Sprintf("%d strings (NFC-unstable spellings among them) x 10 statement forms at the prompt", len(strs)))
		})
		c.Sub("shared-containers", func(s *Sub) {
			if c.Shard != 0 {
				return
			}
			c.c15Shared(s)
		})
		c.Sub("bangla-decomposables", func(s *Sub) {
			if c.Shard != 0 {
				return
			}
			// every Bangla code point, alone, after a base letter, and the decomposed sequences that compose
			for r := rune(0x0980); r <= 0x09FF; r++ {
				for _, str := range []string{string(r), "ক" + string(r), string(r) + "ক", "a" + string(r) + "b"} {
					if strings.ContainsRune(str, '"') {
						continue
					}
					c.c15Value(s, "bangla-decomposables", c15Case{expr: "\"" + str + "\"", str: str}, true)
				}
			}
			for _, str := range []string{"ো", "কো", "কৌ", "ড়", "ঢ়", "য়", "নাহয়", "é", "é", "Å", "Å", "ক়্",
				"", " ", "  two  spaces ", "line1\nline2", "\n", "tab\there", "নাহয়", "থামো", "[x]", "{k: v}", "map[a:1]", "<nil>", "nil", "1e+06", "০১২"} {
				c.c15Value(s, "bangla-decomposables", c15Case{expr: "\"" + str + "\"", str: str}, true)
			}
			c.Ev.MarkExhaustive("every code point of the Bangla block alone, after and before a base letter and between Latin letters, plus composing sequences")
		})
		n := 2500
		if c.Thorough {
			n = 40000
		}
		c.Rapid("rand-numbers", n, func(rt *rapid.T, s *Sub) {
			var f float64
			switch rapid.IntRange(0, 4).Draw(rt, "k") {
			case 0:
				f = math.Float64frombits(rapid.Uint64Range(1, 0x7FEFFFFFFFFFFFFF).Draw(rt, "bits"))
			case 1:
				f = math.Float64frombits((uint64(rapid.IntRange(1023-70, 1023+80).Draw(rt, "exp")) << 52) | rapid.Uint64Range(0, 1<<52-1).Draw(rt, "mant"))
			case 2:
				f = float64(rapid.Int64Range(0, 1<<53).Draw(rt, "int"))
			case 3:
				f = float64(rapid.IntRange(0, 99999999).Draw(rt, "n")) / math.Pow(10, float64(rapid.IntRange(0, 12).Draw(rt, "d")))
			default:
				d := rapid.IntRange(15, 17).Draw(rt, "digits")
				t := ""
				for i := 0; i < d; i++ {
					t += fmt.Sprint(rapid.IntRange(0, 9).Draw(rt, "dg"))
				}
				f, _ = strconv.ParseFloat("0."+t, 64)
				f *= math.Pow(10, float64(rapid.IntRange(-5, 20).Draw(rt, "scale")))
			}
			if rapid.Bool().Draw(rt, "neg") {
				f = -f
			}
			if len(bn.NumText(math.Abs(f))) > 600 {
				return
			}
			c.c15Value(s, "rand-numbers", numCase(f), false)
		})
		c.Rapid("rand-strings", n, func(rt *rapid.T, s *Sub) {
			pieces := []string{"a", "Z", " ", "ক", "খ", "া", "ি", "ো", "ৌ", "ড়", "ঢ়", "য়", "ে", "া", "ৗ", "়", "য", "ড", "্", "\n", "e", "́", "̈", "ö", "1", "০", "[", "]", ":", ","}
			k := rapid.IntRange(0, 12).Draw(rt, "len")
			var b strings.Builder
			for i := 0; i < k; i++ {
				if rapid.IntRange(0, 9).Draw(rt, "any") == 0 {
					r := rapid.RuneFrom(nil, unicode.Bengali, unicode.Latin, unicode.Mn, unicode.Greek).Draw(rt, "rune")
					if r != '"' {
						b.WriteRune(r)
					}
					continue
				}
				b.WriteString(rapid.SampledFrom(pieces).Draw(rt, "p"))
			}
			str := b.String()
			c.c15Value(s, "rand-strings", c15Case{expr: "\"" + str + "\"", str: str}, false)
		})
	})
}

// c15Shared: the same container occurring several times inside one printed value must be shown in full each time.
func (c *Ctx) c15Shared(s *Sub) {
	P := bn.KwPrint
	for _, inner := range []string{"[1, 2]", "[\"ক\", \"খ\"]", "{m: 1}", "[[7]]", "[]", "{}", "[nil, " + bn.KwTrue + "]"} {
		src := bn.KwVar + " a = " + inner + ";\n" + P + " a;\n" + P + " [a];\n" + P + " [a, a];\n" + P + " [a, [a], a];\n" + P + " {p: a, q: a};\n" + P + " [{p: a}, {p: a}];\n" +
			bn.KwFun + " dup(x) { " + bn.KwReturn + " [x, x]; }\n" + P + " dup(a);\n" + P + " dup(dup(a));\n" + P + " [" + inner + ", " + inner + "];\n" + P + " \"end\";\n"
		r := c.RunB(src, "")
		c.Ev.Case("shared-containers", src, true, "container")
		ln := strings.Split(strings.TrimSuffix(r.Out, "\n"), "\n")
		bad := ""
		if r.Class() != "clean" || len(ln) != 10 || ln[9] != "end" {
			bad = "printing shared containers failed"
		} else {
			one := ln[0]
			// every occurrence of the container must be shown in full: the rendering of a appears as often as a occurs
			want := []int{1, 1, 2, 3, 2, 2, 2, 4, 2}
			for i, w := range want {
				if strings.Count(ln[i], one) < w {
					bad = fmt.Sprintf("line %d (%q) does not show all %d occurrences of %q", i+1, ln[i], w, one)
					break
				}
			}
			if bad == "" && strings.Count(ln[8], one) == 2 && ln[8] != ln[2] {
				bad = fmt.Sprintf("two equal literals print %q but the same array twice prints %q", ln[8], ln[2])
			}
		}
		if bad != "" {
			s.Violation(Replay{Check: "print", Sig: "shared-container", Source: src, Extra: map[string]string{"expr": "shared"}, Note: bad, Observed: r.Describe()})
		}
	}
}

func (c *Ctx) c15NumberPlusString(s *Sub) {
	P := bn.KwPrint
	nums := []string{"7", "0", "(-1.5)", "(10 ** 21)", "0.1", "((2 ** 1024) - (2 ** 1024))", "(2 ** 1024)", "(2 ** 53)", "(1 << 62)", "(-0)", "৩", "1000000", "0.000001", "(7 % 4)", "(1 << 3)"}
	strs := []string{"5", "x", "০", "4.0", "nan", " 1", "", "e3", ".5", "-2", "+3", "0x10", "1e2", "১২.৫", "Inf", bn.KwTrue, "nil", "0", "00", "5 ", "\\t5", "1_0", "٣"}
	var k int64
	for _, n := range nums {
		for _, t := range strs {
			k++
			if !c.Mine(k) {
				continue
			}
			q := "\"" + t + "\""
			src := P + " " + n + ";\n" + P + " " + q + ";\n" + P + " " + n + " + " + q + ";\n" + P + " " + q + " + " + n + ";\n" + P + " \"\" + " + n + " + " + q + ";\n" +
				P + " [" + n + " + " + q + ", " + q + " + " + n + "];\n" + P + " (" + n + " + " + q + ") == (\"\" + " + n + " + " + q + ");\n" + P + " \"end\";\n"
			r := c.RunB(src, "")
			c.Ev.EnumCase("numeric-looking-strings", true, func() string { return n + " + " + q }, "number-plus-string")
			ln := strings.Split(r.Out, "\n")
			bad := ""
			switch {
			case r.Class() != "clean" || len(ln) != 9 || ln[7] != "end":
				bad = "the program did not run to its end printing 8 lines"
			case ln[2] != ln[0]+ln[1]:
				bad = fmt.Sprintf("number + string printed %q; the number prints %q and the string %q", ln[2], ln[0], ln[1])
			case ln[3] != ln[1]+ln[0]:
				bad = fmt.Sprintf("string + number printed %q; the string prints %q and the number %q", ln[3], ln[1], ln[0])
			case ln[4] != ln[0]+ln[1]:
				bad = fmt.Sprintf("\"\" + number + string printed %q; the number prints %q and the string %q", ln[4], ln[0], ln[1])
			case ln[5] != "["+ln[0]+ln[1]+" "+ln[1]+ln[0]+"]":
				bad = fmt.Sprintf("inside an array the two splices print %q", ln[5])
			case ln[6] != "true":
				bad = "number + string is not equal to \"\" + number + string"
			}
			if bad != "" {
				s.Violation(Replay{Check: "print", Sig: "number-plus-string", Source: src, Extra: map[string]string{"expr": n + " + " + q}, Note: bad, Observed: r.Describe()})
			}
		}
	}
	c.Ev.MarkExhaustive(fmt.Sprintf("%d numbers x %d strings (digits in three scripts, signs, exponents, blanks, names of other values) spliced both ways", len(nums), len(strs)))
}

func (c *Ctx) c15EquivalentNames(s *Sub, check string) {
	P := bn.KwPrint
	pairs := [][2]string{{"আ\u09df", "আ\u09af\u09bc"}, {"ক\u09cb", "ক\u09c7\u09be"}, {"ক\u09cc", "ক\u09c7\u09d7"}, {"ব\u09dc", "ব\u09a1\u09bc"}, {"গ\u09dd", "গ\u09a2\u09bc"}, {"caf\u00e9", "cafe\u0301"}, {"\u00c5ngstrom", "A\u030angstrom"}, {"\u212bx", "\u00c5x"}, {"nan", "NaN"}, {"k1", "k\u09e7"}}
	var k int64
	for _, pr := range pairs {
		for form := 0; form < 4; form++ {
			k++
			if !c.Mine(k) {
				continue
			}
			a, b := pr[0], pr[1]
			var src string
			switch form {
			case 0:
				src = bn.KwVar + " o = {" + a + ": 1, " + b + ": 2, plain: 3};\n"
			case 1:
				src = bn.KwVar + " o = {plain: 3};\no." + b + " = 2;\no." + a + " = 1;\n"
			case 2:
				src = bn.KwVar + " o = {" + b + ": 2, plain: 3};\no." + a + " = 1;\n"
			default:
				src = bn.KwVar + " o = {" + a + ": 1, plain: 3, " + b + ": 9};\no." + b + " = 2;\n"
			}
			src += P + " o;\n" + P + " " + bn.BLen + "(" + bn.BKeys + "(o));\n" + P + " [o." + a + ", o." + b + ", o.plain];\n" + P + " [o];\n" + P + " \"end\";\n"
			r := c.RunB(src, "")
			c.Ev.EnumCase("equivalent-property-names", true, func() string { return fmt.Sprintf("%q / %q form %d", a, b, form) }, "equivalent-names")
			ln := strings.Split(r.Out, "\n")
			bad := ""
			switch {
			case r.Class() != "clean" || len(ln) != 6 || ln[4] != "end":
				bad = "the program did not run to its end printing 5 lines"
			case strings.Count(ln[0], ":") != 3:
				bad = fmt.Sprintf("the object has three properties, %q shows %d", ln[0], strings.Count(ln[0], ":"))
			case ln[1] != "3":
				bad = fmt.Sprintf("the object has three keys, the key listing has %s", ln[1])
			case ln[2] != "[1 2 3]":
				bad = fmt.Sprintf("the three properties hold 1, 2 and 3; read back: %s", ln[2])
			case ln[3] != "["+ln[0]+"]":
				bad = fmt.Sprintf("inside an array the object prints %q, alone %q", ln[3], ln[0])
			}
			if bad != "" {
				s.Violation(Replay{Check: check, Sig: "equivalent-names", Source: src, Extra: map[string]string{"expr": "equivalent-names"}, Note: bad, Observed: r.Describe()})
			}
		}
	}
	c.Ev.MarkExhaustive(fmt.Sprintf("%d pairs of names that are equivalent under some normalisation or case folding but differ in code points x 4 ways of giving both to one object", len(pairs)))
}
