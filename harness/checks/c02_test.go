package checks

import (
	"fmt"
	"math"
	"strconv"
	"strings"
	"testing"

	"pgregory.net/rapid"

	"verifharness/bn"
	"verifharness/model"
)

// C02 — operators compute the documented result for every operand combination.

type producer struct {
	text string
	kind string // value kind label
	nice bool   // small positive integer
}

var c02Prelude = bn.KwFun + " f() { " + bn.KwReturn + " 1; }\n" + bn.KwVar + " arr = [1, 2];\n" + bn.KwVar + " obj = {a: 1};\n" +
	// nil however it comes about: a bare return, a body that ends, a variable never given a value
	bn.KwFun + " bare() { " + bn.KwReturn + "; }\n" + bn.KwFun + " fell() { }\n" + bn.KwVar + " unset;\n" +
	// containers that contain themselves: operands like any other array or object (only printing them is an error)
	bn.KwVar + " cyc = [1, 2];\ncyc[0] = cyc;\n" + bn.KwVar + " cyo = {k: 1};\ncyo.me = cyo;\n"

var c02Producers = []producer{
	{"nil", "nil", false}, {"bare()", "nil", false}, {"fell()", "nil", false}, {"unset", "nil", false}, {bn.KwTrue, "bool", false}, {bn.KwFalse, "bool", false},
	{"0", "number", false}, {"(-0)", "number", false}, {"1", "number", true}, {"(-1)", "number", false}, {"2", "number", true}, {"3", "number", true},
	{"0.5", "number", false}, {"2.5", "number", false}, {"(-2.5)", "number", false}, {"63", "number", true}, {"64", "number", true}, {"65", "number", true},
	{"2147483648", "number", false}, {"9007199254740992", "number", false}, {"9007199254740994", "number", false},
	{"9223372036854775808", "number", false}, {"(-9223372036854775808)", "number", false}, {"(2 ** 63)", "number", false},
	{"1" + strings.Repeat("0", 308), "number", false}, {"(2 ** 1024)", "number", false}, {"(-(2 ** 1024))", "number", false}, {"((2 ** 1024) - (2 ** 1024))", "number", false},
	{"0.000001", "number", false}, {"123456.789", "number", false}, {"১২", "number", true},
	{"(3 | 0)", "int", true}, {"(1 << 62)", "int", false}, {"((1 << 62) | 1)", "int", false}, {"(~0)", "int", false}, {"(1 << 63)", "int", false}, {"(~(1 << 62))", "int", false}, {"(~9007199254740992)", "int", false},
	{"\"\"", "string", false}, {"\"a\"", "string", false}, {"\"ab c\"", "string", false}, {"\"12\"", "string", false}, {"\"১২\"", "string", false}, {"\"1.5\"", "string", false}, {"(\"a\" + \"\")", "string", false},
	{"[]", "array", false}, {"[1]", "array", false}, {"arr", "array", false},
	{"{}", "object", false}, {"{a: 1}", "object", false}, {"obj", "object", false},
	{"cyc", "array", false}, {"cyo", "object", false},
	{"f", "function", false}, {bn.BLen, "builtin", false},
}

func c02Labels(res *model.Result) []string {
	l := []string{"outcome-" + res.Outcome.String()}
	if res.Outcome == model.RuntimeError {
		l = append(l, "error-"+res.ErrKind)
	}
	return l
}

func (c *Ctx) c02Program(s *Sub, sub, src string, nt bool, enum bool, extra ...string) {
	mc := c.runModelCase(s, src, "", model.Options{}, judgeOpts{checkLine: true})
	labels := append(c02Labels(mc.Res), extra...)
	if enum {
		c.Ev.EnumCase(sub, nt || mc.Res.Outcome != model.OK, func() string { return src }, labels...)
	} else {
		c.Ev.Case(sub, src, nt || mc.Res.Outcome != model.OK, labels...)
	}
	if mc.Sig != "" {
		s.Violation(mc.replay("op"))
	}
}

func doubleLit(rt *rapid.T) string {
	switch rapid.IntRange(0, 3).Draw(rt, "dk") {
	case 0:
		return strconv.Itoa(rapid.IntRange(0, 1000).Draw(rt, "i"))
	case 1:
		f := float64(rapid.IntRange(0, 100000).Draw(rt, "n")) / float64(rapid.SampledFrom([]int{2, 4, 8, 10, 100, 1000}).Draw(rt, "d"))
		return bn.NumText(f)
	case 2:
		bits := rapid.Uint64Range(0x3F00000000000000, 0x4400000000000000).Draw(rt, "bits")
		return bn.NumText(math.Float64frombits(bits))
	default:
		bits := rapid.Uint64Range(1, 0x7FEFFFFFFFFFFFFF).Draw(rt, "bits")
		t := bn.NumText(math.Float64frombits(bits))
		if len(t) > 400 {
			t = t[:400]
		}
		return t
	}
}

func c02Expr(rt *rapid.T, depth int) string {
	if depth <= 0 || rapid.IntRange(0, 3).Draw(rt, "leaf") == 0 {
		if rapid.Bool().Draw(rt, "pool") {
			return rapid.SampledFrom(c02Producers).Draw(rt, "p").text
		}
		return doubleLit(rt)
	}
	if rapid.IntRange(0, 5).Draw(rt, "un") == 0 {
		return "(" + rapid.SampledFrom(bn.UnOps).Draw(rt, "uop") + c02Expr(rt, depth-1) + ")"
	}
	op := rapid.SampledFrom(bn.BinOpList).Draw(rt, "op")
	return "(" + c02Expr(rt, depth-1) + " " + op + " " + c02Expr(rt, depth-1) + ")"
}

func TestC02(t *testing.T) {
	Main(t, "C02", func(c *Ctx) {
		c.OnReplay("op", func(s *Sub, rp *Replay) { c.c02Program(s, "replay", rp.Source, true, false) })
		c.ReplayTier()

		c.Sub("matrix-binary", func(s *Sub) {
			var k int64
			for _, op := range bn.BinOpList {
				for _, l := range c02Producers {
					for _, r := range c02Producers {
						k++
						if !c.Mine(k) {
							continue
						}
						// the power -1 shows which zero a zero result is (the sign of a printed zero is not asserted; 1 / 0 is an error)
						src := c02Prelude + bn.KwPrint + " " + l.text + " " + op + " " + r.text + ";\n" + bn.KwPrint + " (" + l.text + " " + op + " " + r.text + ") ** -1;\n"
						c.c02Program(s, "matrix-binary", src, !(l.nice && r.nice), true, "op "+op, l.kind+" x "+r.kind)
					}
				}
			}
			c.Ev.MarkExhaustive(fmt.Sprintf("every binary operator (%d) x every ordered pair of %d operand producers", len(bn.BinOpList), len(c02Producers)))
		})
		// "+" with a string splices the number exactly as দেখাও prints it, on either side and between two
		// strings (model-free: the program's own first line is the reference)
		// ** where the result is tiny, huge or exactly at the edge of the representable: negative whole exponents whose
		// positive power would overflow, results among the subnormals, signs of zero and of infinity
		c.Sub("power-boundaries", func(s *Sub) {
			var k int64
			bases := []string{"2", "(-2)", "10", "1.5", "(-3)", "0.5", "(-0.5)", "7", "(-0)", "0", "1", "(-1)", "(2 ** 512)", "(10 ** 200)", "1.0000000000000002"}
			exps := []string{"(-1030)", "(-1074)", "(-1075)", "(-1022)", "(-1023)", "(-320)", "(-323)", "(-324)", "(-400)", "(-1800)", "(-650)", "(-1)", "(-2)", "(-3)", "1023", "1024", "1074", "308", "309", "2", "3", "0", "(-0)"}
			for _, b := range bases {
				for _, e := range exps {
					k++
					if c.Mine(k) {
						c.c02Program(s, "power-boundaries", c02Prelude+bn.KwPrint+" "+b+" ** "+e+";\n"+bn.KwPrint+" ("+b+" ** "+e+") == 0;\n"+bn.KwPrint+" ("+b+" ** "+e+") ** -1;\n", true, true, "op **", "power-boundary")
					}
				}
			}
			c.Ev.MarkExhaustive(fmt.Sprintf("%d bases x %d whole exponents around the overflow, underflow and subnormal thresholds", len(bases), len(exps)))
		})
		c.Sub("concat-renders-as-print", func(s *Sub) {
			if c.Shard != 0 {
				return
			}
			P := bn.KwPrint
			extra := []producer{{"(~(1 << 62))", "int", false}, {"(~(1 << 63))", "int", false}, {"((1 << 53) | 1)", "int", false}, {"(1 << 64)", "int", false}, {"(0 - (1 << 62) | 1)", "int", false},
				{"1000000", "number", false}, {"999999", "number", false}, {"1e21", "number", false}, {"(1 / 3)", "number", false}, {"(10 ** 21)", "number", false}, {"(10 ** -7)", "number", false}}
			for _, p := range append(append([]producer{}, c02Producers...), extra...) {
				if p.kind != "number" && p.kind != "int" {
					continue
				}
				if strings.Contains(p.text, "e2") {
					continue // exponent notation is not a literal form of the language
				}
				src := c02Prelude + P + " " + p.text + ";\n" + P + " " + p.text + " + \"\";\n" + P + " \"\" + " + p.text + ";\n" + P + " " + p.text + " + \"|\";\n" + P + " \"|\" + " + p.text + ";\n" +
					P + " \"<\" + " + p.text + " + \">\";\n" + bn.KwVar + " held = " + p.text + ";\n" + P + " held + \"|\";\n" + P + " \"|\" + held;\n" + P + " [held + \"|\", \"|\" + held][0];\n"
				r := c.RunB(src, "")
				c.Ev.EnumCase("concat-renders-as-print", true, func() string { return src }, "kind-"+p.kind)
				ln := strings.Split(strings.TrimSuffix(r.Out, "\n"), "\n")
				bad := ""
				if r.Class() != "clean" || len(ln) != 9 {
					bad = "the program must print nine lines and end normally"
				} else {
					v := ln[0]
					want := []string{v, v, v, v + "|", "|" + v, "<" + v + ">", v + "|", "|" + v, v + "|"}
					for i := range want {
						if ln[i] != want[i] {
							bad = fmt.Sprintf("line %d is %q, expected %q (the number prints as %q)", i+1, ln[i], want[i], v)
							break
						}
					}
				}
				if bad != "" {
					s.Violation(Replay{Check: "concat", Sig: "concat-" + p.kind, Source: src, Note: bad, Observed: r.Describe()})
				}
			}
			c.Ev.MarkExhaustive("every numeric operand producer x eight concatenation forms against the number's own printed form")
		})
		// short decimals: the operands people write.  Every ordered pair of 40 one- and two-decimal numbers
		// (and a few integers) under the arithmetic and comparison operators, against the exact reference
		// (% and / by exact rational arithmetic, then rounded once)
		c.Sub("decimal-pairs", func(s *Sub) {
			var k int64
			vals := []string{"0.1", "0.2", "0.3", "0.4", "0.5", "0.6", "0.7", "0.8", "0.9", "1.1", "1.5", "1.74", "2.5", "3.3", "7.7", "9.9", "10.1", "79.2", "67.86", "0.01", "0.05", "0.25", "0.75", "99.99", "100.1", "0.001",
				"1", "2", "3", "7", "10", "100", "1000", "(-0.1)", "(-0.7)", "(-1.74)", "(-67.86)", "(-3)", "(-10)", "1e0"}
			vals = vals[:len(vals)-1]
			ops := []string{"%", "/", "*", "+", "-", "<", "<=", "==", "**"}
			for _, op := range ops {
				for _, l := range vals {
					k++
					if !c.Mine(k) {
						continue
					}
					var b strings.Builder
					b.WriteString(c02Prelude)
					for _, r := range vals {
						b.WriteString(bn.KwPrint + " " + l + " " + op + " " + r + ";\n")
					}
					c.c02Program(s, "decimal-pairs", b.String(), true, true, "op "+op, "decimal-pairs")
				}
			}
			c.Ev.MarkExhaustive("every ordered pair of 39 short decimals and small integers under % / * + - < <= == **")
		})
		c.Sub("matrix-unary", func(s *Sub) {
			if c.Shard != 0 {
				return
			}
			ops := append([]string{}, bn.UnOps...)
			for _, a := range bn.UnOps {
				for _, b2 := range bn.UnOps {
					ops = append(ops, a+" "+b2, a+b2)
				}
			}
			ops = append(ops, "- - -", "~~~", "!!!", "-(-", "~(~")
			for _, op := range ops {
				for _, r := range c02Producers {
					closeP := strings.Repeat(")", strings.Count(op, "("))
					src := c02Prelude + bn.KwPrint + " " + op + r.text + closeP + ";\n"
					c.c02Program(s, "matrix-unary", src, !r.nice, true, "op unary"+op, r.kind)
					src2 := c02Prelude + bn.KwPrint + " " + op + r.text + closeP + " + 1;\n"
					c.c02Program(s, "matrix-unary", src2, true, true, "op unary"+op, r.kind)
				}
			}
			c.Ev.MarkExhaustive(fmt.Sprintf("every unary operator, every pair of unary operators (adjacent and spaced) and some triples x every one of %d operand producers", len(c02Producers)))
		})
		c.Sub("self-update-shapes", func(s *Sub) {
			// the same operators in the statement shapes `v = v op k`, `v = k op v`, updates of elements and properties,
			// inside loops and functions: an operator must compute the same result wherever it stands
			var k int64
			shapes := []string{
				bn.KwVar + " v = %[1]s;\nv = v %[2]s %[3]s;\n" + bn.KwPrint + " v;\n",
				bn.KwVar + " v = %[1]s;\nv = %[3]s %[2]s v;\n" + bn.KwPrint + " v;\n",
				bn.KwVar + " v = %[1]s;\n" + bn.KwFor + " (" + bn.KwVar + " i = 0; i < 2; i = i + 1) v = v %[2]s %[3]s;\n" + bn.KwPrint + " v;\n",
				bn.KwVar + " box = [%[1]s];\nbox[0] = box[0] %[2]s %[3]s;\n" + bn.KwPrint + " box[0];\n",
				bn.KwVar + " rec = {p: %[1]s};\nrec.p = rec.p %[2]s %[3]s;\n" + bn.KwPrint + " rec.p;\n",
				bn.KwFun + " step(v) { v = v %[2]s %[3]s; " + bn.KwReturn + " v; }\n" + bn.KwPrint + " step(%[1]s);\n",
			}
			ks := []string{"1", "0", "2", "\"1\"", "0.5"}
			for _, op := range bn.BinOpList {
				for _, p := range c02Producers {
					for si, sh := range shapes {
						for _, kv := range ks {
							k++
							if !c.Mine(k) || (!c.Thorough && (int(k)+si)%3 != 0) {
								continue
							}
							src := c02Prelude + fmt.Sprintf(sh, p.text, op, kv)
							c.c02Program(s, "self-update-shapes", src, true, true, "self-update")
						}
					}
				}
			}
		})
		c.Sub("equality-laws", func(s *Sub) {
			var k int64
			for i, l := range c02Producers {
				for j, r := range c02Producers {
					k++
					if !c.Mine(k) || j < i {
						continue
					}
					p := bn.KwPrint + " "
					src := c02Prelude + bn.KwVar + " l = " + l.text + ";\n" + bn.KwVar + " r = " + r.text + ";\n" +
						p + "l == r;\n" + p + "r == l;\n" + p + "l != r;\n" + p + "r != l;\n" + p + "l == l;\n" + p + "r == r;\n" + p + "!(l != l);\n"
					mc := c.runModelCase(s, src, "", model.Options{}, judgeOpts{})
					c.Ev.EnumCase("equality-laws", true, func() string { return src }, "eq "+l.kind+" x "+r.kind)
					if mc.Sig != "" {
						s.Violation(mc.replay("op"))
					}
					// relational laws, independent of the model
					if mc.Resp.Class() == "clean" {
						ln := strings.Split(strings.TrimSuffix(mc.Resp.Out, "\n"), "\n")
						if len(ln) == 7 {
							law := ""
							switch {
							case ln[0] != ln[1] || ln[2] != ln[3]:
								law = "symmetry"
							case ln[0] == ln[2]:
								law = "!= is not the negation of =="
							case ln[6] != ln[4]:
								law = "l != l is not the negation of l == l"
							}
							if law != "" {
								s.Violation(Replay{Check: "op", Sig: "eq-law", Source: src, Note: "equality law violated: " + law, Observed: mc.Resp.Out})
							}
						}
					}
				}
			}
			c.Ev.MarkExhaustive("equality laws on every unordered pair of operand producers")
		})
		// reflexivity on every function value: each of the 17 built-ins and user functions, compared with
		// itself directly and through every way of holding a value (model-free)
		c.Sub("function-value-reflexivity", func(s *Sub) {
			if c.Shard != 0 {
				return
			}
			p := bn.KwPrint + " "
			vals := append(append([]string{}, bn.Builtins...), "f", "same", "mk()", "mk")
			for _, b := range vals {
				src := c02Prelude + bn.KwFun + " same(q) { " + bn.KwReturn + " q; }\n" + bn.KwFun + " mk() { " + bn.KwFun + " inner() { } " + bn.KwReturn + " inner; }\n" +
					bn.KwVar + " h = " + b + ";\n" + bn.KwVar + " h2 = h;\n" +
					p + "h == h;\n" + p + "h != h;\n" + p + "h == h2;\n" + p + "h2 == h;\n" + p + "[h][0] == h;\n" + p + "({m: h}).m == h;\n" + p + "same(h) == h;\n" + p + "h == same(h);\n" + p + "!(h != h2);\n"
				if !strings.Contains(b, "(") {
					src += p + b + " == " + b + ";\n" + p + b + " != " + b + ";\n" + p + "h == " + b + ";\n"
				}
				r := c.RunB(src, "")
				c.Ev.EnumCase("function-value-reflexivity", true, func() string { return src }, "function-value")
				want := "true\nfalse\ntrue\ntrue\ntrue\ntrue\ntrue\ntrue\ntrue\n"
				if !strings.Contains(b, "(") {
					want += "true\nfalse\ntrue\n"
				}
				if r.Class() != "clean" || r.Out != want {
					s.Violation(Replay{Check: "reflexivity", Sig: "function-equality", Source: src, Note: "== must be reflexive on the function value " + b + " however it is held", Expected: want, Observed: r.Describe()})
				}
			}
			c.Ev.MarkExhaustive("17 built-ins and 4 user function values x 12 self-comparisons")
		})
		n := 2500
		if c.Thorough {
			n = 25000
		}
		c.Rapid("rand-expr", n, func(rt *rapid.T, s *Sub) {
			e := c02Expr(rt, rapid.IntRange(1, 5).Draw(rt, "depth"))
			src := c02Prelude + bn.KwPrint + " " + e + ";\n"
			if rapid.Bool().Draw(rt, "reciprocal") {
				src += bn.KwPrint + " (" + e + ") ** -1;\n"
			}
			c.c02Program(s, "rand-expr", place(src, drawPlacement(rt)), true, false)
		})
	})
}
