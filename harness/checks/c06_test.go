package checks

import (
	"fmt"
	"strings"
	"testing"
	"time"

	"pgregory.net/rapid"

	"verifharness/bn"
	"verifharness/model"
	"verifharness/reflex"
	"verifharness/run"
)

// C06 — a runtime error stops the program: true cause, right line, nothing
// afterwards.

const c06Prelude = `ধরি arr = [1, 2];
ধরি obj = {a: 1};
ধরি d = 1;
ধরি x = 0;
ফাংশন f1(p) { ফেরত p; }
ফাংশন pr(tag, v) { দেখাও tag; ফেরত v; }
দেখাও "before";
`

// c06PreludeML: the same prelude with a multi-line string literal and a multi-line comment in front, so that the
// line of the fault is not the number of statements before it
const c06PreludeML = "ধরি msg = \"\";\nmsg = \"line one\nline two\nline three\";\n/* a comment\n   over three\n   lines */\nদেখাও msg;\n" + c06Prelude

const c06Tail = `দেখাও "AFTER";
ধরি inp = ইনপুট("PROMPT");
দেখাও inp;
ফর (ধরি q = 0; q < 2; q = q + 1) { দেখাও "loop-after"; }
`

type c06Fault struct {
	kind string
	expr string // a faulting expression (all tokens on one line)
}

var c06Faults = []c06Fault{
	{"undefined", "zz"}, {"undefined", "zz = 1"}, {"undefined", "zz + 1"}, {"undefined", "zz = \"PROMPT\""}, {"undefined", "zq = [1, 2]"}, {"undefined", "zq = f1"},
	{"type", "1 - nil"}, {"type", "-\"x\""}, {"type", "~0.5"}, {"type", "nil < 1"}, {"type", bn.KwTrue + " + 1"}, {"type", "[1] * 2"},
	{"shift", "1 << (0 - 1)"}, {"shift", "1 >> (~(1 << 62))"}, {"shift", "((1 << 62) | 1) << (~(1 << 62))"}, {"shift", "((1 << 62) | 1) >> (~9007199254740992)"},
	{"zero", "1 / 0"}, {"zero", "5 % 0"}, {"zero", "1 / (010 - 10)"}, {"zero", "5 % (০০৮ - ৮)"}, {"index", "arr[0010 - 8]"}, // literals with leading zeros are decimal
	{"index", "arr[5]"}, {"index", "arr[0 - 1]"}, {"index", "arr[0.5]"}, {"index", "arr[5] = 1"}, {"index", "nil[0]"}, {"index", "arr[nil]"}, {"index", "d[0] = 1"},
	{"property", "obj.nope"}, {"property", "d.a"}, {"property", "d.a = 1"},
	{"callable", "5()"}, {"callable", "arr()"}, {"callable", "obj.a()"},
	{"arity", "f1()"}, {"arity", "f1(1, 2)"},
	{"builtin", bn.BLen + "(5)"}, {"builtin", bn.BRemove + "(arr, 9)"}, {"builtin", bn.BMin + "()"}, {"builtin", bn.BMin + "([])"}, {"builtin", bn.BMax + "([])"}, {"builtin", bn.BMax + "(" + bn.BRemove + "([1], 0))"}, {"builtin", bn.BDelKey + "(obj, \"nope\")"},
	// a failing base under a chain of further accesses / calls
	{"index", "arr[5][0][1]"}, {"property", "obj.nope.a.b"}, {"callable", "5()()()"}, {"index", "arr[5].a[0]"}, {"undefined", "zz[0][1]"}, {"undefined", "zz.a.b"}, {"undefined", "zz()()"},
	{"builtin", bn.BInput + "(5)"}, {"builtin", bn.BAbs + "(nil)"}, {"builtin", bn.BLen + "()"}, {"builtin", bn.BPush + "(arr)"}, {"builtin", bn.BKeys + "(arr)"},
}

// c06Positions: each has one %s for the faulting expression.
var c06Positions = []struct{ name, text string }{
	{"top-exprstmt", "%s;\n"},
	{"top-print", "দেখাও %s;\n"},
	{"top-var-init", "ধরি nv = %s;\n"},
	{"top-assign", "x = %s;\n"},
	{"nested-block", "{\n  {\n    %s;\n  }\n  দেখাও \"in-block-after\";\n}\n"},
	{"if-arm", "যদি (1) {\n  %s;\n  দেখাও \"in-if-after\";\n}\n"},
	{"else-arm", "যদি (0) {\n  দেখাও \"no\";\n} নাহয় {\n  %s;\n}\n"},
	{"if-arm-unbraced", "যদি (1)\n  %s;\nনাহয়\n  ইনপুট(\"PROMPT\");\n"},
	{"if-condition", "যদি (%s) {\n  দেখাও \"then\";\n} নাহয় {\n  দেখাও \"else\";\n  ইনপুট(\"PROMPT\");\n}\n"},
	{"if-condition-no-else", "যদি (%s)\n  দেখাও \"then\";\n"},
	{"while-condition", "যতক্ষণ (%s) {\n  দেখাও \"body\";\n  x = x + 1;\n}\n"},
	{"for-condition", "ফর (ধরি i = 0; %s; i = i + 1) {\n  দেখাও \"body\";\n}\n"},
	{"for-initialiser", "ফর (ধরি i = %s; i < 2; i = i + 1) {\n  দেখাও \"body\";\n}\n"},
	{"for-initialiser-expr", "ফর (%s; x < 2; x = x + 1) {\n  দেখাও \"body\";\n}\n"},
	{"for-increment", "ফর (ধরি i = 0; i < 3; i = %s) {\n  দেখাও \"body\";\n}\n"},
	{"while-body", "যতক্ষণ (x < 3) {\n  x = x + 1;\n  দেখাও \"iter\";\n  %s;\n  দেখাও \"in-body-after\";\n}\n"},
	{"while-true-body", "যতক্ষণ (সত্য) {\n  %s;\n  দেখাও \"in-body-after\";\n}\n"},
	{"while-true-body-unbraced", "যতক্ষণ (সত্য)\n  %s;\n"},
	{"for-body", "ফর (ধরি i = 0; i < 3; i = i + 1) {\n  দেখাও i;\n  %s;\n  দেখাও \"in-body-after\";\n}\n"},
	{"for-ever-body", "ফর (;;) {\n  %s;\n  দেখাও \"in-body-after\";\n}\n"},
	{"nested-loops-body", "ফর (ধরি i = 0; i < 2; i = i + 1) {\n  যতক্ষণ (সত্য) {\n    যদি (i == 0) {\n      %s;\n    }\n    দেখাও \"in-inner-after\";\n  }\n}\n"},
	{"function-body", "ফাংশন g() {\n  দেখাও \"in-g\";\n  %s;\n  দেখাও \"in-g-after\";\n  ইনপুট(\"PROMPT\");\n  ফেরত 1;\n}\ng();\n"},
	{"function-body-in-expr", "ফাংশন g() {\n  %s;\n  ফেরত 1;\n}\nদেখাও 1 + g() + pr(\"later-operand\", 1);\n"},
	{"function-return-value", "ফাংশন g() {\n  ফেরত %s;\n}\nদেখাও g();\n"},
	{"nested-call", "ফাংশন g() {\n  %s;\n  দেখাও \"in-g-after\";\n}\nফাংশন h() {\n  g();\n  দেখাও \"in-h-after\";\n  ইনপুট(\"PROMPT\");\n}\nh();\n"},
	{"call-in-loop", "ফাংশন g(n) {\n  যদি (n == 1) {\n    %s;\n  }\n  দেখাও n;\n}\nফর (ধরি i = 0; i < 3; i = i + 1) {\n  g(i);\n}\n"},
	{"function-loop-body", "ফাংশন g() {\n  যতক্ষণ (সত্য) {\n    %s;\n  }\n}\ng();\n"},
	{"argument", "দেখাও f1(%s);\n"},
	{"argument-second", "দেখাও pr(\"tagged\", %s);\n"},
	{"argument-before-input", "দেখাও [%s, ইনপুট(\"PROMPT\")];\n"},
	{"input-prompt-argument", "ধরি got = ইনপুট(%s);\nদেখাও got;\n"},
	{"builtin-argument", "দেখাও লেন(%s);\n"},
	{"builtin-second-argument", "দেখাও এড(arr, %s);\n"},
	{"called-value-argument", "দেখাও (%s)(\"PROMPT\");\n"},
	{"array-element", "x = [1, %s, pr(\"later-element\", 3)];\n"},
	{"object-value", "x = {k: %s};\n"},
	{"operand-left", "দেখাও (%s) + pr(\"right-operand\", 1);\n"},
	{"operand-right", "দেখাও 1 + (%s);\n"},
	{"operand-unary", "দেখাও !(%s);\n"},
	{"operand-compare", "দেখাও (%s) == 1;\n"},
	{"logical-right-or", "দেখাও 0 বা (%s);\n"},
	{"logical-right-and", "দেখাও 1 এবং (%s);\n"},
	{"logical-left", "দেখাও (%s) বা pr(\"right\", 1);\n"},
	{"index-expression", "দেখাও arr[%s];\n"},
	{"index-store-value", "arr[0] = %s;\n"},
	{"property-store-value", "obj.a = %s;\n"},
	{"callee", "দেখাও (%s)(1);\n"},
	{"closure-in-array-called-later", "ধরি fs = [];\nফর (ধরি i = 0; i < 3; i = i + 1) {\n  ফাংশন mkf() {\n    দেখাও \"in-closure\";\n    %s;\n    দেখাও \"in-closure-after\";\n  }\n  fs = এড(fs, mkf);\n}\nদেখাও \"made\";\nfs[1]();\nfs[2]();\n"},
	{"method-in-object", "ধরি holder = {m: f1, n: 0};\nফাংশন meth(self) {\n  self.n = self.n + 1;\n  %s;\n  self.n = self.n + 100;\n}\nholder.m = meth;\nholder.m(holder);\nদেখাও holder.n;\n"},
	{"recursion-depth-3", "ফাংশন rec(n) {\n  দেখাও n;\n  যদি (n == 3) {\n    %s;\n  }\n  যদি (n < 5) rec(n + 1);\n  দেখাও \"unwinding\";\n}\nrec(0);\n"},
	{"second-call-of-function", "ফাংশন twice(k) {\n  দেখাও k;\n  যদি (k == 2) {\n    %s;\n  }\n  ফেরত k;\n}\ntwice(1);\ntwice(2);\ntwice(3);\n"},
	{"argument-of-recursive-call", "ফাংশন sum2(a, b) {\n  যদি (a == 0) ফেরত b;\n  ফেরত sum2(a - 1, b + a);\n}\nদেখাও sum2(3, %s);\n"},
	{"element-of-nested-literal", "x = {p: [1, {q: %s}], r: pr(\"later-property\", 2)};\n"},
	{"loop-in-function-in-loop", "ফাংশন inner(n) {\n  ফর (ধরি j = 0; j < 3; j = j + 1) {\n    যদি (n == 1 এবং j == 1) {\n      %s;\n    }\n    দেখাও j;\n  }\n}\nযতক্ষণ (x < 3) {\n  inner(x);\n  x = x + 1;\n}\n"},
	{"return-in-loop-in-function", "ফাংশন g() {\n  ফর (ধরি i = 0; i < 3; i = i + 1) {\n    যদি (i == 1) ফেরত %s;\n  }\n  ফেরত 0;\n}\nদেখাও g();\n"},
}

// statement-level faults (redeclaration, stray control) with their own positions
var c06StmtFaults = []struct{ kind, stmt string }{
	{"redeclare", "ধরি d = 2;"}, {"redeclare", "ধরি un; ধরি un = 5;"}, {"redeclare", "ধরি un = nil; ধরি un;"}, {"redeclare", "ধরি un; un = nil; ধরি un = 1;"}, {"redeclare", "ধরি un = 0; ধরি un;"}, {"redeclare", "ধরি un = \"\"; ধরি un = 2;"}, {"redeclare", "ধরি un = মিথ্যা, un = 3;"}, {"redeclare", "ধরি nn = 1, nn = 2;"}, {"redeclare", "ধরি arr;"},
	{"scope-exit", "{ ফাংশন hlp() { দেখাও \"h\"; } hlp(); } hlp();"}, {"scope-exit", "যদি (1) { ফাংশন hlp() { ফেরত 1; } দেখাও hlp(); } দেখাও hlp();"}, {"scope-exit", "{ ধরি lv = 1; দেখাও lv; } দেখাও lv;"},
	{"scope-exit", "ফর (ধরি li = 0; li < 1; li = li + 1) { দেখাও li; } দেখাও li;"}, {"scope-exit", "ফর (ধরি li = 0, lj = 5; li < 1; li = li + 1) { } lj = 1;"}, {"scope-exit", "{ ধরি lv = 1, lw = 2; } দেখাও lw;"}, {"scope-exit", "ফাংশন outerf(pv) { ফাংশন innerf() { ফেরত pv; } ফেরত innerf(); } দেখাও outerf(3); innerf();"},
	{"scope-exit", "ফাংশন pf(pv) { ফেরত pv; } দেখাও pf(2); দেখাও pv;"}, {"scope-exit", "যতক্ষণ (x < 1) { x = x + 1; ফাংশন wf() { } } wf();"},
	// names an activation already holds: its parameters live in the scope of the body (what a declaration named like the
	// function itself, or a second function declaration of one name, does is undocumented and left out)
	{"redeclare", "ফাংশন rp(par) { দেখাও \"in-rp\"; ধরি par = par + 1; দেখাও par; } rp(1);"}, {"redeclare", "ফাংশন rq(pa, pb) { ধরি pb; } rq(1, 2);"},
	{"redeclare", "ফাংশন ro(pv) { ফাংশন ri(pv) { ধরি pv = 2; দেখাও pv; } ri(1); দেখাও \"ro-after\"; } ro(0);"},
	{"stray", "থামো;"}, {"stray", "চালিয়ে_যাও;"}, {"stray", "ফেরত 5;"},
}
var c06StmtPositions = []struct{ name, text string }{
	{"top", "%s\n"},
	{"block", "{\n  দেখাও \"in\";\n  %s\n  দেখাও \"in-after\";\n}\n"},
	{"if-arm", "যদি (1) {\n  %s\n}\n"},
	{"else-arm", "যদি (0) x = 1; নাহয় {\n  %s\n}\n"},
}

// faults while another construct is half-finished
func init() {
	P, F, R, V := bn.KwPrint, bn.KwFun, bn.KwReturn, bn.KwVar
	type pos = struct{ name, text string }
	c06Positions = append(c06Positions,
		pos{"for-increment-after-closures", V + " keepf = [];\n" + bn.KwFor + " (" + V + " i = 0; i < 3; i = i + (%s)) {\n  " + F + " cl() { " + R + " i; }\n  keepf = " + bn.BPush + "(keepf, cl);\n  " + P + " \"body\";\n}\n" + P + " \"after-loop\";\n"},
		pos{"third-argument-after-effects", F + " three(a, b, c) { " + P + " \"in-three\"; }\nthree(pr(\"arg1\", 1), x = x + 1, %s);\n" + P + " x;\n"},
		pos{"call-inside-initialiser", F + " bad() {\n  " + P + " \"in-bad\";\n  " + R + " %s;\n}\n" + V + " lit = {a: pr(\"init-a\", 1), b: bad(), c: pr(\"init-c\", 3)};\n" + P + " lit;\n"},
		pos{"element-of-argument-literal", P + " " + bn.BLen + "([pr(\"e1\", 1), %s, pr(\"e3\", 3)]);\n"},
		pos{"condition-of-inner-loop-in-function", F + " runl() {\n  " + bn.KwWhile + " (x < 5) {\n    x = x + 1;\n    " + bn.KwFor + " (; %s; ) {\n      " + P + " \"inner\";\n    }\n  }\n}\nrunl();\n"},
		pos{"right-operand-of-assignment-chain", V + " c1 = 0;\n" + V + " c2 = 0;\nc1 = c2 = x = %s;\n" + P + " c1;\n"},
		pos{"key-argument-of-delete", bn.BDelKey + "(obj, %s);\n" + P + " obj;\n"},
		pos{"prompt-of-input", P + " " + bn.BInput + "(%s);\n"},
	)
}

// statement faults inside function bodies: a stray break/continue there is as stray as at top level
// (no loop of the activation encloses it), whether or not the caller sits in a loop
func init() {
	P, F, I, W := bn.KwPrint, bn.KwFun, bn.KwIf, bn.KwWhile
	c06StmtPositions = append(c06StmtPositions,
		struct{ name, text string }{"function-body", F + " sg() {\n  " + P + " \"in-sg\";\n  %s\n  " + P + " \"in-sg-after\";\n}\nsg();\n"},
		struct{ name, text string }{"function-body-if-arm", F + " sg(n) {\n  " + I + " (n == 1) {\n    %s\n  }\n  " + P + " n;\n}\nsg(0);\nsg(1);\n"},
		struct{ name, text string }{"function-called-in-loop", F + " sg() {\n  %s\n}\n" + W + " (x < 2) {\n  x = x + 1;\n  sg();\n  " + P + " \"iter\";\n}\n"},
		struct{ name, text string }{"while-body", W + " (x < 3) {\n  x = x + 1;\n  " + P + " \"iter\";\n  %s\n  " + P + " \"iter-after\";\n}\n"},
		struct{ name, text string }{"for-body", bn.KwFor + " (" + bn.KwVar + " i = 0; i < 3; i = i + 1) {\n  " + P + " i;\n  %s\n}\n"},
		struct{ name, text string }{"if-in-while-body", W + " (x < 3) {\n  x = x + 1;\n  " + I + " (x == 2) {\n    %s\n  }\n  " + P + " x;\n}\n"},
		struct{ name, text string }{"loop-in-function", F + " sg() {\n  " + W + " (x < 2) {\n    x = x + 1;\n    %s\n  }\n  " + P + " \"sg-after-loop\";\n}\nsg();\n"},
		struct{ name, text string }{"function-called-in-expression", F + " sg() {\n  %s\n}\n" + P + " pr(\"first-operand\", 1) + sg() + pr(\"later-operand\", 1);\n"},
	)
}

// c06Layout rewrites the line ends of a program: 0 as written, 1 a blank or a tab before every newline and
// blank-only lines in between, 2 CRLF line ends, 3 a mixture.  Line numbers are whatever the text then has.
func c06Layout(src string, k int) string {
	switch k % 6 {
	case 4, 5:
		// comments of every shape between the lines: documentation boxes whose lines end in a star, stars before the
		// line break, a slash right behind the opener, nested-looking openers, line comments holding block openers
		shapes := []string{"/**\n * note\n */", "/* a *\n b */", "/***/", "/*/ x */", "/* x **/", "/*\n*\n*/", "// c /* not open", "/* /* */", "/* ends in star *\n*/", "/**/", "/*\r\n*\r\n*/", "/* * / * */"}
		// only behind line breaks that stand between tokens (not inside a string or a comment that spans lines)
		rs := []rune(src)
		ref := reflex.Lex(rs)
		inside := make([]bool, len(rs)+1)
		for _, t := range ref.Toks {
			for p := t.Pos; p < t.End && p < len(rs); p++ {
				inside[p] = true
			}
		}
		for _, cm := range ref.Comments {
			for p := cm[0]; p < cm[1] && p < len(rs); p++ {
				inside[p] = true
			}
		}
		if len(ref.Diags) > 0 {
			return src
		}
		var b strings.Builder
		n := 0
		for p, r := range rs {
			b.WriteRune(r)
			if r == '\n' && !inside[p] {
				n++
				if (n+k)%2 == 0 {
					b.WriteString(shapes[(n+k/6)%len(shapes)] + "\n")
				}
			}
		}
		return b.String()
	}
	switch k % 6 {
	case 1:
		lines := strings.Split(src, "\n")
		var b strings.Builder
		for i, l := range lines {
			if i == len(lines)-1 {
				b.WriteString(l)
				break
			}
			b.WriteString(l + []string{" ", "\t", "  \t "}[i%3] + "\n")
			if i%4 == 1 {
				b.WriteString("    \n")
			}
		}
		return b.String()
	case 2:
		return strings.ReplaceAll(src, "\n", "\r\n")
	case 3:
		lines := strings.Split(src, "\n")
		var b strings.Builder
		for i, l := range lines {
			if i == len(lines)-1 {
				b.WriteString(l)
				break
			}
			b.WriteString(l + []string{"\n", " \n", "\r\n", "\t\r\n", "\n\t\n"}[i%5])
		}
		return b.String()
	}
	return src
}

func c06Kinds(k string) bool { return true }

func (c *Ctx) c06Program(s *Sub, sub, src string, nested bool, cli bool, labels ...string) {
	stdin := "typed-line\nsecond\n"
	mc := c.runModelCase(s, src, stdin, model.Options{MaxSteps: 30000}, judgeOpts{checkLine: true, checkKind: true})
	if mc.Res.Outcome == model.OverBudget {
		return
	}
	labels = append(labels, "outcome-"+mc.Res.Outcome.String())
	if mc.Res.Outcome == model.RuntimeError {
		labels = append(labels, "error-"+mc.Res.ErrKind)
	}
	c.Ev.Case(sub, src, nested && mc.Res.Outcome == model.RuntimeError, labels...)
	if mc.Sig != "" {
		s.Violation(mc.replay("fault"))
	}
	if !cli || mc.Res.Outcome == model.Unspecified {
		return
	}
	// the same program through the real CLI: exit status, streams, termination
	cr := c.CLIScript(src, stdin, 20*time.Second)
	c.Ev.Class("cli-run")
	fail := func(sig, msg string) {
		s.Violation(Replay{Check: "fault", Sig: "cli-" + sig, Source: src, Stdin: stdin, Note: "CLI: " + msg, Expected: model.ExpectedText(mc.Res),
			Observed: fmt.Sprintf("status=%d timedOut=%v stdout=%q stderr=%q", cr.Status, cr.TimedOut, clip(cr.Stdout, 400), clip(cr.Stderr, 400))})
	}
	if cr.TimedOut {
		fail("not-finished", "the process did not finish within 20 s")
	}
	if ok, why := model.CompareStdout(mc.Res, cr.Stdout); !ok {
		fail("stdout", why)
	}
	switch mc.Res.Outcome {
	case model.OK:
		if cr.Status != 0 || cr.Stderr != "" {
			fail("clean", "a program that performs no invalid operation must exit 0 with empty stderr")
		}
	case model.RuntimeError:
		if cr.Status != 70 {
			fail("status", fmt.Sprintf("expected exit status 70, got %d", cr.Status))
		}
		if ln := run.DiagLine(cr.Stderr); ln != mc.Res.ErrLine {
			fail("line", fmt.Sprintf("diagnostic names line %d, the failing operation is on line %d", ln, mc.Res.ErrLine))
		}
		if !kindMatches(mc.Res, run.FirstLine(cr.Stderr)) {
			fail("kind", "first diagnostic does not describe the failing operation")
		}
	}
}

func TestC06(t *testing.T) {
	Main(t, "C06", func(c *Ctx) {
		c.OnReplay("fault", func(s *Sub, rp *Replay) { c.c06Program(s, "replay", rp.Source, true, true) })
		c.ReplayTier()

		// the faulting expression (or statement) spread over several lines, one token per line: which of its
		// lines the diagnostic names is not pinned, but it must be one of them (the lines from its first token
		// to the token that ends it) — and everything else holds as for one-line faults
		c.Sub("multi-line-faults", func(s *Sub) {
			var k int64
			spread := func(text string) (string, int) {
				toks := reflex.Lex([]rune(text)).Toks
				var parts []string
				for _, t := range toks {
					if t.Kind != bn.TEOF {
						parts = append(parts, t.Text)
					}
				}
				return strings.Join(parts, "\n"), len(parts)
			}
			check := func(src string, first, last int, labels ...string) {
				mc := c.runModelCase(s, src, "typed-line\nsecond\n", model.Options{MaxSteps: 30000}, judgeOpts{checkLine: false, checkKind: true})
				if mc.Res.Outcome == model.OverBudget || mc.Res.Outcome == model.Unspecified {
					return
				}
				c.Ev.EnumCase("multi-line-faults", mc.Res.Outcome == model.RuntimeError, func() string { return src }, labels...)
				if mc.Sig != "" {
					s.Violation(mc.replay("fault"))
					return
				}
				if mc.Res.Outcome == model.RuntimeError {
					if ln := run.DiagLine(mc.Resp.Err); ln < first || ln > last {
						s.Violation(Replay{Check: "fault", Sig: "line-outside-construct", Source: src, Stdin: "typed-line\nsecond\n",
							Note: fmt.Sprintf("the diagnostic names line %d; the failing construct occupies lines %d-%d", ln, first, last), Observed: mc.Resp.Describe()})
					}
				}
			}
			preLines := strings.Count(c06Prelude, "\n")
			for _, f := range c06Faults {
				for _, wrap := range []string{"%s\n;\n", bn.KwPrint + "\n%s\n;\n", "x =\n%s\n;\n", bn.KwVar + " nv = %s;\n", bn.KwIf + " (\n%s\n) {\n}\n", "pr(\"arg\",\n%s\n)\n;\n", "x = [1,\n%s\n, 2];\n"} {
					k++
					if !c.Mine(k) {
						continue
					}
					body, n := spread(f.expr)
					if strings.HasPrefix(wrap, bn.KwVar) {
						body, n = f.expr, 1 // declarations stay on one line
					}
					text := fmt.Sprintf(wrap, body)
					lead := strings.Count(strings.SplitN(wrap, "%s", 2)[0], "\n")
					first := preLines + 1 + lead
					last := first + n - 1 + 1 // the token that ends the construct sits on the next line
					if strings.HasPrefix(wrap, bn.KwVar) {
						last = first
					}
					check(c06Prelude+text+c06Tail, first, last, "kind-"+f.kind)
				}
			}
			for _, f := range c06StmtFaults {
				if f.kind != "stray" {
					continue
				}
				k++
				if !c.Mine(k) {
					continue
				}
				body, n := spread(f.stmt)
				for _, wrap := range []string{"%s\n", "{\n%s\n}\n", bn.KwFun + " sg() {\n%s\n}\nsg();\n"} {
					lead := strings.Count(strings.SplitN(wrap, "%s", 2)[0], "\n")
					first := preLines + 1 + lead
					check(c06Prelude+fmt.Sprintf(wrap, body)+c06Tail, first, first+n-1, "kind-stray")
				}
			}
			c.Ev.MarkExhaustive(fmt.Sprintf("%d faulting expressions x 7 multi-line wrappings and the stray statements x 3, one token per line", len(c06Faults)))
		})
		c.Sub("fault-x-position", func(s *Sub) {
			var k int64
			for _, f := range c06Faults {
				for _, p := range c06Positions {
					k++
					if !c.Mine(k) {
						continue
					}
					pre := c06Prelude
					if k%2 == 0 {
						pre = c06PreludeML
					}
					src := c06Layout(pre+fmt.Sprintf(p.text, f.expr)+c06Tail, int(k/2))
					cli := c.Thorough || k%7 == 0
					c.c06Program(s, "fault-x-position", src, !strings.HasPrefix(p.name, "top-"), cli, "kind-"+f.kind, "pos-"+p.name)
				}
			}
			for _, f := range c06StmtFaults {
				for _, p := range c06StmtPositions {
					k++
					if !c.Mine(k) {
						continue
					}
					src := c06Prelude + fmt.Sprintf(p.text, f.stmt) + c06Tail
					c.c06Program(s, "fault-x-position", src, p.name != "top", true, "kind-"+f.kind, "pos-stmt-"+p.name)
				}
			}
			// fault-free variants of every position
			for _, p := range c06Positions {
				k++
				if !c.Mine(k) {
					continue
				}
				src := c06Prelude + fmt.Sprintf(p.text, "1") + c06Tail
				if strings.Contains(p.name, "true") || strings.Contains(p.name, "ever") || p.name == "nested-loops-body" || p.name == "function-loop-body" || p.name == "while-condition" || p.name == "for-condition" || p.name == "callee" || p.name == "index-expression" {
					continue // would not terminate / is itself a fault without the planted error
				}
				c.c06Program(s, "fault-x-position", src, false, k%3 == 0, "fault-free", "pos-"+p.name)
			}
			c.Ev.MarkExhaustive(fmt.Sprintf("every one of %d faulting expressions x %d syntactic positions, %d statement faults x %d positions, and the fault-free variants", len(c06Faults), len(c06Positions), len(c06StmtFaults), len(c06StmtPositions)))
		})

		n := 1200
		if c.Thorough {
			n = 20000
		}
		c.Rapid("rand-planted-fault", n, func(rt *rapid.T, s *Sub) {
			g := &c05Gen{budget: rapid.IntRange(3, 18).Draw(rt, "budget")}
			g.pick = func(label string, n int) int { return rapid.IntRange(0, n-1).Draw(rt, label) }
			if rapid.Bool().Draw(rt, "inFunction") {
				g.retOK = true
			}
			var body string
			depth := rapid.IntRange(1, 4).Draw(rt, "depth")
			if g.retOK {
				g.b.WriteString("ফাংশন fn() {\n")
				for i := 0; i < 2; i++ {
					g.stmt("  ", depth, nil, false, 0, false, true)
				}
				g.b.WriteString("}\nদেখাও fn();\n")
				body = g.b.String()
			} else {
				for i := 0; i < 2; i++ {
					g.stmt("", depth, nil, false, 0, false, true)
				}
				body = g.b.String()
			}
			// plant a fault in place of one of the trace prints
			lines := strings.Split(body, "\n")
			var tagLines []int
			for i, l := range lines {
				if strings.Contains(l, "দেখাও \"t") {
					tagLines = append(tagLines, i)
				}
			}
			planted := "none"
			nFaults := rapid.IntRange(0, 5).Draw(rt, "plant")
			if nFaults > 2 {
				nFaults = 1
			}
			for q := 0; q < nFaults && len(tagLines) > 0; q++ {
				// one or two faults: whichever is reached first decides the diagnostic
				at := tagLines[rapid.IntRange(0, len(tagLines)-1).Draw(rt, "at")]
				f := rapid.SampledFrom(c06Faults).Draw(rt, "fault")
				ind := lines[at][:len(lines[at])-len(strings.TrimLeft(lines[at], " "))]
				lines[at] = ind + "দেখাও " + f.expr + ";"
				if planted == "none" {
					planted = f.kind
				} else {
					planted = "two-faults"
				}
			}
			pre := c06Prelude
			if rapid.Bool().Draw(rt, "multiLinePrelude") {
				pre = c06PreludeML
			}
			src := c06Layout(pre+strings.Join(lines, "\n")+c06Tail, rapid.IntRange(0, 5).Draw(rt, "lineEnds"))
			c.c06Program(s, "rand-planted-fault", src, true, rapid.IntRange(0, 9).Draw(rt, "cli") == 0, "planted-"+planted)
		})
	})
}
