package checks

import (
	"fmt"
	"strconv"
	"strings"
	"testing"

	"verifharness/bn"
	"verifharness/run"
)

// C16 — a value behaves the same however it was produced (purely metamorphic:
// no model, two programs that differ only in how one value is produced must
// behave identically).

type c16Producer struct {
	name  string
	setup string // statements before the context (each on its own line; fixed line count via padding)
	expr  string // expression denoting the value
	stdin string
	param bool // the context runs inside a function whose parameter carries the value
}

func strLit(s string) string { return "\"" + s + "\"" }

func c16StringProducers(s string) []c16Producer {
	a, b := s, ""
	if len([]rune(s)) >= 2 {
		r := []rune(s)
		a, b = string(r[:len(r)-1]), string(r[len(r)-1:])
	}
	ps := []c16Producer{
		{name: "literal", expr: strLit(s)},
		{name: "concat", expr: "(" + strLit(a) + " + " + strLit(b) + ")"},
		{name: "property-of-literal", expr: "({k: " + strLit(s) + "}).k"},
		{name: "element", expr: "[" + strLit(s) + "][0]"},
		{name: "function-result", setup: bn.KwFun + " mkv() { " + bn.KwReturn + " " + strLit(s) + "; }", expr: "mkv()"},
		{name: "parameter", expr: strLit(s), param: true},
		{name: "assigned-property", setup: bn.KwVar + " holder = {}; holder.w = " + strLit(s) + ";", expr: "holder.w"},
		{name: "variable", setup: bn.KwVar + " held = " + strLit(s) + ";", expr: "held"},
	}
	// the same string as an element of an array, a value of an object, that built-ins have looked at (length,
	// copies, listings; min/max where every element is numeric-looking, so that the call succeeds)
	ps = append(ps, c16Producer{name: "element-after-builtins", setup: bn.KwVar + " seen = [" + strLit(s) + ", \"z\"]; " + bn.BLen + "(seen); " + bn.BPush + "(seen, 1); " + bn.BRemove + "(seen, 1); " + bn.KwVar + " so = {w: " + strLit(s) + "}; " + bn.BKeys + "(so); " + bn.BValues + "(so);", expr: "seen[0]"},
		c16Producer{name: "value-after-listing", setup: bn.KwVar + " so = {w: " + strLit(s) + "}; " + bn.BKeys + "(so); " + bn.BValues + "(so); " + bn.BLen + "(" + bn.BValues + "(so));", expr: "so.w"},
		c16Producer{name: "listed-value", expr: bn.BValues + "({w: " + strLit(s) + "})[0]"})
	if _, err := strconv.ParseFloat(strings.Map(func(r rune) rune {
		if r >= 0x09e6 && r <= 0x09ef {
			return r - 0x09e6 + '0'
		}
		return r
	}, s), 64); err == nil && s != "nan" {
		ps = append(ps, c16Producer{name: "element-after-minmax", setup: bn.KwVar + " seen = [" + strLit(s) + ", \"0\"]; " + bn.BMax + "(seen); " + bn.BMin + "(seen);", expr: "seen[0]"})
	}
	if strings.TrimSpace(s) == s {
		ps = append(ps, c16Producer{name: "input", setup: bn.KwVar + " typed = " + bn.BInput + "();", expr: "typed", stdin: s + "\n"})
		ps = append(ps, c16Producer{name: "input-padded", setup: bn.KwVar + " typed = " + bn.BInput + "();", expr: "typed", stdin: "  " + s + " \t\n"})
	}
	return ps
}

var c16Numbers = []struct {
	name  string
	exprs []string
}{
	{"0", []string{"0", "(1 - 1)", "(1 & 2)", "(0 | 0)", bn.BLen + "([])", bn.BRound + "(0.2)", bn.BAbs + "(0)", bn.BMin + "(0, 4)", "(5 ^ 5)", "(0 * 7)", "(8 % 4)", "(2097152 % 1048576)", "(1 << 64)", "(3 << 70)", "(1 << 1000)", "(0 >> 64)", "(5 >> 64)"}},
	{"3", []string{"3", "(1 + 2)", "(7 & 3)", "(3 | 0)", bn.BLen + "([0, 0, 0])", bn.BRound + "(3.2)", bn.BAbs + "(-3)", bn.BMin + "(3, 4)", "(6 >> 1)", "(9 / 3)", "[3][0]", "({n: 3}).n", "(11 % 8)", "(7 % 4)"}},
	{"-1", []string{"(-1)", "(0 - 1)", "(~0)", "((-1) | 0)", bn.BRound + "(-0.6)", bn.BMax + "(-1, -2)", "(-(1))", "((-2) >> 1)"}},
	{"1000000", []string{"1000000", "(999999 + 1)", "(1000 * 1000)", "(1000000 | 0)", "(1000000 & 1048575)", bn.BRound + "(1000000.2)", bn.BAbs + "(-1000000)", "(10 ** 6)", "(500000 << 1)", "(3097152 % 2097152)", "(1000000 % 2147483648)", "(1000000 % 1000001)"}},
	{"2^53", []string{"9007199254740992", "(2 ** 53)", "(9007199254740991 + 1)", "(1 << 53)", "(9007199254740992 | 0)", bn.BAbs + "(-9007199254740992)", bn.BMax + "(1, 9007199254740992)", "(9007199254740992 % 18014398509481984)"}},
	// beyond 2^53 but held exactly by a double: bitwise results are ordinary numbers here too
	{"big 2^60", []string{"1152921504606846976", "(2 ** 60)", "(1 << 60)", "(1152921504606846976 | 0)", "((1 << 30) * (1 << 30))", bn.BAbs + "(-1152921504606846976)", "((1 << 61) >> 1)", "(1152921504606846976 & 1152921504606846976)", "(1152921504606846976 ^ 0)", "(~(~1152921504606846976))", bn.BMax + "(1, 1 << 60)", "(2 ** 30 << 30)"}},
	{"big -2^63", []string{"(-9223372036854775808)", "(0 - 2 ** 63)", "((-1) << 63)", "(1 << 63)", "((-9223372036854775808) | 0)", bn.BMin + "(0, 1 << 63)", "((-4611686018427387904) * 2)"}},
	{"big 2^100", []string{"1267650600228229401496703205376", "(2 ** 100)", "(1125899906842624 * 1125899906842624)", bn.BPow + "(2, 100)", "(1267650600228229401496703205376 + 0)", "(2535301200456458802993406410752 / 2)", bn.BAbs + "(-1267650600228229401496703205376)", "1267650600228229401496703205376.0"}},
	{"big 0.9999999999999999", []string{"0.9999999999999999", "(1 - 0.0000000000000001110223024625156540423631668090820312500)", "(0.5 + 0.4999999999999999)", "0.99999999999999990"}},
	{"big 3*2^60", []string{"3458764513820540928", "(3 * 2 ** 60)", "(3 << 60)", "(3458764513820540928 | 0)", "((1 << 60) | (1 << 61))", "((1 << 60) + (1 << 61))"}},
	{"12", []string{"12", "(3 * 4)", "(12 | 0)", "(8 | 4)", bn.BRound + "(11.5)", "১২", "(28 % 16)", "(12 % 1048576)"}},
}

// contexts: %s is the hole.  Every context is one line.
func c16Contexts() []string {
	P := bn.KwPrint
	var cs []string
	others := []string{"1", "2.5", "\"x\"", "nil", bn.KwTrue, "[1]", "\"7\""}
	for _, op := range bn.BinOpList {
		for _, o := range others {
			cs = append(cs, P+" %s "+op+" "+o+";", P+" "+o+" "+op+" %s;")
		}
	}
	for _, op := range bn.UnOps {
		cs = append(cs, P+" "+op+"%s;")
	}
	cs = append(cs,
		bn.KwIf+" (%s) "+P+" \"T\"; "+bn.KwElse+" "+P+" \"F\";",
		P+" !%s;", P+" %s "+bn.KwOr+" 1;", P+" %s "+bn.KwAnd+" 1;", P+" 0 "+bn.KwOr+" %s;",
		bn.KwWhile+" (%s) { "+P+" \"W\"; "+bn.KwBreak+"; }",
		P+" arr[%s];", "arr[%s] = 0; "+P+" arr;", bn.BRemove+"(arr, %s); "+P+" "+bn.BRemove+"(arr, %s);",
		bn.BDelKey+"(obj, %s); "+P+" obj;",
		P+" %s;", P+" [%s];", P+" {k: %s};", P+" [[%s], {z: %s}];", "obj.w = %s; "+P+" obj;", "arr[0] = %s; "+P+" arr;",
		P+" \"p\" + %s;", P+" %s + \"p\";", P+" %s + 1;", P+" 1 + %s;", P+" %s + %s;",
		bn.KwVar+" u = %s; u = u + 1; "+P+" u;", bn.KwVar+" u = %s; u = u - 1; "+P+" u;", bn.KwVar+" u = %s; u = u + 0; u = u + 0; "+P+" u;", bn.KwVar+" u = %s; u = u * 2; "+P+" u;",
		bn.KwVar+" u = [%s]; u[0] = u[0] + 1; "+P+" u;", bn.KwVar+" u = {k: %s}; u.k = u.k + 1; "+P+" u.k;", bn.KwVar+" u = %s; "+bn.KwFor+" ("+bn.KwVar+" i = 0; i < 2; i = i + 1) u = u + 1; "+P+" u;",
		P+" %s == %s;", P+" %s != %s;", P+" %s == 3;", P+" %s == \"abc\";", P+" [%s] == [%s];",
		bn.BPush+"(arr, %s); "+P+" "+bn.BPush+"(arr, %s);",
		P+" "+bn.BInput+"(%s);",
	)
	for _, b := range []string{bn.BLen, bn.BKeys, bn.BValues, bn.BAbs, bn.BSqrt, bn.BSin, bn.BCos, bn.BTan, bn.BRound, bn.BMin, bn.BMax} {
		cs = append(cs, P+" "+b+"(%s);")
	}
	for _, b := range []string{bn.BPow, bn.BMin, bn.BMax} {
		cs = append(cs, P+" "+b+"(%s, 2);", P+" "+b+"(2, %s);")
	}
	return cs
}

const c16Prelude = "ধরি arr = [10, 20, 30, 40];\nধরি obj = {abc: 1, k: 2};\n"

type c16Obs struct {
	out, class, diag string
	line             int
}

func (c *Ctx) c16Run(p c16Producer, ctx string) (string, c16Obs) {
	body := strings.ReplaceAll(ctx, "%s", p.expr)
	src := c16Prelude
	setup := p.setup
	if setup == "" {
		setup = "// no setup"
	}
	if p.param {
		hole := strings.ReplaceAll(ctx, "%s", "pv")
		src += "// parameter producer\n" + bn.KwFun + " inctx(pv) { " + hole + " }\n" + "inctx(" + p.expr + ");\n"
	} else {
		src += setup + "\n" + "// context follows\n" + body + "\n"
	}
	src += bn.KwPrint + " \"end\";\n"
	r := c.W().Run(run.Req{Src: src, Stdin: p.stdin + "extra-line\n"})
	return src, c16Obs{out: r.Out, class: r.Class(), diag: run.FirstLine(r.Err), line: run.DiagLine(r.Err)}
}

// c16Layouts: every context as written (one line) and with a line break in
// front of every hole, so that the produced value sits on a later line than
// the operator or call it feeds (ধরি declarations stay on one line).
func c16Layouts(contexts []string) []string {
	var out []string
	for _, ctx := range contexts {
		out = append(out, ctx)
		if !strings.Contains(ctx, bn.KwVar) && strings.Contains(ctx, " %s") {
			out = append(out, strings.ReplaceAll(ctx, " %s", "\n%s"))
		}
	}
	return out
}

func (c *Ctx) c16Group(s *Sub, sub, valueName string, producers []c16Producer, contexts []string, k *int64) {
	for _, ctx := range c16Layouts(contexts) {
		*k++
		if !c.Mine(*k) {
			continue
		}
		baseSrc, base := c.c16Run(producers[0], ctx)
		for _, p := range producers[1:] {
			src, obs := c.c16Run(p, ctx)
			c.Ev.EnumCase(sub, true, func() string { return src }, "value "+valueName, "producer "+p.name, "class-"+obs.class)
			same := obs.out == base.out && obs.class == base.class && obs.diag == base.diag
			if same && !p.param && !producers[0].param && obs.line != base.line {
				same = false
			}
			if !same {
				s.Violation(Replay{Check: "origin", Sig: "origin-" + p.name, Source: src, Extra: map[string]string{"base": baseSrc}, Stdin: p.stdin + "extra-line\n",
					Note:     fmt.Sprintf("the value %s behaves differently when produced by %q than when produced by %q in context %q", valueName, p.name, producers[0].name, ctx),
					Expected: fmt.Sprintf("%s\n=> class=%s out=%q diag=%q line=%d", baseSrc, base.class, base.out, base.diag, base.line),
					Observed: fmt.Sprintf("class=%s out=%q diag=%q line=%d", obs.class, obs.out, obs.diag, obs.line)})
			}
		}
	}
}

func TestC16(t *testing.T) {
	Main(t, "C16", func(c *Ctx) {
		c.OnReplay("origin", func(s *Sub, rp *Replay) {
			a := c.W().Run(run.Req{Src: rp.Extra["base"], Stdin: rp.Stdin})
			b := c.W().Run(run.Req{Src: rp.Source, Stdin: rp.Stdin})
			if a.Out != b.Out || a.Class() != b.Class() || run.FirstLine(a.Err) != run.FirstLine(b.Err) {
				s.Violation(Replay{Check: "origin", Sig: rp.Sig, Source: rp.Source, Extra: rp.Extra, Stdin: rp.Stdin, Note: rp.Note, Expected: a.Describe(), Observed: b.Describe()})
			}
		})
		c.ReplayTier()
		contexts := c16Contexts()
		c.Sub("strings", func(s *Sub) {
			var k int64
			for _, v := range []string{"", "abc", "12", "০৫", " ", "k", "1.5", "nan", "সম\u09df", "ক\u09c7\u09be", "cafe\u0301", "\u09dc",
				// strings that begin with or consist of characters a reader might be tempted to strip
				"\ufeffabc", "\ufeff", "\u200b", "x\u00a0y", "\ufeff21",
				// joiners inside a word, and strings as long as the buffers a reader might use (4096, 65536 bytes)
				"\u09b0\u200d\u09cd\u09af\u09be\u09ac", "\u09b9\u0995\u09cd\u200c", strings.Repeat("\u09ac\u09be\u0982\u09b2\u09be ", 260) + "end", strings.Repeat("ab", 2047) + "xyz", strings.Repeat("long line ", 6600)} {
				c.c16Group(s, "strings", fmt.Sprintf("%q", v), c16StringProducers(v), contexts, &k)
			}
			c.Ev.MarkExhaustive(fmt.Sprintf("%d contexts x 22 string values (incl. strings that are not NFC-stable, strings beginning with a byte-order mark or a zero-width space, joiners inside words, strings of 4 KiB and 64 KiB) x every producer against the literal producer (8-10 producers each)", len(contexts)))
		})
		// integers beyond 2^53 that only the bitwise operators can produce exactly: the same value reached
		// through every storage / call path must keep behaving as the directly computed one
		c.Sub("exact-integers", func(s *Sub) {
			var k int64
			for _, e := range []string{"((1 << 62) | 1)", "(~(1 << 62))", "(~(1 << 63))", "((1 << 53) | 1)", "(1 << 63)"} {
				ps := []c16Producer{
					{name: "direct", expr: e},
					{name: "or-zero", expr: "(" + e + " | 0)"},
					{name: "and-self", expr: "(" + e + " & " + e + ")"},
					{name: "double-complement", expr: "(~(~" + e + "))"},
					{name: "element", expr: "[" + e + "][0]"},
					{name: "nested-element", expr: "[[1, " + e + "]][0][1]"},
					{name: "property-of-literal", expr: "({n: " + e + "}).n"},
					{name: "nested-property", expr: "({o: {n: " + e + ", m: 2}}).o.n"},
					{name: "listed-value", expr: bn.BValues + "({n: " + e + "})[0]"},
					{name: "appended", expr: bn.BPush + "([], " + e + ")[0]"},
					{name: "function-result", setup: bn.KwFun + " mkv() { " + bn.KwReturn + " " + e + "; }", expr: "mkv()"},
					{name: "identity-function", setup: bn.KwFun + " same(q) { " + bn.KwReturn + " q; }", expr: "same(" + e + ")"},
					{name: "two-returns", setup: bn.KwFun + " same(q) { " + bn.KwReturn + " q; } " + bn.KwFun + " twice(q) { " + bn.KwReturn + " same(same(q)); }", expr: "twice(" + e + ")"},
					{name: "closure-getter", setup: bn.KwFun + " keepv(q) { " + bn.KwFun + " get() { " + bn.KwReturn + " q; } " + bn.KwReturn + " get; } " + bn.KwVar + " getter = keepv(" + e + ");", expr: "getter()"},
					{name: "returned-from-loop", setup: bn.KwFun + " mkv() { " + bn.KwWhile + " (" + bn.KwTrue + ") { " + bn.KwReturn + " " + e + "; } }", expr: "mkv()"},
					{name: "parameter", expr: e, param: true},
					{name: "variable", setup: bn.KwVar + " held = " + e + ";", expr: "held"},
					{name: "reassigned-variable", setup: bn.KwVar + " held = 0; held = " + e + ";", expr: "held"},
					{name: "assigned-property", setup: bn.KwVar + " holder = {}; holder.w = " + e + ";", expr: "holder.w"},
					{name: "stored-element", setup: bn.KwVar + " cell = [0]; cell[0] = " + e + ";", expr: "cell[0]"},
					{name: "logical-or-result", expr: "(0 " + bn.KwOr + " " + e + ")"},
					{name: "logical-and-result", expr: "(1 " + bn.KwAnd + " " + e + ")"},
					{name: "grouped", expr: "((" + e + "))"},
					{name: "element-after-builtins", setup: bn.KwVar + " seen = [" + e + ", 0]; " + bn.BMax + "(seen); " + bn.BMin + "(seen); " + bn.BLen + "(seen); " + bn.BPush + "(seen, 1); " + bn.KwVar + " so = {w: " + e + "}; " + bn.BValues + "(so);", expr: "seen[0]"},
					{name: "value-after-listing", setup: bn.KwVar + " so = {w: " + e + "}; " + bn.BValues + "(so); " + bn.BKeys + "(so);", expr: "so.w"},
				}
				c.c16Group(s, "exact-integers", e, ps, contexts, &k)
			}
			c.Ev.MarkExhaustive(fmt.Sprintf("%d contexts x 5 exact 64-bit integers x 25 access paths against the directly computed value", len(contexts)))
		})
		c.Sub("numbers", func(s *Sub) {
			var k int64
			for _, n := range c16Numbers {
				var ps []c16Producer
				for i, e := range n.exprs {
					ps = append(ps, c16Producer{name: fmt.Sprintf("expr#%d %s", i, e), expr: e})
				}
				lit := n.exprs[0]
				big := strings.HasPrefix(n.name, "big ")
				if n.name != "2^53" && !big { // counting up to 2^53 never ends: 2^53 + 1 is not a double
					ps = append(ps, c16Producer{name: "for-counter", setup: bn.KwVar + " held = nil; " + bn.KwFor + " (" + bn.KwVar + " i = " + lit + " - 2; i <= " + lit + "; i = i + 1) { held = i; }", expr: "held"})
				}
				if !big {
					ps = append(ps,
						c16Producer{name: "for-counter-down", setup: bn.KwVar + " held = nil; " + bn.KwFor + " (" + bn.KwVar + " i = " + lit + " + 2; i >= " + lit + "; i = i - 1) { held = i; }", expr: "held"},
						c16Producer{name: "while-counter", setup: bn.KwVar + " held = " + lit + " - 3; " + bn.KwWhile + " (held < " + lit + ") { held = held + 1; }", expr: "held"},
						c16Producer{name: "update-statement", setup: bn.KwVar + " held = " + lit + " - 1; held = held + 1;", expr: "held"},
						c16Producer{name: "update-statement-minus", setup: bn.KwVar + " held = " + lit + " + 2; held = held - 2;", expr: "held"},
						c16Producer{name: "element-update", setup: bn.KwVar + " cell = [" + lit + " - 1]; cell[0] = cell[0] + 1;", expr: "cell[0]"},
						c16Producer{name: "recursion-result", setup: bn.KwFun + " up(k) { " + bn.KwIf + " (k == 0) " + bn.KwReturn + " " + lit + " - 3; " + bn.KwReturn + " up(k - 1) + 1; }", expr: "up(3)"},
					)
				}
				ps = append(ps, c16Producer{name: "element-after-builtins", setup: bn.KwVar + " seen = [" + lit + ", 0]; " + bn.BMax + "(seen); " + bn.BMin + "(seen); " + bn.BLen + "(seen); " + bn.BPush + "(seen, 1); " + bn.BRemove + "(seen, 0);", expr: "seen[0]"})
				ps = append(ps, c16Producer{name: "parameter", expr: n.exprs[0], param: true},
					c16Producer{name: "function-result", setup: bn.KwFun + " mkv() { " + bn.KwReturn + " " + n.exprs[len(n.exprs)/2] + "; }", expr: "mkv()"},
					c16Producer{name: "variable-of-bitwise", setup: bn.KwVar + " held = " + n.exprs[2] + ";", expr: "held"})
				c.c16Group(s, "numbers", n.name, ps, contexts, &k)
			}
			c.Ev.MarkExhaustive(fmt.Sprintf("%d contexts x 11 numbers (three beyond 2^53 that a double holds exactly, 2^100 written with 31 digits, a 16-digit fraction) x every producer (literal, arithmetic, bitwise, লেন, রাউন্ড, পরমমান, min/max, containers, parameter, function result) against the literal producer", len(contexts)))
		})
	})
}
