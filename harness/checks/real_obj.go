package checks

import (
	"sort"

	"github.com/ah-naf/borno/ast"

	"verifharness/bn"
)

// convObjLit converts an object literal; the implementation keeps properties
// in a map, so keys are taken in sorted order and tree comparisons sort keys.
func convObjLit(e *ast.ObjectLiteral) bn.Expr {
	o := &bn.ObjLit{}
	keys := make([]string, 0, len(e.Properties))
	for k := range e.Properties {
		keys = append(keys, k)
	}
	sort.Strings(keys)
	for _, k := range keys {
		o.Keys = append(o.Keys, k)
		o.Vals = append(o.Vals, convExpr(e.Properties[k]))
	}
	return o
}
