package checks

import (
	"github.com/ah-naf/borno/ast"

	"verifharness/bn"
)

// convObjLit converts an object literal: every written property, in source
// order (a name may repeat).
func convObjLit(e *ast.ObjectLiteral) bn.Expr {
	o := &bn.ObjLit{}
	for i, k := range e.Keys {
		o.Keys = append(o.Keys, k)
		o.Vals = append(o.Vals, convExpr(e.Values[i]))
	}
	return o
}
