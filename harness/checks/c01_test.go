package checks

import (
	"fmt"
	"strings"
	"testing"

	"pgregory.net/rapid"

	"verifharness/bn"
	"verifharness/model"
	"verifharness/reflex"
	"verifharness/refparse"
	"verifharness/run"
)

// C01 — accepted programs get the tree the documented grammar prescribes.

// c01Item is one operator item of the adjacency enumeration.
type c01Item struct {
	kind int // 0 infix, 1 prefix, 2 postfix
	text string
}

var c01Items = func() []c01Item {
	var it []c01Item
	for _, op := range bn.BinOpList {
		it = append(it, c01Item{0, op})
	}
	for _, op := range []string{bn.KwOr, "||", bn.KwAnd, "&&", "="} {
		it = append(it, c01Item{0, op})
	}
	for _, op := range bn.UnOps {
		it = append(it, c01Item{1, op})
	}
	for _, op := range []string{"(y)", "[y]", ".k", "()"} {
		it = append(it, c01Item{2, op})
	}
	return it
}()

func c01Build(items []c01Item) string {
	var b strings.Builder
	operands := []string{"a", "b", "c", "d", "e"}
	nOp := 0
	expect := true
	operand := func() {
		b.WriteString(operands[nOp%len(operands)])
		nOp++
		expect = false
	}
	for _, it := range items {
		switch it.kind {
		case 0:
			if expect {
				operand()
			}
			b.WriteString(" " + it.text + " ")
			expect = true
		case 1:
			if !expect {
				// a prefix operator cannot follow an operand: start a new operand with an infix '+'
				b.WriteString(" + ")
				expect = true
			}
			b.WriteString(it.text)
		case 2:
			if expect {
				operand()
			}
			b.WriteString(it.text)
		}
	}
	if expect {
		operand()
	}
	return b.String() + ";"
}

// c01Tree compares the real parser's tree for text with the reference tree,
// and (when accepted) checks both round trips.  Returns sig,msg.
// c01Text judges a text as written and once more with every optional blank removed (tokens that may stand next
// to each other do: `a--b**2`, `!-x`, `1+-2`): the tree does not depend on where blanks are.
func (c *Ctx) c01Text(s *Sub, sub, text string, enum bool) {
	c.c01TextAsWritten(s, sub, text, enum)
	if sq, ok := squeezeText(text); ok {
		c.Ev.Class("squeezed")
		c.c01TextAsWritten(s, sub, sq, enum)
	}
}

func (c *Ctx) c01TextAsWritten(s *Sub, sub, text string, enum bool) {
	src := []rune(text)
	ref := reflex.Lex(src)
	rp := refparse.Parse(ref.Toks)
	if len(ref.Diags) > 0 || rp.OODVarBreak || rp.OODTrailingComma {
		c.Ev.Discard("not-in-domain")
		return
	}
	fr := c.realFront(src)
	nt := rp.OK && c01NonTrivial(rp.Prog)
	cls := "accepted"
	if !rp.OK {
		cls = "rejected"
	}
	if enum {
		c.Ev.EnumCase(sub, nt, func() string { return text }, cls)
	} else {
		c.Ev.Case(sub, text, nt, cls)
	}
	viol := func(sig, msg, exp, obs string) {
		s.Violation(Replay{Check: "tree", Sig: sig, Source: text, Note: msg, Expected: exp, Observed: obs})
	}
	if fr.Panic != "" {
		viol("panic", "parser panicked: "+fr.Panic, "", "")
	}
	if !rp.OK {
		// which texts are accepted is C08's business; but a text the implementation accepts although the ladder
		// gives it no tree at all is an accepted program that did not get the tree the ladder prescribes
		if !fr.HadError && fr.Panic == "" {
			viol("accepted-without-ladder-tree", fmt.Sprintf("the ladder derives no tree for this text (first non-viable token #%d), yet it was accepted", rp.ErrTok), "rejected", "accepted")
		}
		return
	}
	if fr.HadError {
		viol("valid-rejected", "a program derivable from the grammar was rejected", "accepted", fr.Stderr)
	}
	got, err := convProgram(fr.Stmts)
	if err != nil {
		viol("unknown-node", err.Error(), "", "")
	}
	want := normDump(rp.Prog, false)
	if g := normDump(got, false); g != want {
		viol("tree", "the parsed tree differs from the tree the documented ladder prescribes", want, g)
	}
	// round trips of the reference tree through the real parser
	for _, mode := range []bn.PrintMode{bn.Minimal, bn.Full} {
		t2 := bn.ProgramText(rp.Prog, mode)
		// harness self-check: the printer and the reference parser agree
		r2 := reflex.Lex([]rune(t2))
		p2 := refparse.Parse(r2.Toks)
		if p2.OODVarBreak {
			continue
		}
		wantStripped := normDump(rp.Prog, true)
		if !p2.OK || normDump(p2.Prog, true) != wantStripped {
			s.Harness("printer/reference parser disagree on %q (mode %d) from %q", t2, mode, text)
		}
		fr2 := c.realFront([]rune(t2))
		c.Ev.Class(fmt.Sprintf("roundtrip-mode-%d", mode))
		if fr2.Panic != "" || fr2.HadError {
			viol("roundtrip-rejected", "the tree written out with parentheses is not accepted", t2, fr2.Stderr+fr2.Panic)
		}
		got2, err := convProgram(fr2.Stmts)
		if err != nil {
			viol("unknown-node", err.Error(), "", "")
		}
		if g := normDump(got2, true); g != wantStripped {
			viol("roundtrip", "writing the tree out with parentheses and parsing that text gives a different tree", t2+"\n"+wantStripped, g)
		}
	}
}

// c01NonTrivial: two operators of different ladder levels in parent/child
// position, an assignment chain, a postfix chain >= 2, or an if nested in the
// then-branch of an if…else.
func c01NonTrivial(p []bn.Stmt) bool {
	found := false
	var ve func(e bn.Expr)
	lvl := func(e bn.Expr) int {
		if g, ok := e.(*bn.Group); ok {
			e = g.E
		}
		return bn.Level(e)
	}
	isOp := func(e bn.Expr) bool { l := lvl(e); return l < bn.LvPrim }
	ve = func(e bn.Expr) {
		if e == nil || found {
			return
		}
		kids := []bn.Expr{}
		switch x := e.(type) {
		case *bn.Group:
			kids = append(kids, x.E)
		case *bn.Unary:
			kids = append(kids, x.R)
		case *bn.Binary:
			kids = append(kids, x.L, x.R)
		case *bn.Logical:
			kids = append(kids, x.L, x.R)
		case *bn.Assign:
			kids = append(kids, x.V)
			if isOp(x.V) && lvl(x.V) == bn.LvAssign {
				found = true
			}
		case *bn.IndexSet:
			kids = append(kids, x.A, x.I, x.V)
		case *bn.PropSet:
			kids = append(kids, x.O, x.V)
		case *bn.Call:
			kids = append(kids, x.Callee)
			kids = append(kids, x.Args...)
			if lvl(x.Callee) == bn.LvCall {
				found = true
			}
		case *bn.Index:
			kids = append(kids, x.A, x.I)
			if lvl(x.A) == bn.LvCall {
				found = true
			}
		case *bn.Prop:
			kids = append(kids, x.O)
			if lvl(x.O) == bn.LvCall {
				found = true
			}
		case *bn.ArrayLit:
			kids = append(kids, x.Elems...)
		case *bn.ObjLit:
			kids = append(kids, x.Vals...)
		}
		if isOp(e) {
			for _, k := range kids {
				if isOp(k) && lvl(k) != lvl(e) {
					found = true
				}
			}
		}
		for _, k := range kids {
			ve(k)
		}
	}
	var vs func(s bn.Stmt)
	vs = func(s bn.Stmt) {
		if s == nil || found {
			return
		}
		switch x := s.(type) {
		case *bn.ExprStmt:
			ve(x.E)
		case *bn.Print:
			ve(x.E)
		case *bn.Var:
			ve(x.Init)
		case *bn.VarList:
			for _, d := range x.Decls {
				ve(d.Init)
			}
		case *bn.Block:
			for _, y := range x.Stmts {
				vs(y)
			}
		case *bn.If:
			ve(x.C)
			if x.Else != nil {
				if _, ok := x.Then.(*bn.If); ok {
					found = true
				}
			}
			if in, ok := x.Then.(*bn.If); ok && in.Else != nil {
				found = true
			}
			vs(x.Then)
			vs(x.Else)
		case *bn.While:
			ve(x.C)
			vs(x.Body)
		case *bn.For:
			vs(x.Init)
			ve(x.Cond)
			ve(x.Incr)
			vs(x.Body)
		case *bn.Func:
			for _, y := range x.Body {
				vs(y)
			}
		case *bn.Return:
			ve(x.V)
		}
	}
	for _, s := range p {
		vs(s)
	}
	return found
}

// c01Tokens: differential on a token list (accepted sequences only).
func (c *Ctx) c01Tokens(s *Sub, sub string, toks []bn.Tok, rp *refparse.Result) {
	if !rp.OK || rp.OODVarBreak || rp.OODTrailingComma {
		return
	}
	fr := c.realParseToks(toRealTokens(toks))
	nt := c01NonTrivial(rp.Prog)
	c.Ev.EnumCase(sub, nt, func() string { return tokListText(toks) }, "accepted")
	viol := func(sig, msg, exp, obs string) {
		s.Violation(Replay{Check: "tree", Sig: sig, Source: tokListText(toks), Note: msg, Expected: exp, Observed: obs})
	}
	if fr.Panic != "" {
		viol("panic", "parser panicked: "+fr.Panic, "", "")
	}
	if fr.HadError {
		viol("valid-rejected", "a program derivable from the grammar was rejected", "accepted", fr.Stderr)
	}
	got, err := convProgram(fr.Stmts)
	if err != nil {
		viol("unknown-node", err.Error(), "", "")
	}
	want := normDump(rp.Prog, false)
	if g := normDump(got, false); g != want {
		viol("tree", "the parsed tree differs from the tree the documented ladder prescribes", want, g)
	}
}

func TestC01(t *testing.T) {
	Main(t, "C01", func(c *Ctx) {
		c.OnReplay("tree", func(s *Sub, rp *Replay) { c.c01Text(s, "replay", rp.Source, false) })
		c.OnReplay("parens", func(s *Sub, rp *Replay) { c.c01Parens(s, rp.Source, rp.Extra["full"], rp.Stdin) })
		c.ReplayTier()

		c.Sub("enum-operator-adjacency", func(s *Sub) {
			for n := 1; n <= 3; n++ {
				c.enumTuples(len(c01Items), n, func(idx []int) {
					items := make([]c01Item, len(idx))
					for i, j := range idx {
						items[i] = c01Items[j]
					}
					text := c01Build(items)
					c.c01Text(s, "enum-operator-adjacency", text, true)
					c.c01Text(s, "enum-operator-adjacency", bn.KwPrint+" "+text, true)
				})
			}
			c.Ev.MarkExhaustive(fmt.Sprintf("every sequence of <= 3 adjacent operator items over %d items (17 binary, 4 logical spellings, =, 3 prefix, 4 postfix forms)", len(c01Items)))
		})
		c.Sub("enum-else", func(s *Sub) {
			frag := []string{bn.KwIf + " (a)", bn.KwElse, "x;", "{", "}", bn.KwWhile + " (b)", bn.KwFor + " (;;)"}
			max := 6
			if c.Thorough {
				max = 8
			}
			for n := 1; n <= max; n++ {
				c.enumTuples(len(frag), n, func(idx []int) {
					var parts []string
					for _, i := range idx {
						parts = append(parts, frag[i])
					}
					c.c01Text(s, "enum-else", strings.Join(parts, " "), true)
				})
			}
			c.Ev.MarkExhaustive(fmt.Sprintf("every sequence of <= %d statement fragments over {if(a), else, x;, {, }, while(b), for(;;)}", max))
		})
		c.Sub("deep-nesting", func(s *Sub) {
			if c.Shard != 0 {
				return
			}
			P := bn.KwPrint
			// long flat chains (no nesting in the text): else-if ladders, statement lists, argument / element /
			// property lists, suffix chains — around every small power of two
			for _, n := range []int{2, 3, 4, 5, 7, 8, 9, 10, 15, 16, 17, 31, 32, 33, 63, 64, 65, 127, 128, 129, 255, 256, 257, 1000} {
				var ladder strings.Builder
				fmt.Fprintf(&ladder, "%s rung(i) {\n", bn.KwFun)
				for k := 0; k < n; k++ {
					kw := bn.KwElse + " " + bn.KwIf
					if k == 0 {
						kw = bn.KwIf
					}
					fmt.Fprintf(&ladder, "  %s (i == %d) { %s \"r%d\"; }\n", kw, k, bn.KwReturn, k)
				}
				fmt.Fprintf(&ladder, "  %s { %s \"else\"; }\n}\n%s [rung(0), rung(%d), rung(%d), rung(%d), rung(%d)];\n", bn.KwElse, bn.KwReturn, P, n/2, n-1, n, n+5)
				var elems, props, args, params []string
				for k := 0; k < n; k++ {
					elems = append(elems, fmt.Sprint(k))
					props = append(props, fmt.Sprintf("k%d: %d", k, k))
				}
				for k := 0; k < n && k < 255; k++ {
					args = append(args, fmt.Sprint(k))
					params = append(params, fmt.Sprintf("p%d", k))
				}
				flat := []string{
					ladder.String(),
					P + " " + bn.BLen + "([" + strings.Join(elems, ", ") + "]);\n" + P + " [" + strings.Join(elems, ", ") + "][" + fmt.Sprint(n-1) + "];\n",
					"x = {" + strings.Join(props, ", ") + "};\n" + P + " x.k" + fmt.Sprint(n-1) + " + x.k0;\n",
					bn.KwFun + " lastp(" + strings.Join(params, ", ") + ") { " + bn.KwReturn + " p" + fmt.Sprint(len(params)-1) + " + p0; }\n" + P + " lastp(" + strings.Join(args, ", ") + ");\n",
					P + " " + strings.Join(elems, " + ") + ";\n" + P + " " + strings.Join(elems, " - ") + ";\n" + P + " 1" + strings.Repeat(" "+bn.KwOr+" 0", n) + ";\n" + P + " 0" + strings.Repeat(" == 0", n) + ";\n",
					bn.KwVar + " " + strings.Join(params, ", ") + ";\n" + P + " p0;\n",
				}
				for _, tx := range flat {
					c.c01Text(s, "deep-nesting", tx, true)
					mc := c.runModelCase(s, tx, "", model.Options{MaxSteps: 400000, MaxDepth: 5000}, judgeOpts{})
					if mc.Sig != "" && mc.Sig != "abnormal" {
						s.Violation(mc.replay("tree"))
					}
				}
			}
			for _, d := range []int{10, 100, 254, 255, 256, 257, 300, 1000, 3000} {
				texts := []string{
					P + " 1 + " + strings.Repeat("(", d) + "2 * 3" + strings.Repeat(")", d) + ";\n" + P + " \"done\";\n",
					P + " " + strings.Repeat("[", d) + "1" + strings.Repeat("]", d) + strings.Repeat("[0]", d) + ";\n",
					"x = " + strings.Repeat("{k: ", d) + "1" + strings.Repeat("}", d) + ";\n" + P + " x" + strings.Repeat(".k", d) + ";\n",
					bn.KwFun + " idf(v) { " + bn.KwReturn + " v; }\n" + P + " " + strings.Repeat("idf(", d) + "7" + strings.Repeat(")", d) + ";\n",
					P + " " + strings.Repeat("-", d) + "1;\n" + P + " " + strings.Repeat("!", d) + "1;\n" + P + " " + strings.Repeat("~", d) + "1;\n",
					bn.KwVar + " a = 0;\n" + strings.Repeat("a = ", d) + "5;\n" + P + " a;\n",
					P + " " + strings.Repeat("1 - (", d) + "1" + strings.Repeat(")", d) + ";\n",
					P + " " + strings.Repeat("2 ** ", d%40+1) + "1;\n",
					bn.KwVar + " arr = [[0]];\n" + P + " arr" + strings.Repeat("[(0)]", 2) + ";\n" + P + " " + strings.Repeat("(", d) + "arr" + strings.Repeat(")", d) + "[0][0];\n",
					strings.Repeat("{ ", d) + P + " \"deep block\";" + strings.Repeat(" }", d) + "\n",
					strings.Repeat(bn.KwIf+" (1) ", d) + P + " \"deep if\";\n",
				}
				for _, tx := range texts {
					c.c01Text(s, "deep-nesting", tx, true)
					// and the behaviour: the deeply nested program must still print what the reference evaluator says
					if d <= 1000 {
						mc := c.runModelCase(s, tx, "", model.Options{MaxSteps: 400000, MaxDepth: 5000}, judgeOpts{})
						if mc.Sig != "" && mc.Sig != "abnormal" {
							s.Violation(mc.replay("tree"))
						}
					}
				}
			}
			c.Ev.MarkExhaustive("11 recursive productions nested 10..3000 levels deep (tree against the reference parser, round trips, and printed result)")
		})
		maxToks := 5
		if c.Thorough {
			maxToks = 6
		}
		// texts one token away from valid ones: those the grammar still derives get the ladder's tree, the others are
		// not accepted
		c.Sub("single-token-edits", func(s *Sub) {
			var k int64
			n := singleTokenEdits(func(text string) {
				k++
				if c.Mine(k) {
					c.c01Text(s, "single-token-edits", text, true)
				}
			})
			c.Ev.MarkExhaustive(fmt.Sprintf("%d small texts covering every construct x every single-token deletion, doubling, neighbour swap and insertion of each of the %d alphabet tokens", n, len(tokenAlphabet)))
		})
		c.Sub("enum-accepted-sequences", func(s *Sub) {
			c.enumViable(maxToks, false, func(toks []bn.Tok, rp *refparse.Result, viable bool) {
				c.c01Tokens(s, "enum-accepted-sequences", toks, rp)
			})
			c.Ev.MarkExhaustive(fmt.Sprintf("every accepted token sequence of <= %d tokens over the %d-token alphabet", maxToks, len(tokenAlphabet)))
		})
		n := 1500
		if c.Thorough {
			n = 40000
		}
		c.Rapid("rand-trees", n, func(rt *rapid.T, s *Sub) {
			g := &synGen{rt: rt}
			var prog []bn.Stmt
			if rapid.Bool().Draw(rt, "exprOnly") {
				prog = []bn.Stmt{exprStmt(g.expr(rapid.IntRange(2, 8).Draw(rt, "depth")))}
			} else {
				prog = g.program(rapid.IntRange(1, 4).Draw(rt, "depth"), 4)
			}
			c.c01Text(s, "rand-trees", bn.ProgramText(prog, bn.Minimal), false)
		})
		m := 400
		if c.Thorough {
			m = 12000
		}
		examples := shippedExamples()
		c.Rapid("parens-on-programs", m, func(rt *rapid.T, s *Sub) {
			// every operand, argument, condition, element and initialiser of a whole program wrapped in parentheses
			seed := drawSeed(rt, examples)
			ref := reflex.Lex([]rune(seed.Src))
			rp := refparse.Parse(ref.Toks)
			if len(ref.Diags) > 0 || !rp.OK || rp.OODTrailingComma {
				return
			}
			min := bn.ProgramText(rp.Prog, bn.Minimal)
			full := bn.ProgramText(rp.Prog, bn.Full)
			a := c.W().Run(run.Req{Src: min, Stdin: seed.Stdin, Budget: 400000})
			if a.Class() == run.Budget || a.Class() == run.Hung || a.Class() == run.Abnormal {
				return
			}
			b := c.W().Run(run.Req{Src: full, Stdin: seed.Stdin, Budget: 1200000})
			c.Ev.Case("parens-on-programs", full, true, "parens-seed-"+seed.Kind)
			if a.Class() != b.Class() || a.Out != b.Out || firstDiagNoLine(a.Err) != firstDiagNoLine(b.Err) {
				s.Violation(Replay{Check: "parens", Sig: "parens-change-program-output", Source: min, Stdin: seed.Stdin, Extra: map[string]string{"full": full},
					Note: "wrapping every operand of a program in parentheses changed what it prints", Expected: a.Describe(), Observed: full + "\n" + b.Describe()})
			}
		})
		// parentheses around the initialisers of a literal, the arguments of a call, the operands of an index: a plain
		// literal token in such a place is an expression like any other, with or without parentheses around it
		c.Sub("parens-on-plain-literals", func(s *Sub) {
			P := bn.KwPrint
			pre := bn.KwFun + " f(t) { " + P + " t; " + bn.KwReturn + " t; }\n" + bn.KwVar + " x = 0;\n" + bn.KwVar + " arr = [1, 2, 3];\n"
			pairs := [][2]string{
				{P + " {a: f(1), a: 7}.a;", P + " {a: (f(1)), a: (7)}.a;"},
				{"x = {k: x = 5, m: 1, k: \"s\"};\n" + P + " x.k;", "x = {k: (x = 5), m: (1), k: (\"s\")};\n" + P + " x.k;"},
				{P + " {a: f(1), b: 2, a: nil, b: f(3)};", P + " {a: (f(1)), b: (2), a: (nil), b: (f(3))};"},
				{P + " [f(1), 2, f(3)][1];", P + " [(f(1)), (2), (f(3))][(1)];"},
				{P + " f(2) + 3 * f(4);", P + " (f(2)) + ((3) * (f(4)));"},
				{P + " arr[f(1)] + 10;", P + " (arr[(f(1))]) + (10);"},
				{P + " -f(1) ** 2;", P + " ((-(f(1))) ** (2));"},
				{bn.KwIf + " (f(0)) " + P + " 1; " + bn.KwElse + " " + P + " 2;", bn.KwIf + " ((f(0))) " + P + " (1); " + bn.KwElse + " " + P + " (2);"},
				{P + " {a: 1, a: f(2), a: 3}.a;", P + " {a: (1), a: (f(2)), a: (3)}.a;"},
				{P + " f(1) " + bn.KwOr + " 7;", P + " (f(1)) " + bn.KwOr + " (7);"},
			}
			for i, pr := range pairs {
				if c.Mine(int64(i)) {
					c.c01Parens(s, pre+pr[0]+"\n"+P+" x;\n", pre+pr[1]+"\n"+P+" x;\n")
				}
			}
		})
		c.Rapid("rand-parens-behaviour", m, func(rt *rapid.T, s *Sub) {
			e := genArith(rt, rapid.IntRange(1, 5).Draw(rt, "depth"))
			prog := []bn.Stmt{&bn.Print{E: e}}
			c.c01Parens(s, bn.ProgramText(prog, bn.Minimal), bn.ProgramText(prog, bn.Full))
		})
	})
}

// genArith: side-effect-free arithmetic/comparison/bitwise expressions over
// small number literals.
func genArith(rt *rapid.T, depth int) bn.Expr {
	if depth <= 0 || rapid.IntRange(0, 4).Draw(rt, "leaf") == 0 {
		return numLit(rapid.SampledFrom([]string{"0", "1", "2", "3", "5", "7", "10", "0.5", "২", "64"}).Draw(rt, "n"))
	}
	switch rapid.IntRange(0, 9).Draw(rt, "form") {
	case 0:
		return bn.Un(rapid.SampledFrom(bn.UnOps).Draw(rt, "u"), genArith(rt, depth-1))
	case 1:
		op := "or"
		if rapid.Bool().Draw(rt, "and") {
			op = "and"
		}
		return &bn.Logical{Op: op, Sym: rapid.Bool().Draw(rt, "sym"), L: genArith(rt, depth-1), R: genArith(rt, depth-1)}
	default:
		return bn.Bin(rapid.SampledFrom(bn.BinOpList).Draw(rt, "op"), genArith(rt, depth-1), genArith(rt, depth-1))
	}
}

// c01Parens: a program and its fully parenthesised variant print the same.
func (c *Ctx) c01Parens(s *Sub, min, full string, stdin ...string) {
	in := ""
	if len(stdin) > 0 {
		in = stdin[0]
	}
	a := c.RunB(min, in)
	b := c.RunB(full, in)
	c.Ev.Case("rand-parens-behaviour", min, strings.Count(min, " ") > 4, "behaviour-"+a.Class())
	if a.Class() == "abnormal" || b.Class() == "abnormal" {
		// abnormal termination is C07's finding; the relation is still checked
	}
	if a.Class() != b.Class() || a.Out != b.Out || firstDiagNoLine(a.Err) != firstDiagNoLine(b.Err) {
		s.Violation(Replay{Check: "parens", Sig: "parens-change-output", Source: min, Extra: map[string]string{"full": full},
			Note: "adding parentheses that agree with the ladder changed what the program prints", Expected: a.Describe(), Observed: full + "\n" + b.Describe()})
	}
}
