package checks

import (
	"fmt"
	"strings"
	"testing"

	"pgregory.net/rapid"

	"verifharness/bn"
	"verifharness/model"
)

// C04 — calls bind arguments by position, return exactly; closures own
// captured state.

func (c *Ctx) c04Program(s *Sub, sub, src string, ntHint bool, labels ...string) {
	mc := c.runModelCase(s, src, "", model.Options{MaxSteps: 60000, MaxDepth: 400}, judgeOpts{checkLine: true, checkKind: true})
	if mc.Res.Outcome == model.OverBudget {
		return
	}
	t := mc.Res.Tags
	nt := ntHint || t["return-through-while"] > 0 || t["return-through-for"] > 0 || t["recursion-depth-3"] > 0
	labels = append(labels, "outcome-"+mc.Res.Outcome.String())
	for _, k := range []string{"return-through-while", "return-through-for", "recursion-depth-3"} {
		if t[k] > 0 {
			labels = append(labels, k)
		}
	}
	c.Ev.Case(sub, src, nt, labels...)
	if mc.Sig != "" {
		s.Violation(mc.replay("calls"))
	}
}

// c04ReturnSkeleton: a function whose body is a random nest with returns at
// chosen depths and statements after them.
func c04ReturnSkeleton(pick func(string, int) int, budget, depth int, wide bool) (string, bool) {
	g := &c05Gen{budget: budget, retOK: true, pick: pick, fnDecls: wide}
	g.b.WriteString(c05Prelude)
	g.b.WriteString(bn.KwFun + " fn() {\n")
	n := 1 + pick("nbody", 3)
	for i := 0; i < n; i++ {
		g.stmt("  ", depth, nil, false, 0, false, true)
	}
	g.b.WriteString("}\n")
	g.b.WriteString(bn.KwPrint + " fn();\n" + bn.KwPrint + " \"between\";\n" + bn.KwPrint + " fn();\n" + bn.KwPrint + " \"end\";\n")
	if wide {
		// the call's value where only its truth matters, and compared with nil
		g.b.WriteString(bn.KwIf + " (fn()) " + bn.KwPrint + " \"truthy\"; " + bn.KwElse + " " + bn.KwPrint + " \"falsy\";\n" + bn.KwPrint + " !fn();\n" + bn.KwPrint + " fn() == nil;\n" + bn.KwPrint + " [fn() " + bn.KwOr + " \"was-falsy\"];\n")
	}
	return g.b.String(), g.deepRet
}

const c04ClosurePrelude = `ফাংশন mk(start) {
  ধরি n = start;
  ধরি m = 0;
  ফাংশন inc() { n = n + 1; m = m + 1; ফেরত n; }
  ফাংশন add(k) { n = n + k; m = m + 1; ফেরত n; }
  ফাংশন get() { ফেরত n; }
  ফাংশন cnt() { ফেরত m; }
  ফাংশন reset() { n = start; ফেরত n; }
  ফেরত {inc: inc, add: add, get: get, cnt: cnt, reset: reset, all: [inc, add, get, cnt, reset]};
}
`

func TestC04(t *testing.T) {
	Main(t, "C04", func(c *Ctx) {
		c.OnReplay("calls", func(s *Sub, rp *Replay) { c.c04Program(s, "replay", rp.Source, true) })
		c.ReplayTier()

		c.Sub("arity-callee-matrix", func(s *Sub) {
			if c.Shard != 0 {
				return
			}
			pre := bn.KwFun + " f0() { " + bn.KwReturn + " \"r0\"; }\n" +
				bn.KwFun + " f1(a) { " + bn.KwPrint + " a; " + bn.KwReturn + " \"r1\"; }\n" +
				bn.KwFun + " f2(a, b) { " + bn.KwPrint + " a; " + bn.KwPrint + " b; " + bn.KwReturn + " \"r2\"; }\n" +
				bn.KwFun + " f3(a, b, c) { " + bn.KwPrint + " c; " + bn.KwPrint + " a; " + bn.KwPrint + " b; }\n" +
				bn.KwVar + " arr = [f1, 7];\n" + bn.KwVar + " obj = {m: f2, v: 3};\n"
			callees := []string{"f0", "f1", "f2", "f3", bn.BLen, bn.BAbs, "5", "\"s\"", "nil", bn.KwTrue, "[1]", "({a: 1})", "arr", "obj", "arr[0]", "arr[1]", "obj.m", "obj.v", "(f1)", "f0()", "f1(1)"}
			args := []string{"11", "22", "33", "44"}
			for _, cal := range callees {
				for n := 0; n <= 4; n++ {
					src := pre + bn.KwPrint + " \"before\";\n" + bn.KwPrint + " " + cal + "(" + strings.Join(args[:n], ", ") + ");\n" + bn.KwPrint + " \"after\";\n"
					c.c04Program(s, "arity-callee-matrix", src, true, "arity-matrix")
				}
			}
			c.Ev.MarkExhaustive(fmt.Sprintf("every one of %d callee forms x 0..4 arguments", len(callees)))
		})

		// a value crosses a call unchanged: as an argument, as the value of ফেরত (from the body, from inside
		// loops and arms, through two activations) and as a variable captured by a closure — for every kind of
		// value, including the exact 64-bit integers only the bitwise operators produce
		c.Sub("values-cross-calls-unchanged", func(s *Sub) {
			var k int64
			defs := bn.KwFun + " same(q) { " + bn.KwReturn + " q; }\n" +
				bn.KwFun + " twice(q) { " + bn.KwReturn + " same(same(q)); }\n" +
				bn.KwFun + " fromLoop(q) { " + bn.KwWhile + " (" + bn.KwTrue + ") { " + bn.KwIf + " (1) { " + bn.KwReturn + " q; } } }\n" +
				bn.KwFun + " fromFor(q) { " + bn.KwFor + " (" + bn.KwVar + " i = 0; i < 3; i = i + 1) { " + bn.KwIf + " (i == 1) " + bn.KwReturn + " q; } }\n" +
				bn.KwFun + " keepv(q) { " + bn.KwFun + " get() { " + bn.KwReturn + " q; } " + bn.KwReturn + " get; }\n" +
				bn.KwFun + " second(p, q) { " + bn.KwReturn + " q; }\n" +
				bn.KwFun + " boxed(q) { " + bn.KwReturn + " [q, {v: q}]; }\n"
			extra := []string{"(~(1 << 62))", "(~(1 << 63))", "((1 << 53) | 1)", "(1 << 64)", "\"0\"", "\" \"", "[[1], {a: [2]}]", "{a: {b: 1}}", "[nil, " + bn.KwFalse + "]"}
			var vals []string
			for _, p := range c02Producers {
				vals = append(vals, p.text)
			}
			vals = append(vals, extra...)
			P := bn.KwPrint
			for _, v := range vals {
				k++
				if !c.Mine(k) {
					continue
				}
				src := c02Prelude + defs + bn.KwVar + " v0 = " + v + ";\n"
				for _, call := range []string{"same(v0)", "twice(v0)", "fromLoop(v0)", "fromFor(v0)", "keepv(v0)()", "second(1, v0)", "boxed(v0)[0]", "boxed(v0)[1].v", "same(" + v + ")"} {
					src += P + " " + call + ";\n" + P + " [" + call + "];\n" + P + " " + call + " == v0;\n"
				}
				c.c04Program(s, "values-cross-calls-unchanged", src, true, "value-passing")
			}
			c.Ev.MarkExhaustive(fmt.Sprintf("%d value producers x 9 ways of crossing a call, each printed, printed inside an array and compared with the original", len(vals)))
		})

		c.Sub("scale", func(s *Sub) {
			if c.Shard != 0 {
				return
			}
			c.stepOverride = 40000000
			defer func() { c.stepOverride = 0 }()
			for _, n := range c.scaleSizes([]int{500, 2000}, []int{5000, 20000}) {
				c.c04Program(s, "scale", scaleFunctions(n), true, "scale-functions")
			}
			for _, n := range c.scaleSizes([]int{100, 300}, []int{1000, 5000}) {
				c.c04Program(s, "scale", scaleClosures(n), true, "scale-closures")
			}
			c.depthOverride = 12000
			defer func() { c.depthOverride = 0 }()
			for _, n := range c.scaleSizes([]int{100, 1000, 1025, 2049, 3000}, []int{4097, 8193}) {
				c.c04Program(s, "scale", scaleRecursion(n), true, "scale-recursion")
			}
		})
		c.Sub("recursion", func(s *Sub) {
			if c.Shard != 0 {
				return
			}
			P, R, F, V, I, E := bn.KwPrint, bn.KwReturn, bn.KwFun, bn.KwVar, bn.KwIf, bn.KwElse
			for _, n := range []int{0, 1, 2, 3, 5, 8, 12, 30, 100, 200} {
				progs := []string{
					F + " fact(n) { " + I + " (n <= 1) " + R + " 1; " + R + " n * fact(n - 1); }\n" + P + " fact(" + fmt.Sprint(n%13) + ");\n",
					F + " fib(n) { " + I + " (n < 2) { " + R + " n; } " + E + " { " + R + " fib(n - 1) + fib(n - 2); } }\n" + P + " fib(" + fmt.Sprint(n%15) + ");\n",
					F + " even(n) { " + I + " (n == 0) " + R + " " + bn.KwTrue + "; " + R + " odd(n - 1); }\n" + F + " odd(n) { " + I + " (n == 0) " + R + " " + bn.KwFalse + "; " + R + " even(n - 1); }\n" + P + " even(" + fmt.Sprint(n) + ");\n" + P + " odd(" + fmt.Sprint(n) + ");\n",
					F + " down(n, acc) { " + I + " (n == 0) " + R + " acc; " + R + " down(n - 1, " + bn.BPush + "(acc, n)); }\n" + V + " r = down(" + fmt.Sprint(n%40) + ", []);\n" + P + " " + bn.BLen + "(r);\n" + P + " r;\n",
					F + " sum(n) { " + V + " t = 0; " + I + " (n > 0) { t = n + sum(n - 1); } " + R + " t; }\n" + P + " sum(" + fmt.Sprint(n) + ");\n",
					F + " ap(g, n) { " + I + " (n == 0) " + R + " 0; " + R + " 1 + g(g, n - 1); }\n" + P + " ap(ap, " + fmt.Sprint(n) + ");\n",
					F + " loop(n) { " + V + " i = 0; " + bn.KwWhile + " (i < n) { i = i + 1; " + I + " (i == n) " + R + " loop(n - 1) + 1; } " + R + " 0; }\n" + P + " loop(" + fmt.Sprint(n%25) + ");\n",
					F + " outer(n) { " + F + " inner(k) { " + I + " (k == 0) " + R + " n; " + R + " inner(k - 1); } " + R + " inner(n); }\n" + P + " outer(" + fmt.Sprint(n) + ");\n",
				}
				for _, p := range progs {
					c.c04Program(s, "recursion", p, n >= 3, "recursion")
				}
			}
		})

		c.Sub("reentrant-arguments", func(s *Sub) {
			if c.Shard != 0 {
				return
			}
			// call sites with several arguments that are re-entered while their own argument list is being
			// evaluated, each exercised several times (a second complete evaluation of the same site)
			P, R, F, I := bn.KwPrint, bn.KwReturn, bn.KwFun, bn.KwIf
			defs := []string{
				F + " add(a, b) { " + R + " a + b; }\n" + F + " total(n) { " + I + " (n == 0) " + R + " 0; " + R + " add(n, total(n - 1)); }\n",
				F + " ack(m, n) { " + I + " (m == 0) " + R + " n + 1; " + I + " (n == 0) " + R + " ack(m - 1, 1); " + R + " ack(m - 1, ack(m, n - 1)); }\n",
				F + " mx(a, b) { " + I + " (a > b) " + R + " a; " + R + " b; }\n" + F + " top(xs, i) { " + I + " (i == " + bn.BLen + "(xs) - 1) " + R + " xs[i]; " + R + " mx(xs[i], top(xs, i + 1)); }\n",
				F + " three(a, b, c) { " + R + " [a, b, c]; }\n" + F + " nest(n) { " + I + " (n == 0) " + R + " []; " + R + " three(n, nest(n - 1), n * 10); }\n",
				F + " pair(a, b) { " + R + " a * 100 + b; }\n" + F + " fb(n) { " + I + " (n < 2) " + R + " n; " + R + " pair(fb(n - 1), fb(n - 2)) % 97; }\n",
				F + " cat(a, b, c) { " + R + " a + b + c; }\n" + F + " wrap(n) { " + I + " (n == 0) " + R + " \"x\"; " + R + " cat(\"<\", wrap(n - 1), \">\" + n); }\n",
			}
			calls := [][]string{
				{"total(4)", "total(4)", "total(6)", "total(1)", "total(6)"},
				{"ack(1, 2)", "ack(2, 2)", "ack(1, 2)", "ack(2, 1)"},
				{"top([3, 9, 2, 7], 0)", "top([3, 9, 2, 7], 0)", "top([5, 1], 0)", "top([1, 2, 3, 4, 5], 1)"},
				{"nest(2)", "nest(3)", "nest(2)"},
				{"fb(5)", "fb(7)", "fb(5)"},
				{"wrap(2)", "wrap(3)", "wrap(1)"},
			}
			for i, d := range defs {
				src := d
				for _, cl := range calls[i] {
					src += P + " " + cl + ";\n"
				}
				c.c04Program(s, "reentrant-arguments", src, true, "reentrant-arguments")
				// the same calls from inside a loop and through a stored function value
				src2 := d + bn.KwFor + " (" + bn.KwVar + " k = 0; k < 3; k = k + 1) {\n"
				for _, cl := range calls[i] {
					src2 += "  " + P + " " + cl + ";\n"
				}
				src2 += "}\n"
				c.c04Program(s, "reentrant-arguments", src2, true, "reentrant-arguments")
			}
		})

		maxC, maxLeaves := 2, int64(40000)
		if c.Thorough {
			maxC, maxLeaves = 3, 1500000
		}
		c.Sub("enum-return-skeletons", func(s *Sub) {
			var src string
			var deep bool
			var total int64
			complete := walkDecisions(maxLeaves, func(pick func(string, int) int) {
				src, deep = c04ReturnSkeleton(pick, maxC, 3, false)
			}, func(k int64) {
				total = k
				if c.Mine(k) {
					c.c04Program(s, "enum-return-skeletons", src, deep, "return-skeleton")
				}
			})
			if complete {
				c.Ev.MarkExhaustive(fmt.Sprintf("every function body the skeleton generator derives with at most %d constructs over the reduced decision alphabet (%d programs)", maxC, total))
			} else {
				c.Ev.Note(fmt.Sprintf("enum-return-skeletons: decision-tree walk stopped at %d programs (not exhaustive)", total))
			}
		})

		n := 2000
		if c.Thorough {
			n = 30000
		}
		c.Rapid("rand-return-skeletons", n, func(rt *rapid.T, s *Sub) {
			src, deep := c04ReturnSkeleton(func(label string, n int) int { return rapid.IntRange(0, n-1).Draw(rt, label) },
				rapid.IntRange(3, 20).Draw(rt, "budget"), rapid.IntRange(1, 4).Draw(rt, "depth"), true)
			c.c04Program(s, "rand-return-skeletons", src, deep, "return-skeleton")
		})

		c.Rapid("rand-reentrant-recursion", n/2, func(rt *rapid.T, s *Sub) {
			// a random binary combiner and a random recursive function whose recursive calls sit in argument
			// positions of calls to itself or to the combiner; called several times with small arguments
			comb := rapid.SampledFrom([]string{"a + b", "a * 2 + b", "a - b", "[a, b]", "b", "a"}).Draw(rt, "comb")
			var arg func(d int) string
			arg = func(d int) string {
				switch rapid.IntRange(0, 5).Draw(rt, "arg") {
				case 0:
					return "n"
				case 1:
					return fmt.Sprint(rapid.IntRange(0, 9).Draw(rt, "k"))
				case 2, 3:
					if d > 0 {
						return "rec(n - " + fmt.Sprint(rapid.IntRange(1, 2).Draw(rt, "dec")) + ", " + arg(d-1) + ")"
					}
					return "acc"
				case 4:
					if d > 0 {
						return "cmb(" + arg(d-1) + ", " + arg(d-1) + ")"
					}
					return "n"
				default:
					return "acc"
				}
			}
			body := "cmb(" + arg(2) + ", " + arg(2) + ")"
			if rapid.Bool().Draw(rt, "self") {
				body = "rec(n - 1, " + arg(2) + ")"
			}
			src := bn.KwFun + " cmb(a, b) { " + bn.KwReturn + " " + comb + "; }\n" +
				bn.KwFun + " rec(n, acc) { " + bn.KwIf + " (n <= 0) " + bn.KwReturn + " acc; " + bn.KwReturn + " " + body + "; }\n"
			k := rapid.IntRange(2, 5).Draw(rt, "calls")
			for i := 0; i < k; i++ {
				src += fmt.Sprintf("%s rec(%d, %d);\n", bn.KwPrint, rapid.IntRange(0, 4).Draw(rt, "n0"), rapid.IntRange(0, 3).Draw(rt, "a0"))
			}
			c.c04Program(s, "rand-reentrant-recursion", src, true, "reentrant-recursion")
		})

		// arguments and results are passed as they are, whatever they are: arrays and objects that contain themselves
		// go through parameters, returns, closures and containers of arguments like any other value
		c.Sub("self-containing-arguments", func(s *Sub) {
			P, V, F, R := bn.KwPrint, bn.KwVar, bn.KwFun, bn.KwReturn
			prelude := V + " cyc = [1, 2];\ncyc[0] = cyc;\n" + V + " cyo = {k: 1};\ncyo.me = cyo;\n" + V + " mix = [cyo];\ncyo.list = mix;\n" +
				F + " size(x) { " + R + " " + bn.BLen + "(x); }\n" + F + " same(x) { " + R + " x; }\n" + F + " second(a, b) { " + R + " b; }\n" + F + " keep(x) { " + F + " get() { " + R + " x; } " + R + " get; }\n" +
				F + " poke(x) { x[1] = 9; " + R + " x[1]; }\n" + F + " name(o) { " + R + " o.k; }\n"
			uses := []string{P + " size(cyc);", P + " same(cyc) == cyc;", P + " second(cyc, 5);", P + " second(5, cyc)[1];", P + " keep(cyc)()[1];", P + " poke(cyc);\n" + P + " cyc[1];", P + " name(cyo);", P + " name(same(cyo).me.me);",
				P + " size(mix);", P + " second(cyo, mix)[0].k;", P + " size([cyc, cyc]);", P + " same(same)(cyo).k;", P + " second(cyc, cyo, 1);", P + " name(cyc);", P + " size(cyo);", P + " same(cyc);"}
			for i, u := range uses {
				if c.Mine(int64(i)) {
					c.c04Program(s, "self-containing-arguments", prelude+P+" \"start\";\n"+u+"\n"+P+" \"end\";\n", true, "self-containing-argument")
				}
			}
		})

		// nil unless a ফেরত ran: the last thing a body did may have been anything — an assignment, a call that
		// returned something, a bare value, a declaration — at any depth of nesting, and an unused ফেরত may sit on
		// another path; the call's value is printed, compared with nil, stored and passed on
		c.Rapid("falls-off-the-end", n/2, func(rt *rapid.T, s *Sub) {
			P, V, F, R := bn.KwPrint, bn.KwVar, bn.KwFun, bn.KwReturn
			var b strings.Builder
			b.WriteString(V + " g = 0;\n" + V + " arr = [1, 2];\n" + V + " obj = {p: 1};\n" + F + " seven() { " + R + " 7; }\n" + F + " same(v) { " + R + " v; }\n")
			lasts := []string{"g = g + 1;", "7;", "\"s\";", "seven();", "seven;", "obj.p = 5;", "arr[0] = 6;", "[1, 2];", "({k: 1});", "g == g;", bn.KwTrue + ";",
				V + " loc = 9;", "same(same);", "g = seven();", "-g;", "nil;", R + ";", P + " \"shown\";", F + " inner() { " + R + " 3; }", bn.BLen + "(arr);", "g = [g];"}
			var nest func(ind string, d int) string
			nest = func(ind string, d int) string {
				last := ind + rapid.SampledFrom(lasts).Draw(rt, "last") + "\n"
				if d < 0 { // the unbraced body of a branch: a statement, not a declaration
					for strings.HasPrefix(strings.TrimSpace(last), V+" ") || strings.HasPrefix(strings.TrimSpace(last), F+" ") {
						last = ind + rapid.SampledFrom(lasts).Draw(rt, "lastStatement") + "\n"
					}
				}
				if d <= 0 {
					return last
				}
				inner := nest(ind+"  ", d-1)
				switch rapid.IntRange(0, 7).Draw(rt, "nest") {
				case 0:
					return ind + "{\n" + inner + ind + "}\n"
				case 1:
					return ind + bn.KwIf + " (" + bn.KwTrue + ") {\n" + inner + ind + "}\n"
				case 2:
					return ind + bn.KwIf + " (" + bn.KwFalse + ") { " + R + " \"never\"; } " + bn.KwElse + " {\n" + inner + ind + "}\n"
				case 3:
					return ind + V + " once = 0;\n" + ind + bn.KwWhile + " (once < 1) {\n" + ind + "  once = once + 1;\n" + inner + ind + "}\n"
				case 4:
					return ind + bn.KwFor + " (" + V + " i = 0; i < 2; i = i + 1) {\n" + inner + ind + "}\n"
				case 5:
					return ind + bn.KwIf + " (" + bn.KwTrue + ")\n" + nest(ind+"  ", -1)
				case 6:
					return ind + bn.KwWhile + " (" + bn.KwTrue + ") {\n" + inner + ind + "  " + bn.KwBreak + ";\n" + ind + "}\n"
				default:
					return ind + P + " \"first\";\n" + inner
				}
			}
			nf := rapid.IntRange(1, 3).Draw(rt, "functions")
			for k := 0; k < nf; k++ {
				fmt.Fprintf(&b, "%s f%d(flag) {\n", F, k)
				if rapid.Bool().Draw(rt, "returnOnOtherPath") {
					fmt.Fprintf(&b, "  %s (flag) { %s \"yes\"; }\n", bn.KwIf, R)
				}
				b.WriteString(nest("  ", rapid.IntRange(0, 3).Draw(rt, "depth")))
				b.WriteString("}\n")
			}
			for k := 0; k < nf; k++ {
				call := fmt.Sprintf("f%d(%s)", k, bn.KwFalse)
				uses := []string{P + " " + call + ";", P + " " + call + " == nil;", P + " [" + call + "];", V + fmt.Sprintf(" r%d = ", k) + call + ";\n" + P + fmt.Sprintf(" r%d;", k),
					P + " same(" + call + ");", P + " " + call + " " + bn.KwOr + " \"was falsy\";", P + " {v: " + call + "}.v;", P + fmt.Sprintf(" f%d(%s);", k, bn.KwTrue)}
				m := rapid.IntRange(1, 3).Draw(rt, "uses")
				for j := 0; j < m; j++ {
					b.WriteString(rapid.SampledFrom(uses).Draw(rt, "use") + "\n")
				}
			}
			b.WriteString(P + " g;\n")
			c.c04Program(s, "falls-off-the-end", place(b.String(), drawPlacement(rt)), true, "falls-off-the-end")
		})

		// arguments are bound to the parameters whatever the parameters are called: like the function itself,
		// like a sibling, like a built-in, like a global
		c.Rapid("parameters-with-coinciding-names", n/8, func(rt *rapid.T, s *Sub) {
			c.c04Program(s, "parameters-with-coinciding-names", genCoincidingNames(rt), true, "coinciding-names")
		})
		c.Rapid("higher-order-call-sites", n/2, func(rt *rapid.T, s *Sub) {
			src := genHigherOrder(rt)
			c.c04Program(s, "higher-order-call-sites", place(src, drawPlacement(rt)), true, "higher-order")
		})

		// functions declared before the variables and the sibling functions they use, in every kind of scope
		// (names are unique, so no enclosing binding competes): a function sees what its scope comes to hold
		c.Rapid("functions-before-their-variables", n/4, func(rt *rapid.T, s *Sub) {
			P, V, F, R := bn.KwPrint, bn.KwVar, bn.KwFun, bn.KwReturn
			var b strings.Builder
			b.WriteString(V + " kept = [];\n")
			ns := rapid.IntRange(1, 3).Draw(rt, "scopes")
			for k := 0; k < ns; k++ {
				open, close := "{\n", "}\n"
				switch rapid.IntRange(0, 4).Draw(rt, "scopeKind") {
				case 1:
					open = bn.KwIf + " (" + bn.KwTrue + ") {\n"
				case 2:
					open = bn.KwFor + " (" + V + fmt.Sprintf(" once%d = 0; once%d < 1; once%d = once%d + 1) {\n", k, k, k, k)
				case 3:
					open, close = fmt.Sprintf("%s host%d() {\n", F, k), fmt.Sprintf("}\nhost%d();\n", k)
				case 4:
					open = bn.KwWhile + " (" + bn.KwTrue + ") {\n"
					close = "  " + bn.KwBreak + ";\n}\n"
				}
				b.WriteString(open)
				if rapid.Bool().Draw(rt, "somethingDeclaredFirst") {
					fmt.Fprintf(&b, "  %s early%d = %d;\n", V, k, k)
				}
				fmt.Fprintf(&b, "  %s get%d() { %s cell%d; }\n  %s set%d(x) { cell%d = x; %s cell%d; }\n", F, k, R, k, F, k, k, R, k)
				if rapid.Bool().Draw(rt, "mutual") {
					fmt.Fprintf(&b, "  %s ev%d(m) { %s (m == 0) %s %s; %s od%d(m - 1); }\n  %s od%d(m) { %s (m == 0) %s %s; %s ev%d(m - 1); }\n  %s ev%d(%d);\n",
						F, k, bn.KwIf, R, bn.KwTrue, R, k, F, k, bn.KwIf, R, bn.KwFalse, R, k, P, k, rapid.IntRange(0, 5).Draw(rt, "parity"))
				}
				fmt.Fprintf(&b, "  %s cell%d = %d;\n  %s get%d();\n  %s set%d(%d);\n  %s get%d();\n  kept = %s(kept, get%d, set%d);\n", V, k, 10*k+1, P, k, P, k, 10*k+2, P, k, bn.BPush, k, k)
				if rapid.Bool().Draw(rt, "lateSibling") {
					fmt.Fprintf(&b, "  %s twice%d() { %s late%d() + late%d(); }\n  %s late%d() { %s cell%d; }\n  %s twice%d();\n", F, k, R, k, k, F, k, R, k, P, k)
				}
				b.WriteString(close)
			}
			for k := 0; k < 2*ns; k++ {
				if k%2 == 0 {
					fmt.Fprintf(&b, "%s kept[%d]();\n", P, k)
				} else {
					fmt.Fprintf(&b, "%s kept[%d](%d);\n%s kept[%d]();\n", P, k, 100+k, P, k-1)
				}
			}
			c.c04Program(s, "functions-before-their-variables", place(b.String(), drawPlacement(rt)), true, "functions-first")
		})
		c.Rapid("closures-in-loops", n/2, func(rt *rapid.T, s *Sub) {
			// closures created in loop iterations, recursive calls and blocks: each captures the loop variable (one per
			// loop statement), a per-iteration local and an outer counter; they are stored in arrays/objects and called
			// later in random order, some several times
			P, V, F, R := bn.KwPrint, bn.KwVar, bn.KwFun, bn.KwReturn
			var b strings.Builder
			b.WriteString(V + " rds = [];\n" + V + " bumps = [];\n" + V + " total = 0;\n" + V + " reg = {last: nil};\n")
			n := rapid.IntRange(1, 4).Draw(rt, "iters")
			made := 0
			switch rapid.IntRange(0, 3).Draw(rt, "maker") {
			case 0:
				fmt.Fprintf(&b, "%s (%s i = 0; i < %d; i = i + 1) {\n  %s j = i * 10;\n  %s rd() { %s [i, j, total]; }\n  %s bump() { j = j + 1; total = total + 1; %s j; }\n  rds = %s(rds, rd);\n  bumps = %s(bumps, bump);\n  reg.last = bump;\n}\n",
					bn.KwFor, V, n, V, F, R, F, R, bn.BPush, bn.BPush)
				made = n
			case 1:
				fmt.Fprintf(&b, "%s w = 0;\n%s (w < %d) {\n  w = w + 1;\n  %s j = w * 10;\n  {\n    %s k = j + 1;\n    %s rd() { %s [w, j, k, total]; }\n    %s bump() { k = k + 1; j = j + 100; total = total + 1; %s k; }\n    rds = %s(rds, rd);\n    bumps = %s(bumps, bump);\n    reg.last = bump;\n  }\n}\n",
					V, bn.KwWhile, n, V, V, F, R, F, R, bn.BPush, bn.BPush)
				made = n
			case 2:
				fmt.Fprintf(&b, "%s build(d) {\n  %s j = d * 10;\n  %s rd() { %s [d, j, total]; }\n  %s bump() { j = j + 1; total = total + 1; %s j; }\n  rds = %s(rds, rd);\n  bumps = %s(bumps, bump);\n  reg.last = bump;\n  %s (d > 1) build(d - 1);\n  %s j;\n}\n%s build(%d);\n",
					F, V, F, R, F, R, bn.BPush, bn.BPush, bn.KwIf, R, P, n)
				made = n
			default:
				// the closures are declared directly in the factory body, or inside a nested block / if arm / loop body of it
				open, close := "", ""
				switch rapid.IntRange(0, 3).Draw(rt, "declNesting") {
				case 1:
					open, close = "  {\n", "  }\n"
				case 2:
					open, close = "  "+bn.KwIf+" (seed >= 0) {\n", "  }\n"
				case 3:
					open, close = "  "+bn.KwFor+" ("+V+" once = 0; once < 1; once = once + 1) {\n", "  }\n"
				}
				if open != "" {
					fmt.Fprintf(&b, "%s mk2(seed) {\n  %s j = seed;\n  %s out = nil;\n%s    %s rd() { %s [seed, j, total]; }\n    %s bump() { j = j + 1; total = total + 1; %s j; }\n    out = [rd, bump];\n%s  %s out;\n}\n%s (%s i = 0; i < %d; i = i + 1) {\n  %s pair = mk2(i * 10);\n  rds = %s(rds, pair[0]);\n  bumps = %s(bumps, pair[1]);\n  reg.last = pair[1];\n}\n",
						F, V, V, open, F, R, F, R, close, R, bn.KwFor, V, n, V, bn.BPush, bn.BPush)
					made = n
					break
				}
				fmt.Fprintf(&b, "%s mk2(seed) {\n  %s j = seed;\n  %s rd() { %s [seed, j, total]; }\n  %s bump() { j = j + 1; total = total + 1; %s j; }\n  %s [rd, bump];\n}\n%s (%s i = 0; i < %d; i = i + 1) {\n  %s pair = mk2(i * 10);\n  rds = %s(rds, pair[0]);\n  bumps = %s(bumps, pair[1]);\n  reg.last = pair[1];\n}\n",
					F, V, F, R, F, R, R, bn.KwFor, V, n, V, bn.BPush, bn.BPush)
				made = n
			}
			calls := rapid.IntRange(2, 14).Draw(rt, "calls")
			for c2 := 0; c2 < calls; c2++ {
				k := rapid.IntRange(0, made-1).Draw(rt, "which")
				switch rapid.IntRange(0, 4).Draw(rt, "callKind") {
				case 0, 1:
					fmt.Fprintf(&b, "%s bumps[%d]();\n", P, k)
				case 2:
					fmt.Fprintf(&b, "%s rds[%d]();\n", P, k)
				case 3:
					fmt.Fprintf(&b, "%s reg.last();\n", P)
				default:
					fmt.Fprintf(&b, "%s [rds[%d](), bumps[%d](), rds[%d]()];\n", P, k, k, k)
				}
			}
			for k := 0; k < made; k++ {
				fmt.Fprintf(&b, "%s rds[%d]();\n", P, k)
			}
			b.WriteString(P + " total;\n")
			c.c04Program(s, "closures-in-loops", place(b.String(), drawPlacement(rt)), made >= 2, "closures-in-loops")
		})

		c.Rapid("closure-histories", n, func(rt *rapid.T, s *Sub) {
			var b strings.Builder
			b.WriteString(c04ClosurePrelude)
			nInst := 0
			held := []string{} // expressions denoting stored closures
			steps := rapid.IntRange(2, 30).Draw(rt, "steps")
			interleaved := false
			lastInst := -1
			for i := 0; i < steps; i++ {
				k := rapid.IntRange(0, 9).Draw(rt, "step")
				if nInst == 0 || (k == 0 && nInst < 3) {
					fmt.Fprintf(&b, "%s c%d = mk(%d);\n", bn.KwVar, nInst, 10*(nInst+1))
					nInst++
					continue
				}
				inst := rapid.IntRange(0, nInst-1).Draw(rt, "inst")
				if lastInst >= 0 && inst != lastInst {
					interleaved = true
				}
				lastInst = inst
				meth := rapid.SampledFrom([]string{"inc", "add", "get", "cnt", "reset"}).Draw(rt, "meth")
				arg := ""
				if meth == "add" {
					arg = fmt.Sprint(rapid.IntRange(1, 9).Draw(rt, "k"))
				}
				switch k {
				case 1, 2, 3, 4:
					fmt.Fprintf(&b, "%s c%d.%s(%s);\n", bn.KwPrint, inst, meth, arg)
				case 5:
					idx := map[string]int{"inc": 0, "add": 1, "get": 2, "cnt": 3, "reset": 4}[meth]
					fmt.Fprintf(&b, "%s c%d.all[%d](%s);\n", bn.KwPrint, inst, idx, arg)
				case 6:
					name := fmt.Sprintf("h%d", len(held))
					fmt.Fprintf(&b, "%s %s = c%d.%s;\n", bn.KwVar, name, inst, meth)
					held = append(held, name+"("+arg+")")
				case 7:
					if len(held) > 0 {
						fmt.Fprintf(&b, "%s %s;\n", bn.KwPrint, rapid.SampledFrom(held).Draw(rt, "held"))
					} else {
						fmt.Fprintf(&b, "%s c%d.get();\n", bn.KwPrint, inst)
					}
				case 8:
					fmt.Fprintf(&b, "%s mk(%d).%s(%s);\n", bn.KwPrint, 100+i, meth, arg)
				default:
					fmt.Fprintf(&b, "%s [c%d.get(), c%d.cnt()];\n", bn.KwPrint, inst, inst)
				}
			}
			for i := 0; i < nInst; i++ {
				fmt.Fprintf(&b, "%s [c%d.get(), c%d.cnt()];\n", bn.KwPrint, i, i)
			}
			c.c04Program(s, "closure-histories", place(b.String(), drawPlacement(rt)), interleaved && nInst >= 2, "closure-history")
		})
	})
}

// genHigherOrder: the same call site reaches callees of different arity and kind, one after the other.
func genHigherOrder(rt *rapid.T) string {
	P, F, R := bn.KwPrint, bn.KwFun, bn.KwReturn
	src := F + " a0() { " + R + " \"a0\"; }\n" + F + " a1(p) { " + R + " [\"a1\", p]; }\n" + F + " a2(p, q) { " + R + " [\"a2\", p, q]; }\n" + F + " a3(p, q, r) { " + R + " [\"a3\", p, q, r]; }\n" +
		F + " ap0(f) { " + R + " f(); }\n" + F + " ap1(f) { " + R + " f(10); }\n" + F + " ap2(f) { " + R + " f(1, 2); }\n" + F + " ap3(f) { " + R + " f(7, 8, 9); }\n" +
		bn.KwVar + " tbl = [a0, a1, a2, a3];\n" + bn.KwVar + " reg = {f: a1};\n"
	callees := []string{"a0", "a1", "a2", "a3", bn.BAbs, bn.BMax, bn.BLen, "tbl[1]", "tbl[2]", "reg.f"}
	k := rapid.IntRange(2, 8).Draw(rt, "calls")
	for i := 0; i < k; i++ {
		site := rapid.IntRange(0, 3).Draw(rt, "site")
		var cal string
		if rapid.IntRange(0, 3).Draw(rt, "matching") != 0 {
			// a callee whose arity matches the site (so that the history goes on)
			opts := [][]string{{"a0"}, {"a1", "tbl[1]", "reg.f", bn.BAbs}, {"a2", "tbl[2]", bn.BMax, bn.BPow}, {"a3", bn.BMax, bn.BMin}}[site]
			cal = opts[rapid.IntRange(0, len(opts)-1).Draw(rt, "m")]
		} else {
			cal = rapid.SampledFrom(callees).Draw(rt, "callee")
		}
		src += fmt.Sprintf("%s ap%d(%s);\n", P, site, cal)
		if rapid.IntRange(0, 5).Draw(rt, "rebind") == 0 {
			src += "reg.f = " + rapid.SampledFrom([]string{"a1", "a2", "a0"}).Draw(rt, "nf") + ";\n"
		}
	}
	return src
}
