package checks

import (
	"fmt"
	"sort"
	"strings"
	"testing"

	"pgregory.net/rapid"

	"verifharness/bn"
	"verifharness/model"
)

// C12 — objects are shared key→value maps with consistent read, write,
// delete and listing.

type gObj struct {
	m  map[string]gVal
	id int
}
type gVal struct {
	n   int
	sub *gObj
}

// the last key contains U+09DF, whose NFC form is two code points: printing normalises it, storage must not
var c12Keys = []string{"k", "v", "name", "ক", "n2", "ব\u09dfস", "k2", "k10", "ধাপ২", "ধাপ১০", "K", bn.BLen, bn.BKeys, "nan", "Inf"} // spelled like built-in functions (that bars them as declared names only); spelling special numbers

type c12Gen struct {
	pick   func(string, int) int
	uniq   int
	nextID int
	vars   map[string]*gObj
	names  []string
	b      strings.Builder
	nt     bool
}

func (g *c12Gen) u() int { g.uniq++; return 10 + g.uniq }
func (g *c12Gen) w(format string, a ...interface{}) {
	g.b.WriteString(fmt.Sprintf(format, a...) + "\n")
}

// val: the value stored by the next write — mostly a fresh number, one time
// in four a value of another kind (a property holding nil is still a property).
var c12OddVals = []string{"nil", bn.KwFalse, "f()", "0", bn.KwTrue, "\"s\"", "0.5", "((1 << 62) | 1)", "(~(1 << 63))", "(-0)", "(2 ** 1024)",
	// variables named like property names: a property is not a variable, inside a literal or anywhere else
	"k", "v", "name", "(k + n2)", "(v = v + 1)"}

func (g *c12Gen) val() (string, gVal) {
	if g.pick("valKind", 4) != 1 {
		v := g.u()
		return fmt.Sprint(v), gVal{n: v}
	}
	return c12OddVals[g.pick("oddVal", len(c12OddVals))], gVal{n: -1}
}

func (g *c12Gen) newObj(n int, nested bool) (*gObj, string) {
	g.nextID++
	o := &gObj{m: map[string]gVal{}, id: g.nextID}
	parts := []string{}
	start := g.pick("key0", len(c12Keys))
	for i := 0; i < n; i++ {
		k := c12Keys[(start+i)%len(c12Keys)]
		if nested && g.pick("nested", 6) == 0 {
			sub, txt := g.newObj(1+g.pick("sublen", 2), false)
			o.m[k] = gVal{sub: sub}
			parts = append(parts, k+": "+txt)
		} else if nested && g.pick("arrval", 8) == 0 {
			a, b := g.u(), g.u()
			o.m[k] = gVal{n: -1}
			parts = append(parts, fmt.Sprintf("%s: [%d, %d]", k, a, b))
		} else {
			v, e := g.val()
			o.m[k] = e
			parts = append(parts, fmt.Sprintf("%s: %s", k, v))
		}
	}
	return o, "{" + strings.Join(parts, ", ") + "}"
}

func (g *c12Gen) reaches(from, to *gObj) bool {
	if from == to {
		return true
	}
	for _, v := range from.m {
		if v.sub != nil && g.reaches(v.sub, to) {
			return true
		}
	}
	return false
}

func (g *c12Gen) aliasCount(o *gObj) int {
	n := 0
	for _, nm := range g.names {
		if g.vars[nm] == o {
			n++
		}
		for _, v := range g.vars[nm].m {
			if v.sub == o {
				n++
			}
		}
	}
	return n
}

func (g *c12Gen) keysOf(o *gObj) []string {
	ks := make([]string, 0, len(o.m))
	for k := range o.m {
		ks = append(ks, k)
	}
	sort.Strings(ks)
	return ks
}

func (g *c12Gen) dump() {
	for _, nm := range g.names {
		g.w("%s %s;", bn.KwPrint, nm)
		g.w("%s %s(%s);", bn.KwPrint, bn.BKeys, nm)
		g.w("%s %s(%s);", bn.KwPrint, bn.BValues, nm)
	}
}

func (g *c12Gen) mutated(o *gObj) {
	if g.aliasCount(o) >= 2 && len(o.m) >= 2 {
		g.nt = true
	}
}

func (g *c12Gen) action() {
	x := g.names[g.pick("x", len(g.names))]
	y := g.names[g.pick("y", len(g.names))]
	ox := g.vars[x]
	switch g.pick("action", 15) {
	case 13: // a listing is a value of its own: kept, it does not follow later changes of the object, and changing it does not touch the object
		g.w("snapK = %s(%s);", bn.BKeys, x)
		g.w("snapV = %s(%s);", bn.BValues, x)
		k := c12Keys[g.pick("key", len(c12Keys))]
		v, e := g.val()
		g.w("%s.%s = %s;", x, k, v)
		ox.m[k] = e
		g.mutated(ox)
		g.w("%s snapK;", bn.KwPrint)
		g.w("%s snapV;", bn.KwPrint)
		g.w("%s (%s(snapV) > 0) { snapV[0] = \"overwritten\"; snapK[0] = \"overwritten\"; }", bn.KwIf, bn.BLen)
		g.w("%s snapV;", bn.KwPrint)
		return
	case 14: // the same object as receiver and as value, and as key source
		k := c12Keys[g.pick("key", len(c12Keys))]
		if g.reaches(ox, ox) && false {
			return
		}
		g.w("%s %s(%s(%s)) == %s(%s(%s));", bn.KwPrint, bn.BLen, bn.BKeys, x, bn.BLen, bn.BValues, x)
		g.w("tmpo = {inner: %s, again: %s};", x, x)
		g.w("tmpo.inner.%s = %d;", k, g.u())
		v := g.uniq + 10
		ox.m[k] = gVal{n: v}
		g.mutated(ox)
		g.w("%s tmpo.again.%s;", bn.KwPrint, k)
		g.w("%s tmpo.inner == tmpo.again;", bn.KwPrint)
		return
	case 0:
		o, txt := g.newObj(g.pick("len", 7), true)
		g.vars[x] = o
		g.w("%s = %s;", x, txt)
	case 1:
		g.vars[x] = g.vars[y]
		g.w("%s = %s;", x, y)
	case 2: // nest one object into another
		oy := g.vars[y]
		if g.reaches(oy, ox) {
			g.w("%s %s;", bn.KwPrint, x)
			return
		}
		k := c12Keys[g.pick("key", len(c12Keys))]
		ox.m[k] = gVal{sub: oy}
		g.mutated(ox)
		g.w("%s.%s = %s;", x, k, y)
	case 3: // read a present property
		ks := g.keysOf(ox)
		if len(ks) == 0 {
			g.w("%s %s;", bn.KwPrint, x)
			return
		}
		k := ks[g.pick("present", len(ks))]
		if ox.m[k].sub != nil && g.pick("takeSub", 2) == 0 {
			g.vars[y] = ox.m[k].sub
			g.w("%s = %s.%s;", y, x, k)
		} else {
			g.w("%s %s.%s;", bn.KwPrint, x, k)
		}
	case 4, 5, 6: // write to a new or existing key
		k := c12Keys[g.pick("key", len(c12Keys))]
		v, e := g.val()
		if g.pick("viaFn", 4) == 0 {
			k = "k"
			g.w("setk(%s, %s);", x, v)
		} else {
			g.w("%s.%s = %s;", x, k, v)
		}
		ox.m[k] = e
		g.mutated(ox)
	case 7, 8: // delete a present key
		ks := g.keysOf(ox)
		if len(ks) == 0 {
			g.w("%s %s(%s);", bn.KwPrint, bn.BKeys, x)
			return
		}
		k := ks[g.pick("present", len(ks))]
		delete(ox.m, k)
		g.mutated(ox)
		if g.pick("computed", 2) == 0 && len(k) > 1 {
			g.w("%s(%s, \"%s\" + \"%s\");", bn.BDelKey, x, k[:1], k[1:])
		} else {
			g.w("%s(%s, \"%s\");", bn.BDelKey, x, k)
		}
	case 11:
		// a fresh object from a constant literal (with nested containers) evaluated again and again
		g.nextID += 2
		inner := &gObj{m: map[string]gVal{"n2": {n: 2}}, id: g.nextID - 1}
		g.vars[x] = &gObj{m: map[string]gVal{"k": {n: 1}, "v": {sub: inner}, "name": {n: -1}}, id: g.nextID}
		g.w("%s = mko();", x)
		if g.pick("mutateNested", 2) == 0 {
			v := g.u()
			inner.m["n2"] = gVal{n: v}
			g.w("%s.v.n2 = %d;", x, v)
		} else {
			delete(inner.m, "n2")
			g.w("%s(%s.v, \"n2\");", bn.BDelKey, x)
		}
		g.w("%s mko();", bn.KwPrint)
	case 9:
		if g.pick("boxOrList", 2) == 0 {
			// keep an object in an array element and reach it through the element
			k := c12Keys[g.pick("key", len(c12Keys))]
			v, e := g.val()
			g.w("box[0] = %s;", x)
			g.w("%s = box[0];", y)
			g.vars[y] = ox
			g.w("box[0].%s = %s;", k, v)
			ox.m[k] = e
			g.mutated(ox)
			return
		}
		// list twice in a row
		g.w("%s %s(%s);", bn.KwPrint, bn.BKeys, x)
		g.w("%s %s(%s);", bn.KwPrint, bn.BKeys, x)
		g.w("%s %s(%s);", bn.KwPrint, bn.BValues, x)
		g.w("%s %s(%s);", bn.KwPrint, bn.BValues, x)
	case 10:
		g.w("%s %s(%s(%s));", bn.KwPrint, bn.BLen, bn.BKeys, x)
	default:
		g.w("%s %s;", bn.KwPrint, x)
	}
}

var c12Faults = []string{"%s.absent", "%s.absent.deeper", "%s.absent = %s.absent2", "5 .k", "nil.k", "\"s\".k", "[1].k", bn.KwTrue + ".k", "5 .k = 1", "nil.k = 1", "[1].k = 1",
	bn.BDelKey + "(%s, \"absent\")", bn.BDelKey + "(5, \"k\")", bn.BDelKey + "([1], \"k\")", bn.BDelKey + "(%s, 5)", bn.BDelKey + "(%s, nil)", bn.BDelKey + "(%s)", bn.BDelKey + "(%s, \"k\", 1)",
	bn.BKeys + "(5)", bn.BKeys + "([1])", bn.BKeys + "()", bn.BValues + "(nil)", bn.BValues + "(\"s\")", bn.BValues + "(%s, %s)", "f.k", bn.BLen + ".k"}

func (g *c12Gen) program(nActions, fault int) string {
	g.vars = map[string]*gObj{}
	g.names = []string{"P", "Q", "R"}
	g.w("%s k = 70, v = 71, name = 72, n2 = 73;", bn.KwVar)
	g.w("%s snapK = nil, snapV = nil, tmpo = nil;", bn.KwVar)
	g.w("%s setk(o, v) { o.k = v; }", bn.KwFun)
	g.w("%s f() { }", bn.KwFun)
	g.w("%s box = [nil];", bn.KwVar)
	g.w("%s mko() { %s {k: 1, v: {n2: 2}, name: [3, 4]}; }", bn.KwFun, bn.KwReturn)
	op, tp := g.newObj(1+g.pick("len", 4), false)
	oq, tq := g.newObj(g.pick("len", 4), false)
	g.vars["P"], g.vars["Q"], g.vars["R"] = op, oq, op
	g.w("%s P = %s;", bn.KwVar, tp)
	g.w("%s Q = %s;", bn.KwVar, tq)
	g.w("%s R = P;", bn.KwVar)
	g.dump()
	for i := 0; i < nActions; i++ {
		g.action()
		g.dump()
	}
	if fault >= 0 {
		f := c12Faults[fault%len(c12Faults)]
		x := g.names[g.pick("x", len(g.names))]
		f = strings.ReplaceAll(f, "%s", x)
		g.w("%s \"before-fault\";", bn.KwPrint)
		g.w("%s %s;", bn.KwPrint, f)
		g.w("%s \"after-fault\";", bn.KwPrint)
		g.dump()
	}
	return g.b.String()
}

// c12Listings checks, without the model, the listing clauses on the actual
// output: consecutive `দেখাও অব্জেক্ট_কি(X); দেখাও অব্জেক্ট_মান(X);` lines must be
// mutually consistent with the object printed just before them.
func c12Listings(src, out string) string {
	srcLines := strings.Split(strings.TrimSuffix(src, "\n"), "\n")
	outLines := strings.Split(strings.TrimSuffix(out, "\n"), "\n")
	// map print statements to output lines: valid only when every print yields exactly one line and no loops
	var prints []string
	for _, l := range srcLines {
		t := strings.TrimSpace(l)
		if strings.HasPrefix(t, bn.KwPrint+" ") {
			prints = append(prints, strings.TrimSuffix(strings.TrimPrefix(t, bn.KwPrint+" "), ";"))
		}
	}
	if len(prints) < len(outLines) {
		return ""
	}
	tok := func(line string) []string {
		line = strings.ReplaceAll(line, "map[", " ")
		line = strings.NewReplacer("[", " ", "]", " ", "{", " ", "}", " ", ",", " ").Replace(line)
		return strings.Fields(line)
	}
	for i := 0; i+2 < len(outLines); i++ {
		name := prints[i]
		if len(name) != 1 || prints[i+1] != bn.BKeys+"("+name+")" || prints[i+2] != bn.BValues+"("+name+")" {
			continue
		}
		obj, keys, vals := strings.ReplaceAll(outLines[i], ": ", ":"), tok(outLines[i+1]), outLines[i+2]
		if strings.Contains(obj, "map[") && strings.Count(obj, "map[") > 1 || strings.Contains(obj, "[") && strings.Count(obj, "[") > 1 {
			continue // nested containers: flat token comparison would be ambiguous
		}
		valToks := tok(vals)
		if len(keys) != len(valToks) {
			return fmt.Sprintf("listing of %s: %d keys but %d values (%q / %q)", name, len(keys), len(valToks), outLines[i+1], vals)
		}
		seen := map[string]bool{}
		for j, k := range keys {
			if seen[k] {
				return fmt.Sprintf("listing of %s: key %q listed twice (%q)", name, k, outLines[i+1])
			}
			seen[k] = true
			if !strings.Contains(" "+strings.NewReplacer("map[", " ", "]", " ", "{", " ", "}", " ", ",", " ").Replace(obj)+" ", " "+k+":"+valToks[j]+" ") {
				return fmt.Sprintf("listing of %s: the %d-th value %q is not the value of the %d-th key %q in %q", name, j, valToks[j], j, k, obj)
			}
		}
	}
	// two consecutive listings of an unmodified object are identical
	for i := 0; i+1 < len(outLines); i++ {
		if prints[i] == prints[i+1] && (strings.HasPrefix(prints[i], bn.BKeys+"(") || strings.HasPrefix(prints[i], bn.BValues+"(")) && outLines[i] != outLines[i+1] {
			return fmt.Sprintf("two consecutive listings %s of an unmodified object differ: %q then %q", prints[i], outLines[i], outLines[i+1])
		}
	}
	return ""
}

func (c *Ctx) c12Program(s *Sub, sub, src string, nt bool, labels ...string) {
	mc := c.runModelCase(s, src, "", model.Options{MaxSteps: 60000}, judgeOpts{checkLine: true, checkKind: true})
	if mc.Res.Outcome == model.OverBudget {
		return
	}
	labels = append(labels, "outcome-"+mc.Res.Outcome.String())
	if mc.Res.Outcome == model.RuntimeError {
		labels = append(labels, "error-"+mc.Res.ErrKind)
	}
	for _, t := range []string{"delete-key", "prop-store", "listing"} {
		if mc.Res.Tags[t] > 0 {
			labels = append(labels, "uses-"+t)
		}
	}
	c.Ev.Case(sub, src, nt, labels...)
	if mc.Sig != "" {
		s.Violation(mc.replay("objects"))
	}
	if mc.Resp.Class() == "clean" {
		if why := c12Listings(src, mc.Resp.Out); why != "" {
			s.Violation(Replay{Check: "objects", Sig: "listing-consistency", Source: src, Note: why, Observed: clip(mc.Resp.Out, 1500)})
		}
	}
}

var c12Small = map[string]int{"valKind": 2, "oddVal": 2, "x": 2, "y": 2, "nested": 1, "arrval": 1, "sublen": 1, "len": 3, "key0": 2, "key": 2, "present": 2, "takeSub": 1, "viaFn": 2, "computed": 2}

func TestC12(t *testing.T) {
	Main(t, "C12", func(c *Ctx) {
		c.OnReplay("objects", func(s *Sub, rp *Replay) { c.c12Program(s, "replay", rp.Source, true) })
		c.OnReplay("names", func(s *Sub, rp *Replay) { c.c15EquivalentNames(s, "names") })
		c.ReplayTier()

		// names that some normalisation or case folding would identify are different keys: an object given both has both
		c.Sub("equivalent-property-names", func(s *Sub) { c.c15EquivalentNames(s, "names") })

		c.Sub("faults", func(s *Sub) {
			if c.Shard != 0 {
				return
			}
			for f := range c12Faults {
				g := &c12Gen{pick: func(string, int) int { return 0 }}
				c.c12Program(s, "faults", g.program(0, f), true, "final-fault")
				g2 := &c12Gen{pick: func(l string, n int) int { return (f + len(l)) % n }}
				c.c12Program(s, "faults", g2.program(2, f), true, "final-fault")
			}
			c.Ev.MarkExhaustive(fmt.Sprintf("every one of %d faulting object operations after a short history", len(c12Faults)))
		})
		c.Sub("literals", func(s *Sub) {
			if c.Shard != 0 {
				return
			}
			// literal with 0..6 distinct keys yields exactly its listed properties
			for n := 0; n <= 6; n++ {
				for rot := 0; rot < len(c12Keys); rot++ {
					parts := []string{}
					for i := 0; i < n; i++ {
						parts = append(parts, fmt.Sprintf("%s: %d", c12Keys[(rot+i)%len(c12Keys)], 100+i))
					}
					src := bn.KwVar + " o = {" + strings.Join(parts, ", ") + "};\n" + bn.KwPrint + " o;\n" + bn.KwPrint + " " + bn.BKeys + "(o);\n" + bn.KwPrint + " " + bn.BValues + "(o);\n" +
						bn.KwPrint + " " + bn.BLen + "(" + bn.BKeys + "(o));\n"
					for i := 0; i < n; i++ {
						src += fmt.Sprintf("%s o.%s;\n", bn.KwPrint, c12Keys[(rot+i)%len(c12Keys)])
					}
					c.c12Program(s, "literals", src, n >= 2, "literal")
				}
			}
			c.Ev.MarkExhaustive("object literals with 0..6 distinct keys in every rotation of the key pool")
		})
		nAct, maxLeaves := 2, int64(60000)
		if c.Thorough {
			nAct, maxLeaves = 3, 1500000
		}
		c.Sub("enum-histories", func(s *Sub) {
			withSmall(c12Small, func() {
				var src string
				var nt bool
				var total int64
				complete := walkDecisions(maxLeaves, func(pick func(string, int) int) {
					g := &c12Gen{pick: pick}
					src = g.program(nAct, -1)
					nt = g.nt
				}, func(k int64) {
					total = k
					if c.Mine(k) {
						c.c12Program(s, "enum-histories", src, nt)
					}
				})
				if complete {
					c.Ev.MarkExhaustive(fmt.Sprintf("every history of %d actions over the reduced decision alphabet (12 action forms on objects with shared ancestry): %d programs", nAct, total))
				} else {
					c.Ev.Note(fmt.Sprintf("enum-histories: walk stopped at %d programs (not exhaustive)", total))
				}
			})
		})
		n := 2000
		if c.Thorough {
			n = 30000
		}
		c.Sub("scale", func(s *Sub) {
			if c.Shard != 0 {
				return
			}
			c.stepOverride = 40000000
			defer func() { c.stepOverride = 0 }()
			for _, n := range c.scaleSizes([]int{100, 1000}, []int{5000, 20000}) {
				c.c12Program(s, "scale", scaleKeys(n), true, "scale-keys")
			}
			// objects nested inside one another, hundreds to thousands deep: printing shows every level
			c.depthOverride = 60000
			defer func() { c.depthOverride = 0 }()
			for _, n := range c.scaleSizes([]int{64, 65, 999, 1000, 1001, 1002, 3000}, []int{10000}) {
				c.c12Program(s, "scale", scaleNestedObjects(n), true, "scale-nesting")
			}
		})
		c.Rapid("self-containing-unprinted", n/4, func(rt *rapid.T, s *Sub) {
			src, nt := cyclicProgram(rt, true)
			c.c12Program(s, "self-containing-unprinted", src, nt, "cyclic-objects")
		})
		c.Rapid("rand-histories", n, func(rt *rapid.T, s *Sub) {
			g := &c12Gen{pick: func(label string, n int) int { return rapid.IntRange(0, n-1).Draw(rt, label) }}
			fault := -1
			if rapid.IntRange(0, 3).Draw(rt, "withFault") == 0 {
				fault = rapid.IntRange(0, len(c12Faults)-1).Draw(rt, "fault")
			}
			src := g.program(rapid.IntRange(3, 30).Draw(rt, "actions"), fault)
			pl := drawPlacement(rt)
			c.c12Program(s, "rand-histories", place(src, pl), g.nt, "placed-"+placementNames[pl])
		})
	})
}
