package checks

import (
	"fmt"
	"math"
	"math/big"
	"strconv"
	"strings"
	"testing"

	"pgregory.net/rapid"

	"github.com/ah-naf/borno/utils"

	"verifharness/bn"
	"verifharness/reflex"
)

// C10 — numeric literals denote the correctly rounded value in either script.

func banglaDigit(d int) rune { return rune(0x09E6 + d) }

// renderDigits writes digit values with a script mask (bit i set = Bangla).
func renderDigits(id, fd []int, mask uint64) string {
	var b strings.Builder
	k := 0
	put := func(d int) {
		if mask>>(uint(k)%64)&1 == 1 {
			b.WriteRune(banglaDigit(d))
		} else {
			b.WriteByte(byte('0' + d))
		}
		k++
	}
	for _, d := range id {
		put(d)
	}
	if len(fd) > 0 {
		b.WriteByte('.')
		for _, d := range fd {
			put(d)
		}
	}
	return b.String()
}

// c10Literal checks one literal text: the token the real lexer produces (or the
// diagnostic), bit for bit against the exact-rational oracle.
func (c *Ctx) c10Literal(s *Sub, sub, lit string, id, fd []int, enum, nt bool, cls string) {
	want, ok := reflex.NumberValue(id, fd)
	src := []rune(lit)
	fr := c.realLex(src)
	if enum {
		c.Ev.EnumCase(sub, nt, func() string { return lit }, cls)
	} else {
		c.Ev.Case(sub, lit, nt, cls)
	}
	fail := func(sig, msg string) {
		exp := "diagnostic, no NUMBER token"
		if ok {
			exp = fmt.Sprintf("NUMBER %v (bits %016x)", want, math.Float64bits(want))
		}
		s.Violation(Replay{Check: "literal", Sig: sig, Source: lit, Note: msg, Expected: exp, Observed: tokensText(fr.Toks) + " stderr=" + fr.Stderr})
	}
	if fr.Panic != "" {
		fail("panic", "lexer panicked: "+fr.Panic)
	}
	if !ok {
		if !fr.HadError || len(diagLines(fr.Stderr)) == 0 {
			fail("overflow-silent", "a literal too large for a double was accepted without a diagnostic")
		}
		for _, t := range fr.Toks {
			if kindOf[t.Type] == bn.TNumber {
				fail("overflow-token", "a literal too large for a double produced a NUMBER token")
			}
		}
		return
	}
	if fr.HadError || len(fr.Toks) != 2 || kindOf[fr.Toks[0].Type] != bn.TNumber {
		fail("not-number", "a digit string did not lex as exactly one NUMBER token")
	}
	got, isNum := litNumber(fr.Toks[0].Literal)
	if !isNum || math.Float64bits(got) != math.Float64bits(want) {
		fail("value", fmt.Sprintf("literal value %v differs from the nearest double %v of the exact decimal", fr.Toks[0].Literal, want))
	}
	if fr.Toks[0].Lexeme != lit {
		fail("lexeme", "NUMBER lexeme is not the literal text")
	}
}

// c10Print checks that `দেখাও <literal>;` prints a numeral that reads back to
// the oracle value.
func (c *Ctx) c10Print(s *Sub, lit string, want float64) {
	src := bn.KwPrint + " " + lit + ";"
	r := c.RunB(src, "")
	c.Ev.Class("printed")
	out := strings.TrimSuffix(r.Out, "\n")
	back, err := strconv.ParseFloat(out, 64)
	if r.Class() != "clean" || err != nil || math.Float64bits(back) != math.Float64bits(want) {
		s.Violation(Replay{Check: "print", Sig: "print-readback", Source: src, Note: "printing a literal does not read back to the nearest double of its exact decimal value",
			Expected: fmt.Sprintf("%v", want), Observed: r.Describe()})
	}
}

func digitsOf(n, width int) []int {
	d := make([]int, width)
	for i := width - 1; i >= 0; i-- {
		d[i] = n % 10
		n /= 10
	}
	return d
}

// exactDecimal returns the integer and fraction digits of a non-negative
// rational with a power-of-two denominator.
func exactDecimal(r *big.Rat) (id, fd []int) {
	s := r.FloatString(1100)
	s = strings.TrimRight(s, "0")
	parts := strings.SplitN(s, ".", 2)
	for _, ch := range parts[0] {
		id = append(id, int(ch-'0'))
	}
	if len(parts) > 1 {
		for _, ch := range parts[1] {
			fd = append(fd, int(ch-'0'))
		}
	}
	return
}

// bump adds delta (±1) in the last written digit place of id.fd.
func bump(id, fd []int, delta int) ([]int, []int) {
	all := append(append([]int{}, id...), fd...)
	n := new(big.Int)
	for _, d := range all {
		n.Mul(n, big.NewInt(10))
		n.Add(n, big.NewInt(int64(d)))
	}
	n.Add(n, big.NewInt(int64(delta)))
	if n.Sign() < 0 {
		return id, fd
	}
	s := n.String()
	for len(s) < len(all) {
		s = "0" + s
	}
	var out []int
	for _, ch := range s {
		out = append(out, int(ch-'0'))
	}
	cut := len(out) - len(fd)
	return out[:cut], out[cut:]
}

func TestC10(t *testing.T) {
	Main(t, "C10", func(c *Ctx) {
		c.OnReplay("literal", func(s *Sub, rp *Replay) {
			var id, fd []int
			frac := false
			for _, r := range rp.Source {
				if r == '.' {
					frac = true
					continue
				}
				d := reflex.DigitValue(r)
				if d < 0 {
					s.Harness("replay literal %q is not a digit string", rp.Source)
				}
				if frac {
					fd = append(fd, d)
				} else {
					id = append(id, d)
				}
			}
			c.c10Literal(s, "replay", rp.Source, id, fd, false, true, "replay")
		})
		c.OnReplay("translit", func(s *Sub, rp *Replay) {
			if got := utils.ConvertBanglaDigitsToASCII(rp.Source); got != rp.Expected {
				s.Violation(Replay{Check: "translit", Sig: "translit", Source: rp.Source, Expected: rp.Expected, Observed: got})
			}
		})
		c.OnReplay("print", func(s *Sub, rp *Replay) {
			lit := strings.TrimSuffix(strings.TrimPrefix(rp.Source, bn.KwPrint+" "), ";")
			ref := reflex.Lex([]rune(lit))
			if len(ref.Toks) != 2 || ref.Toks[0].Kind != bn.TNumber {
				s.Harness("replay print literal %q", lit)
			}
			c.c10Print(s, lit, ref.Toks[0].Num)
		})
		c.OnReplay("shape", func(s *Sub, rp *Replay) { c.c09One(s, "replay", []rune(rp.Source), false) })
		c.ReplayTier()

		c.Sub("codepoints", func(s *Sub) {
			var k int64
			for r := rune(0); r <= 0x10FFFF; r++ {
				if r >= 0xD800 && r <= 0xDFFF {
					continue
				}
				k++
				if !c.Mine(k) {
					continue
				}
				in := string(r)
				want := in
				d := reflex.DigitValue(r)
				if r >= 0x09E6 && r <= 0x09EF {
					want = string(rune('0' + d))
				}
				c.Ev.EnumCase("codepoints", d >= 0 || (r >= 0x0900 && r <= 0x0A00), func() string { return fmt.Sprintf("U+%04X", r) }, "codepoint")
				translit := func(x string) (out string) {
					defer func() {
						if rec := recover(); rec != nil {
							out = fmt.Sprintf("<panic: %v>", rec)
						}
					}()
					return utils.ConvertBanglaDigitsToASCII(x)
				}
				if got := translit(in); got != want {
					s.Violation(Replay{Check: "translit", Sig: "translit", Source: in, Note: fmt.Sprintf("transliteration of U+%04X", r), Expected: want, Observed: got})
				}
				// embedded: must leave neighbours alone
				in3 := "x" + in + "৭"
				want3 := "x" + want + "7"
				if got := translit(in3); got != want3 {
					s.Violation(Replay{Check: "translit", Sig: "translit", Source: in3, Note: fmt.Sprintf("transliteration around U+%04X", r), Expected: want3, Observed: got})
				}
				// classification: the code point starts a NUMBER iff it is one of the twenty digits
				fr := c.realLex([]rune{r})
				isNum := len(fr.Toks) == 2 && kindOf[fr.Toks[0].Type] == bn.TNumber
				if isNum != (d >= 0) || fr.Panic != "" {
					s.Violation(Replay{Check: "shape", Sig: "digit-class", Source: in, Note: fmt.Sprintf("U+%04X lexes as NUMBER: %v, is one of the twenty digits: %v", r, isNum, d >= 0)})
				}
				if isNum {
					if v, _ := litNumber(fr.Toks[0].Literal); v != float64(d) {
						s.Violation(Replay{Check: "shape", Sig: "digit-value", Source: in, Note: "single digit value", Expected: fmt.Sprint(d), Observed: fmt.Sprint(fr.Toks[0].Literal)})
					}
				}
			}
			c.Ev.MarkExhaustive("every Unicode scalar value: transliteration alone and embedded, NUMBER classification")
		})

		maxLen := 4
		if c.Thorough {
			maxLen = 6
		}
		c.Sub("enum-literals", func(s *Sub) {
			var k int64
			p10 := []int{1, 10, 100, 1000, 10000, 100000, 1000000}
			for total := 1; total <= maxLen; total++ {
				for il := 1; il <= total; il++ {
					fl := total - il
					for n := 0; n < p10[total]; n++ {
						k++
						if !c.Mine(k) {
							continue
						}
						ds := digitsOf(n, total)
						id, fd := ds[:il], ds[il:]
						masks := []uint64{0, ^uint64(0)}
						if total <= 4 {
							masks = masks[:0]
							for m := uint64(0); m < 1<<uint(total); m++ {
								masks = append(masks, m)
							}
						}
						for _, m := range masks {
							lit := renderDigits(id, fd, m)
							nt := fl > 0 || (m != 0 && m != ^uint64(0) && m != (1<<uint(total))-1)
							c.c10Literal(s, "enum-literals", lit, id, fd, true, nt, "short-literal")
						}
						if k%97 == 0 {
							want, _ := reflex.NumberValue(id, fd)
							c.c10Print(s, renderDigits(id, fd, uint64(k)), want)
						}
					}
				}
			}
			c.Ev.MarkExhaustive(fmt.Sprintf("every literal of <= %d digits with every position of the point, in ASCII, in Bangla and (<= 4 digits) every script mixture", maxLen))
		})

		c.Sub("shapes", func(s *Sub) {
			if c.Shard != 0 {
				return
			}
			shapes := []string{"12.", "12.a", "12..5", "1.5.5", "১২.", "১২.৫.৬", ".5", "1.x", "12.;", "1 .5", "1. 5", "5.৫", "৫.5",
				"१२", "١٢", "1१", "１２", "1e5", "1E5", "0x10", "1_000", "00012", "0.000", "000.5",
				strings.Repeat("9", 308), strings.Repeat("9", 309), "1" + strings.Repeat("0", 308), "1" + strings.Repeat("0", 309), strings.Repeat("৯", 310),
				"179769313486231570814527423731704356798070567525844996598917476803157260780028538760589558632766878171540458953514382464234321326889464182768467546703537516986049910576551282076245490090389328944075868508455133942304583236903222948165808559332123348274797826204144723168738177180919299881250404026184124858368",
				"179769313486231580793728971405303415079934132710037826936173778980444968292764750946649017977587207096330286416692887910946555547851940402630657488671505820681908902000708383676273854845817711531764475730270069855571366959622842914819860834936475292719074168444365510704342711559699508093042880177904174497791",
				"179769313486231580793728971405303415079934132710037826936173778980444968292764750946649017977587207096330286416692887910946555547851940402630657488671505820681908902000708383676273854845817711531764475730270069855571366959622842914819860834936475292719074168444365510704342711559699508093042880177904174497792",
				strings.Repeat("0", 310) + "1.5", strings.Repeat("০", 310) + "১.৫", "০" + strings.Repeat("0", 320) + "7", "0" + strings.Repeat("০", 320) + "7", strings.Repeat("০", 50) + strings.Repeat("9", 308),
				"0." + strings.Repeat("0", 323) + "2", "0." + strings.Repeat("0", 323) + "25", "0." + strings.Repeat("0", 330) + "1",
			}
			for _, sh := range shapes {
				c.c09One(s, "shapes", []rune(sh), false)
				c.c09One(s, "shapes", []rune(bn.KwPrint+" "+sh+";"), false)
			}
		})

		n := 1500
		if c.Thorough {
			n = 30000
		}
		c.Rapid("rand-literals", n, func(rt *rapid.T, s *Sub) {
			var id, fd []int
			cls := ""
			lead := 0
			if rapid.IntRange(0, 3).Draw(rt, "leadingZeros") == 0 {
				// leading zeros (in either script) do not change the value, however many there are
				lead = rapid.IntRange(1, 400).Draw(rt, "nlead")
			}
			switch rapid.IntRange(0, 5).Draw(rt, "family") {
			case 0: // long random digits
				cls = "long-random"
				il := rapid.IntRange(1, 400).Draw(rt, "il")
				fl := rapid.IntRange(0, 1100).Draw(rt, "fl")
				if rapid.Bool().Draw(rt, "shortfrac") {
					fl = rapid.IntRange(0, 30).Draw(rt, "fl2")
				}
				if rapid.Bool().Draw(rt, "shortint") {
					il = rapid.IntRange(1, 25).Draw(rt, "il2")
				}
				for i := 0; i < il; i++ {
					id = append(id, rapid.IntRange(0, 9).Draw(rt, "d"))
				}
				for i := 0; i < fl; i++ {
					fd = append(fd, rapid.IntRange(0, 9).Draw(rt, "d"))
				}
			case 1, 2: // halfway between adjacent doubles, and its neighbours
				cls = "halfway"
				bits := rapid.Uint64Range(0, 0x7FEFFFFFFFFFFFFE).Draw(rt, "bits")
				if rapid.Bool().Draw(rt, "moderate") {
					// exponent near 1 so the decimal is short
					bits = (uint64(rapid.IntRange(1023-60, 1023+70).Draw(rt, "exp")) << 52) | (bits & (1<<52 - 1))
				}
				lo := math.Float64frombits(bits)
				hi := math.Float64frombits(bits + 1)
				mid := new(big.Rat).Add(new(big.Rat).SetFloat64(lo), new(big.Rat).SetFloat64(hi))
				mid.Quo(mid, big.NewRat(2, 1))
				id, fd = exactDecimal(mid)
				switch rapid.IntRange(0, 3).Draw(rt, "nbr") {
				case 1:
					id, fd = bump(id, fd, 1)
					cls = "halfway+1"
				case 2:
					id, fd = bump(id, fd, -1)
					cls = "halfway-1"
				case 3:
					fd = append(fd, 0, 0, rapid.IntRange(1, 9).Draw(rt, "tail"))
					cls = "halfway+tail"
				}
			case 3: // exact shortest representation of a random double, 15-17 digits
				cls = "shortest-repr"
				bits := rapid.Uint64Range(1, 0x7FEFFFFFFFFFFFFF).Draw(rt, "bits")
				if rapid.Bool().Draw(rt, "moderate") {
					bits = (uint64(rapid.IntRange(1023-40, 1023+60).Draw(rt, "exp")) << 52) | (bits & (1<<52 - 1))
				}
				txt := strconv.FormatFloat(math.Float64frombits(bits), 'f', -1, 64)
				parts := strings.SplitN(txt, ".", 2)
				for _, ch := range parts[0] {
					id = append(id, int(ch-'0'))
				}
				if len(parts) > 1 {
					for _, ch := range parts[1] {
						fd = append(fd, int(ch-'0'))
					}
				}
			case 4: // overflow threshold 2^1024 - 2^970 and neighbours
				cls = "overflow-threshold"
				th := new(big.Int).Lsh(big.NewInt(1), 1024)
				th.Sub(th, new(big.Int).Lsh(big.NewInt(1), 970))
				th.Add(th, big.NewInt(int64(rapid.IntRange(-3, 3).Draw(rt, "delta"))))
				for _, ch := range th.String() {
					id = append(id, int(ch-'0'))
				}
				if rapid.Bool().Draw(rt, "frac") {
					fd = []int{rapid.IntRange(0, 9).Draw(rt, "f")}
				}
			case 5: // subnormal neighbourhood
				cls = "subnormal"
				bits := rapid.Uint64Range(0, 1<<20).Draw(rt, "bits")
				lo := math.Float64frombits(bits)
				hi := math.Float64frombits(bits + 1)
				mid := new(big.Rat).Add(new(big.Rat).SetFloat64(lo), new(big.Rat).SetFloat64(hi))
				mid.Quo(mid, big.NewRat(2, 1))
				id, fd = exactDecimal(mid)
				if len(fd) > 1100 {
					fd = fd[:1100]
				}
				switch rapid.IntRange(0, 2).Draw(rt, "nbr") {
				case 1:
					id, fd = bump(id, fd, 1)
				case 2:
					id, fd = bump(id, fd, -1)
				}
			}
			if len(id) == 0 {
				id = []int{0}
			}
			if lead > 0 {
				id = append(make([]int, lead), id...)
				cls += "/leading-zeros"
			}
			mask := rapid.Uint64().Draw(rt, "mask")
			switch rapid.IntRange(0, 2).Draw(rt, "script") {
			case 0:
				mask = 0
			case 1:
				mask = ^uint64(0)
			}
			lit := renderDigits(id, fd, mask)
			c.c10Literal(s, "rand-literals", lit, id, fd, false, true, cls)
			// script swap leaves the value unchanged: compare against a second rendering
			lit2 := renderDigits(id, fd, ^mask)
			c.c10Literal(s, "rand-literals", lit2, id, fd, false, true, cls+"/swapped")
			if want, ok := reflex.NumberValue(id, fd); ok && len(lit) < 3000 {
				c.c10Print(s, lit, want)
			}
		})
	})
}
