package checks

// realStringLiteral builds the host value the implementation's lexer attaches
// to a STRING token, so that hand-built token lists look like lexed ones.
func realStringLiteral(s string) interface{} {
	return stringLiteralProbe(s)
}
