package checks

import (
	"fmt"
	"strings"

	"github.com/ah-naf/borno/token"

	"verifharness/bn"
	"verifharness/reflex"
	"verifharness/refparse"
	"verifharness/run"
)

// lexRef returns the value of a number spelling by the reference rules.
func lexRef(text string) float64 {
	r := reflex.Lex([]rune(text))
	if len(r.Toks) != 2 || r.Toks[0].Kind != bn.TNumber {
		panic("lexRef: not a number literal: " + text)
	}
	return r.Toks[0].Num
}

var realTypeOf = func() map[bn.TokKind]token.TokenType {
	m := map[bn.TokKind]token.TokenType{}
	for k, v := range kindOf {
		m[v] = k
	}
	return m
}()

// toRealTokens converts reference tokens (ending in EOF) into the
// implementation's token type, for feeding the real parser directly.
func toRealTokens(toks []bn.Tok) []token.Token {
	out := make([]token.Token, len(toks))
	for i, t := range toks {
		rt := token.Token{Type: realTypeOf[t.Kind], Lexeme: t.Text, Line: t.Line}
		switch t.Kind {
		case bn.TNumber:
			rt.Literal = t.Num
		case bn.TString:
			rt.Literal = realStringLiteral(t.Str)
		}
		out[i] = rt
	}
	return out
}

// frontVerdict is the outcome of judging one text/token list against the
// reference front end.
type frontVerdict struct {
	sig, msg string
}

// judgeFront compares what the real front end did (fr) with the reference
// lexer result and parser result for the same input.  lexed says whether fr
// includes the real lexer's work (text input) or only parsing (token input).
// newlines is the number of newlines of the text (for the line-range clause).
func judgeFront(fr *frontResult, ref *reflex.Result, rp *refparse.Result, toks []bn.Tok, maxLine int) (sig, msg string) {
	if fr.Panic != "" {
		return "panic", "the front end panicked: " + fr.Panic
	}
	dl := diagLines(fr.Stderr)
	if fr.HadError != (len(dl) > 0) {
		return "flag-vs-diag", fmt.Sprintf("error flag %v but %d diagnostics on stderr", fr.HadError, len(dl))
	}
	rejected := fr.HadError
	if rejected {
		ln := run.DiagLine(dl[0])
		if ln < 1 || ln > maxLine {
			return "line-range", fmt.Sprintf("first diagnostic %q names line %d, the text has lines 1..%d", dl[0], ln, maxLine)
		}
	}
	lexErr := ref != nil && len(ref.Diags) > 0
	if rp.OODVarBreak || rp.OODTrailingComma {
		return "", ""
	}
	wantAccept := !lexErr && rp.OK
	if wantAccept && rejected {
		return "valid-rejected", fmt.Sprintf("a text derivable from the grammar was rejected: %q", dl[0])
	}
	if !wantAccept && !rejected {
		why := "lexical error"
		if !lexErr {
			why = fmt.Sprintf("first non-viable token #%d %q on line %d", rp.ErrTok, toks[rp.ErrTok].Text, toks[rp.ErrTok].Line)
		}
		return "invalid-accepted", "a text not derivable from the grammar was accepted (" + why + ")"
	}
	if rejected && !lexErr {
		ln := run.DiagLine(dl[0])
		want := toks[rp.ErrTok].Line
		switch {
		case rp.ErrAssignTarget:
			if ln < want {
				return "line-assign", fmt.Sprintf("invalid assignment target diagnosed on line %d, left of its `=` on line %d", ln, want)
			}
		case rp.ErrParamLimit:
			if ln != want {
				return "line-param", fmt.Sprintf("more than 255 parameters diagnosed on line %d; the comma behind the 255th parameter, the first token no valid program continues, is on line %d", ln, want)
			}
		default:
			if ln != want {
				return "line", fmt.Sprintf("first diagnostic %q names line %d; the first token at which the text stops being a valid prefix is #%d %q on line %d", dl[0], ln, rp.ErrTok, toks[rp.ErrTok].Text, want)
			}
		}
	}
	return "", ""
}

func tokListText(toks []bn.Tok) string {
	var b strings.Builder
	line := 1
	for i, t := range toks {
		if t.Kind == bn.TEOF {
			break
		}
		for line < t.Line {
			b.WriteByte('\n')
			line++
		}
		if i > 0 && toks[i-1].Line == t.Line {
			b.WriteByte(' ')
		}
		b.WriteString(t.Text)
		line += strings.Count(t.Text, "\n")
	}
	return b.String()
}

// alphaTok is a token of the enumeration alphabet.
type alphaTok struct {
	Kind bn.TokKind
	Text string
	Num  float64
	Str  string
}

var tokenAlphabet = []alphaTok{
	{Kind: bn.TIdent, Text: "a"}, {Kind: bn.TIdent, Text: "b"}, {Kind: bn.TIdent, Text: bn.BLen},
	{Kind: bn.TNumber, Text: "1", Num: 1}, {Kind: bn.TString, Text: "\"s\"", Str: "s"},
	{Kind: bn.TTrue, Text: bn.KwTrue}, {Kind: bn.TNil, Text: bn.KwNil},
	{Kind: bn.TOrOr, Text: bn.KwOr}, {Kind: bn.TAndAnd, Text: "&&"}, {Kind: bn.TPipe, Text: "|"}, {Kind: bn.TCaret, Text: "^"}, {Kind: bn.TAmp, Text: "&"},
	{Kind: bn.TEqEq, Text: "=="}, {Kind: bn.TLt, Text: "<"}, {Kind: bn.TShl, Text: "<<"}, {Kind: bn.TPlus, Text: "+"}, {Kind: bn.TMinus, Text: "-"},
	{Kind: bn.TStar, Text: "*"}, {Kind: bn.TStarStar, Text: "**"}, {Kind: bn.TBang, Text: "!"}, {Kind: bn.TTilde, Text: "~"},
	{Kind: bn.TEq, Text: "="}, {Kind: bn.TLParen, Text: "("}, {Kind: bn.TRParen, Text: ")"}, {Kind: bn.TLBracket, Text: "["}, {Kind: bn.TRBracket, Text: "]"},
	{Kind: bn.TLBrace, Text: "{"}, {Kind: bn.TRBrace, Text: "}"}, {Kind: bn.TComma, Text: ","}, {Kind: bn.TDot, Text: "."}, {Kind: bn.TColon, Text: ":"}, {Kind: bn.TSemi, Text: ";"},
	{Kind: bn.TVar, Text: bn.KwVar}, {Kind: bn.TFun, Text: bn.KwFun}, {Kind: bn.TIf, Text: bn.KwIf}, {Kind: bn.TElse, Text: bn.KwElse}, {Kind: bn.TWhile, Text: bn.KwWhile},
	{Kind: bn.TFor, Text: bn.KwFor}, {Kind: bn.TPrint, Text: bn.KwPrint}, {Kind: bn.TReturn, Text: bn.KwReturn}, {Kind: bn.TBreak, Text: bn.KwBreak}, {Kind: bn.TContinue, Text: bn.KwContinue},
}

// enumViable walks, depth first, every token sequence of length <= maxLen
// whose proper prefixes are all viable, over tokenAlphabet.  visit is called
// for every such sequence (viable, complete or dead at its last token) with
// the reference result; line numbering puts token i on line i+1 when
// multiline is set.  first-level branches are distributed over shards.
func (c *Ctx) enumViable(maxLen int, multiline bool, visit func(toks []bn.Tok, rp *refparse.Result, viable bool)) {
	var seq []bn.Tok
	var rec func()
	var cnt int64
	rec = func() {
		depth := len(seq)
		for _, a := range tokenAlphabet {
			if depth == 1 {
				cnt++
			}
			line := 1
			if multiline {
				line = depth + 1
			}
			seq = append(seq, bn.Tok{Kind: a.Kind, Text: a.Text, Num: a.Num, Str: a.Str, Line: line})
			if depth >= 1 && !c.Mine(cnt) {
				seq = seq[:depth]
				continue
			}
			full := append(append([]bn.Tok{}, seq...), bn.Tok{Kind: bn.TEOF, Line: line})
			rp := refparse.Parse(full)
			viable := rp.OK || rp.ErrTok == len(seq)
			// depth-0 sequences are visited by shard 0 only
			if depth >= 1 || c.Shard == 0 {
				visit(full, rp, viable)
			}
			if viable && len(seq) < maxLen {
				rec()
			}
			seq = seq[:depth]
		}
	}
	rec()
}

// firstDiagNoLine returns the first stderr line (diagnostic text).
func firstDiagNoLine(stderr string) string { return run.FirstLine(stderr) }
