package checks

import (
	"fmt"
	"strings"

	"verifharness/bn"
)

// Every kind of statement in every kind of position.  The grammar distinguishes
// positions that take a declaration (program, block, function body) from
// positions that take a statement (the unbraced body of যদি / নাহয় / যতক্ষণ /
// ফর), the initialiser of ফর and expression positions; what is derivable where
// is decided by the reference parser, never written down here.  Each statement
// sits on lines of its own so that the line of the first diagnostic is
// observable, and every accepted text terminates when run.

type stmtKind struct{ name, text string }
type stmtPos struct{ name, format string }

func stmtKinds() []stmtKind {
	V, F, P, R := bn.KwVar, bn.KwFun, bn.KwPrint, bn.KwReturn
	return []stmtKind{
		{"var", V + " va = 1;"},
		{"var-list", V + " va = 1,\n  vb;"},
		{"var-bare", V + " va;"},
		{"fun", F + " fa() { " + R + " 1; }"},
		{"fun-multiline", F + " fa(pa)\n{\n  " + P + " pa;\n}"},
		{"if", bn.KwIf + " (" + bn.KwTrue + ") " + P + " \"i\";"},
		{"if-else", bn.KwIf + " (" + bn.KwFalse + ") " + P + " \"i\";\n" + bn.KwElse + " " + P + " \"e\";"},
		{"while", bn.KwWhile + " (" + bn.KwFalse + ") " + P + " \"w\";"},
		{"for", bn.KwFor + " (;" + bn.KwFalse + ";) " + P + " \"f\";"},
		{"print", P + " \"p\";"},
		{"return-value", R + " 1;"},
		{"return-bare", R + ";"},
		{"break", bn.KwBreak + ";"},
		{"continue", bn.KwContinue + ";"},
		{"block", "{ " + P + " \"b\"; }"},
		{"block-with-declaration", "{\n  " + V + " inner = 2;\n  " + P + " inner;\n}"},
		{"empty-block", "{ }"},
		{"assignment", "g = g + 1;"},
		{"call", "note(\"c\");"},
		{"literal", "7;"},
		{"empty", ";"},
		{"else-alone", bn.KwElse + " " + P + " \"e\";"},
	}
}

func stmtPositions() []stmtPos {
	V, F, P := bn.KwVar, bn.KwFun, bn.KwPrint
	loop1 := bn.KwFor + " (" + V + " i = 0; i < 1; i = i + 1)"
	return []stmtPos{
		{"program", "%s\n"},
		{"block", "{\n%s\n}\n"},
		{"nested-block", "{\n  {\n%s\n  }\n}\n"},
		{"function-body", F + " host() {\n%s\n}\nhost();\n"},
		{"if-body", bn.KwIf + " (" + bn.KwTrue + ")\n%s\n"},
		{"if-body-not-taken", bn.KwIf + " (" + bn.KwFalse + ")\n%s\n"},
		{"if-body-before-else", bn.KwIf + " (" + bn.KwTrue + ")\n%s\n" + bn.KwElse + " " + P + " \"else\";\n"},
		{"else-body", bn.KwIf + " (" + bn.KwFalse + ") " + P + " \"then\";\n" + bn.KwElse + "\n%s\n"},
		{"while-body", V + " once = 0;\n" + bn.KwWhile + " ((once = once + 1) < 2)\n%s\n"},
		{"for-body", loop1 + "\n%s\n"},
		{"for-initialiser", bn.KwFor + " (\n%s\n" + bn.KwFalse + ";) " + P + " \"fb\";\n"},
		{"braced-loop-body", loop1 + " {\n%s\n}\n"},
		{"loop-body-in-function", F + " host() {\n  " + loop1 + "\n%s\n}\nhost();\n"},
		{"if-body-in-loop-in-function", F + " host() {\n  " + loop1 + " {\n    " + bn.KwIf + " (" + bn.KwTrue + ")\n%s\n  }\n}\nhost();\n"},
		{"function-in-loop", loop1 + " {\n  " + F + " host() {\n%s\n  }\n  host();\n}\n"},
		{"print-operand", P + "\n%s\n"},
		{"initialiser", V + " z =\n%s\n"},
		{"call-argument", "note(\n%s\n);\n"},
		{"condition", bn.KwIf + " (\n%s\n) " + P + " \"c\";\n"},
	}
}

const stmtPosTail = "\"after\";\n"

// stmtPositionTexts gives (label, text) for the whole matrix.
func stmtPositionTexts(each func(label, text string)) {
	V, F, P, R := bn.KwVar, bn.KwFun, bn.KwPrint, bn.KwReturn
	prelude := V + " g = 0;\n" + F + " note(t) { " + P + " t; " + R + " t; }\n" + P + " \"before\";\n"
	for _, p := range stmtPositions() {
		for _, k := range stmtKinds() {
			body := "      " + strings.ReplaceAll(k.text, "\n", "\n      ")
			each(p.name+"/"+k.name, prelude+fmt.Sprintf(p.format, body)+P+" "+stmtPosTail)
		}
	}
}
