// Package checks holds one executable check per property (TestC01 … TestC20)
// and the small framework they share.  The tests do nothing unless the driver
// (cmd/driver) provides the environment.
package checks

import (
	"encoding/json"
	"flag"
	"fmt"
	"os"
	"path/filepath"
	"sort"
	"strconv"
	"strings"
	"testing"
	"time"

	"pgregory.net/rapid"

	"verifharness/ev"
	"verifharness/run"
)

// Replay is a saved case: enough to re-evaluate it against the oracle without
// the generator.
type Replay struct {
	Property string            `json:"property"`
	Check    string            `json:"check"`
	Sig      string            `json:"sig"`
	Source   string            `json:"source"`
	Stdin    string            `json:"stdin,omitempty"`
	Argv     []string          `json:"argv,omitempty"`
	Repl     bool              `json:"repl,omitempty"`
	Extra    map[string]string `json:"extra,omitempty"`
	Expected string            `json:"expected"`
	Observed string            `json:"observed"`
	Seed     uint64            `json:"seed"`
	Note     string            `json:"note,omitempty"`
}

// Ctx is the per-process context of one check run.
type Ctx struct {
	depthOverride int // when > 0, the call-depth budget of the reference evaluator (and, with a margin, of the batch run) for the current sub-check
	stepOverride int64 // when > 0, the step budget of the reference evaluator for the current sub-check (scale programs)
	T        *testing.T
	ID       string
	Tier     string
	Thorough bool
	Seed     uint64
	Shard    int
	NShards  int
	Scratch  string
	Bin      string
	Root     string
	Ev       *ev.Collector

	replayOnly string
	replayers  map[string]func(s *Sub, rp *Replay)
	worker     *run.Worker
	front      *run.Front
	violN      int
	open       map[string]string // open known findings of this property: key -> text
	cliDir     string
	start      time.Time
	softLimit  time.Duration
	expired    bool
}

// Expired reports whether the shard's soft time limit has passed; long loops
// consult it and stop early (the run is then reported as inconclusive, never
// as a violation).
func (c *Ctx) Expired() bool {
	if c.expired {
		return true
	}
	if c.softLimit > 0 && time.Since(c.start) > c.softLimit {
		c.expired = true
		c.Ev.Note("soft time limit reached: exploration stopped early")
		f, _ := os.OpenFile(filepath.Join(c.Scratch, fmt.Sprintf("harness-%d.txt", c.Shard)), os.O_APPEND|os.O_CREATE|os.O_WRONLY, 0o644)
		if f != nil {
			fmt.Fprintln(f, "soft time limit reached before the planned exploration finished")
			f.Close()
		}
	}
	return c.expired
}

type stopSub struct{}

// Sub is one sub-check (a Go subtest).
type Sub struct {
	C    *Ctx
	Name string
	T    *testing.T
	rt   *rapid.T
}

func envInt(name string, def int) int {
	if v, err := strconv.Atoi(os.Getenv(name)); err == nil {
		return v
	}
	return def
}

// Main is the entry point used by every TestCxx.
func Main(t *testing.T, id string, body func(c *Ctx)) {
	if os.Getenv("VERIF_SCRATCH") == "" || os.Getenv("VERIF_ID") != id {
		t.Skip("run through /verif/check")
	}
	c := &Ctx{T: t, ID: id, Tier: os.Getenv("VERIF_TIER"), Scratch: os.Getenv("VERIF_SCRATCH"), Bin: os.Getenv("VERIF_BIN"),
		Root: os.Getenv("VERIF_ROOT"), Shard: envInt("VERIF_SHARD", 0), NShards: envInt("VERIF_NSHARDS", 1),
		Ev: ev.New(), replayers: map[string]func(*Sub, *Replay){}, replayOnly: os.Getenv("VERIF_REPLAY"), start: time.Now()}
	c.Thorough = c.Tier == "thorough"
	if d, err := time.ParseDuration(os.Getenv("VERIF_SOFT_DEADLINE")); err == nil {
		c.softLimit = d
	}
	seed, _ := strconv.ParseUint(os.Getenv("VERIF_SEED"), 10, 64)
	if seed == 0 {
		seed = 1
	}
	c.Seed = seed
	c.loadFindings()
	defer func() {
		if c.worker != nil {
			c.worker.Close()
		}
		if c.front != nil {
			if c.front.Unread() {
				c.Ev.Note("front end wrote diagnostics without setting the error flag")
			}
			c.front.Close()
		}
		js := filepath.Join(c.Scratch, fmt.Sprintf("ev-%d.json", c.Shard))
		hs := filepath.Join(c.Scratch, fmt.Sprintf("ev-%d.hash", c.Shard))
		if err := c.Ev.Save(js, hs); err != nil {
			t.Errorf("cannot save evidence: %v", err)
		}
	}()
	body(c)
}

func (c *Ctx) loadFindings() {
	c.open = map[string]string{}
	b, err := os.ReadFile(filepath.Join(c.Root, "KNOWN_FINDINGS.txt"))
	if err != nil {
		return
	}
	for _, ln := range strings.Split(string(b), "\n") {
		ln = strings.TrimSpace(ln)
		if !strings.HasPrefix(ln, "open:") {
			continue
		}
		f := strings.Fields(ln)
		var prop, key string
		rest := []string{}
		for _, w := range f[1:] {
			switch {
			case strings.HasPrefix(w, "property=") && prop == "":
				prop = strings.TrimPrefix(w, "property=")
			case strings.HasPrefix(w, "key=") && key == "":
				key = strings.TrimPrefix(w, "key=")
			default:
				rest = append(rest, w)
			}
		}
		if prop == c.ID && key != "" {
			c.open[key] = strings.Join(rest, " ")
		}
	}
}

// Open reports whether the known-findings file lists key as open for this property.
func (c *Ctx) Open(key string) bool { _, ok := c.open[key]; return ok }

// Probe runs the directed reproduction of an open finding (shard 0 only) and
// prints the KNOWN-FINDING line while it still reproduces.
func (c *Ctx) Probe(key string, reproduces func() bool) {
	if c.Shard != 0 || c.replayOnly != "" || !c.Open(key) {
		return
	}
	if reproduces() {
		fmt.Printf("KNOWN-FINDING: property=%s key=%s %s\n", c.ID, key, c.open[key])
	} else {
		c.Ev.Note("open finding " + key + " did not reproduce in this run")
		fmt.Printf("NOTE: property=%s open finding %s did not reproduce\n", c.ID, key)
	}
}

// Mine reports whether enumeration index k belongs to this shard (and the
// soft time limit has not passed).
func (c *Ctx) Mine(k int64) bool {
	if k&1023 == 0 && c.Expired() {
		return false
	}
	return !c.expired && int(k%int64(c.NShards)) == c.Shard
}

// W returns the batch worker, starting it on first use.
func (c *Ctx) W() *run.Worker {
	if c.worker == nil {
		w, err := run.NewWorker(c.Bin, c.Scratch)
		if err != nil {
			c.T.Fatalf("HARNESS: cannot start batch worker: %v", err)
		}
		c.worker = w
	}
	return c.worker
}

// RunB executes a program in the batch worker.
func (c *Ctx) RunB(src, stdin string) run.Resp {
	return c.W().Run(run.Req{Src: src, Stdin: stdin})
}

// Front returns the in-process front-end capture.
func (c *Ctx) Front() *run.Front {
	if c.front == nil {
		f, err := run.NewFront(c.Scratch)
		if err != nil {
			c.T.Fatalf("HARNESS: %v", err)
		}
		c.front = f
	}
	return c.front
}

// CLIScript writes src to a fresh script file and runs the real CLI on it.
func (c *Ctx) CLIScript(src, stdin string, timeout time.Duration) run.CLIResult {
	if c.cliDir == "" {
		c.cliDir = filepath.Join(c.Scratch, fmt.Sprintf("cli-%d", c.Shard))
		os.MkdirAll(c.cliDir, 0o755)
	}
	p := filepath.Join(c.cliDir, "p.bn")
	if err := os.WriteFile(p, []byte(src), 0o644); err != nil {
		c.T.Fatalf("HARNESS: %v", err)
	}
	c.Ev.CLICross++
	return run.CLI(c.Bin, []string{p}, stdin, c.cliDir, timeout)
}

// CLIDir returns a scratch directory for CLI experiments.
func (c *Ctx) CLIDir() string {
	if c.cliDir == "" {
		c.cliDir = filepath.Join(c.Scratch, fmt.Sprintf("cli-%d", c.Shard))
		os.MkdirAll(c.cliDir, 0o755)
	}
	return c.cliDir
}

// Sub runs one sub-check as a subtest; a violation stops that sub-check only.
func (c *Ctx) Sub(name string, f func(s *Sub)) {
	if c.replayOnly != "" {
		return
	}
	c.T.Run(name, func(t *testing.T) {
		s := &Sub{C: c, Name: name, T: t}
		defer c.subTime(name, time.Now())
		defer func() {
			if r := recover(); r != nil {
				if _, ok := r.(stopSub); ok {
					t.Fail()
					return
				}
				panic(r)
			}
		}()
		f(s)
	})
}

// subTime appends how long a sub-check took to the file named by VERIF_SUBTIMES (a development aid).
func (c *Ctx) subTime(name string, t0 time.Time) {
	if p := os.Getenv("VERIF_SUBTIMES"); p != "" {
		if f, err := os.OpenFile(p, os.O_APPEND|os.O_CREATE|os.O_WRONLY, 0o644); err == nil {
			fmt.Fprintf(f, "%s shard %d %-40s %8.2fs (ended at %.1fs)\n", c.ID, c.Shard, name, time.Since(t0).Seconds(), time.Since(c.start).Seconds())
			f.Close()
		}
	}
}

func (c *Ctx) rapidSeed(name string) uint64 {
	h := ev.Hash(fmt.Sprintf("%s/%s/%d/%d", c.ID, name, c.Seed, c.Shard))
	if h == 0 {
		h = 1
	}
	return h >> 1 // rapid takes the value through a signed flag in some paths; keep it positive
}

// Rapid runs a rapid property as a sub-check.  checks is the number of cases
// for this shard.
func (c *Ctx) Rapid(name string, checks int, prop func(rt *rapid.T, s *Sub)) {
	if c.replayOnly != "" {
		return
	}
	c.T.Run(name, func(t *testing.T) {
		defer c.subTime(name, time.Now())
		flag.Set("rapid.checks", strconv.Itoa(checks))
		flag.Set("rapid.seed", strconv.FormatUint(c.rapidSeed(name), 10))
		flag.Set("rapid.nofailfile", "true")
		flag.Set("rapid.shrinktime", "20s")
		flag.Set("rapid.steps", "40")
		c.Ev.RapidAsked += int64(checks)
		passed := int64(0)
		defer func() { c.Ev.RapidPassed += passed }()
		rapid.Check(t, func(rt *rapid.T) {
			if c.Expired() {
				return
			}
			s := &Sub{C: c, Name: name, T: t, rt: rt}
			prop(rt, s)
			if passed < int64(checks) {
				passed++
			}
		})
	})
}

// Violation records a violation with its replay and stops the sub-check.  In
// a rapid property the file is overwritten on every failing run, so the last
// one written is the shrunk case.
func (s *Sub) Violation(rp Replay) {
	c := s.C
	rp.Property = c.ID
	if rp.Check == "" {
		rp.Check = s.Name
	}
	if rp.Sig == "" {
		rp.Sig = rp.Check
	}
	rp.Seed = c.Seed
	var path string
	if s.rt != nil {
		path = filepath.Join(c.Scratch, fmt.Sprintf("viol-%d-%s.json", c.Shard, sanitize(s.Name)))
	} else {
		c.violN++
		path = filepath.Join(c.Scratch, fmt.Sprintf("viol-%d-%s-%d.json", c.Shard, sanitize(s.Name), c.violN))
	}
	b, _ := json.MarshalIndent(&rp, "", " ")
	os.WriteFile(path, b, 0o644)
	msg := fmt.Sprintf("violation [%s/%s] %s\n--- source ---\n%s\n--- expected ---\n%s\n--- observed ---\n%s", rp.Check, rp.Sig, rp.Note, clip(rp.Source, 1500), clip(rp.Expected, 1500), clip(rp.Observed, 1500))
	if s.rt != nil {
		s.rt.Fatalf("%s", msg)
	}
	c.Ev.Violations++
	s.T.Log(msg)
	panic(stopSub{})
}

// Harness reports trouble of the machinery itself (never a violation).
func (s *Sub) Harness(format string, a ...interface{}) {
	msg := "HARNESS: " + fmt.Sprintf(format, a...)
	f, _ := os.OpenFile(filepath.Join(s.C.Scratch, fmt.Sprintf("harness-%d.txt", s.C.Shard)), os.O_APPEND|os.O_CREATE|os.O_WRONLY, 0o644)
	if f != nil {
		fmt.Fprintln(f, s.Name+": "+msg)
		f.Close()
	}
	if s.rt != nil {
		s.rt.Fatalf("%s", msg)
	}
	s.T.Fatalf("%s", msg)
}

func sanitize(s string) string {
	return strings.Map(func(r rune) rune {
		if r >= 'a' && r <= 'z' || r >= 'A' && r <= 'Z' || r >= '0' && r <= '9' || r == '-' || r == '_' {
			return r
		}
		return '_'
	}, s)
}

func clip(s string, n int) string {
	if len(s) > n {
		return s[:n] + "…(clipped)"
	}
	return s
}

// OnReplay registers the function that re-evaluates saved cases of a sub-check.
func (c *Ctx) OnReplay(check string, f func(s *Sub, rp *Replay)) { c.replayers[check] = f }

// ReplayTier re-runs every saved case under replays/<ID>/ (shard 0), or only
// the file named by VERIF_REPLAY.
func (c *Ctx) ReplayTier() {
	var files []string
	if c.replayOnly != "" {
		files = []string{c.replayOnly}
	} else {
		if c.Shard != 0 {
			return
		}
		files, _ = filepath.Glob(filepath.Join(c.Root, "replays", c.ID, "*.json"))
		sort.Strings(files)
	}
	for _, f := range files {
		f := f
		b, err := os.ReadFile(f)
		if err != nil {
			c.T.Errorf("HARNESS: cannot read replay %s: %v", f, err)
			continue
		}
		var rp Replay
		if err := json.Unmarshal(b, &rp); err != nil {
			c.T.Errorf("HARNESS: bad replay %s: %v", f, err)
			continue
		}
		fn := c.replayers[rp.Check]
		if fn == nil {
			c.T.Errorf("HARNESS: no replayer for check %q (%s)", rp.Check, f)
			continue
		}
		c.T.Run("replay/"+filepath.Base(f), func(t *testing.T) {
			s := &Sub{C: c, Name: "replay:" + rp.Check, T: t}
			defer func() {
				if r := recover(); r != nil {
					if _, ok := r.(stopSub); ok {
						t.Fail()
						return
					}
					panic(r)
				}
			}()
			c.Ev.Case("replay", rp.Source, true, "replayed")
			fn(s, &rp)
		})
	}
}
