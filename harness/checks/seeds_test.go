package checks

import (
	"fmt"
	"os"
	"path/filepath"
	"sort"
	"strings"

	"pgregory.net/rapid"

	"verifharness/bn"
)

// seed programs shared by the metamorphic checks (C13, C18) and C07: programs
// from every semantic generator plus the shipped example scripts.

type seedProg struct {
	Src, Stdin, Kind string
}

// shippedExamples reads /repo/example/*.bn; the line of native_function.bn
// that calls ক্লক is removed (C13/C18 except programs that call ক্লক).
func shippedExamples() []seedProg {
	repo := os.Getenv("VERIF_REPO")
	if repo == "" {
		repo = "/repo"
	}
	files, _ := filepath.Glob(filepath.Join(repo, "example", "*.bn"))
	sort.Strings(files)
	var out []seedProg
	for _, f := range files {
		b, err := os.ReadFile(f)
		if err != nil {
			continue
		}
		var keep []string
		for _, ln := range strings.Split(string(b), "\n") {
			if strings.Contains(ln, bn.BClock+"(") && !strings.HasPrefix(strings.TrimSpace(ln), "//") {
				continue
			}
			keep = append(keep, ln)
		}
		out = append(out, seedProg{Src: strings.Join(keep, "\n"), Stdin: "typed text\nsecond line\n", Kind: "example:" + filepath.Base(f)})
	}
	return out
}

// drawSeed draws a seed program and, for generated ones, a placement (top level, inside a block / function / loop /
// if arm / nested closure, or executed three times).
func drawSeed(rt *rapid.T, examples []seedProg) seedProg {
	sp := drawSeedRaw(rt, examples)
	if !strings.HasPrefix(sp.Kind, "example:") {
		if pl := drawPlacement(rt); pl != 0 {
			sp.Src = place(sp.Src, pl)
			sp.Kind += "/" + placementNames[pl]
		}
	}
	return sp
}

func drawSeedRaw(rt *rapid.T, examples []seedProg) seedProg {
	pick := func(label string, n int) int { return rapid.IntRange(0, n-1).Draw(rt, label) }
	switch rapid.IntRange(0, 13).Draw(rt, "seedkind") {
	case 13:
		return seedProg{Src: genOperatorLadder(rt), Kind: "operator-ladder"}
	case 12:
		return seedProg{Src: genCoincidingNames(rt), Kind: "coinciding-names"}
	case 11:
		// recursion hundreds to thousands of activations deep (well inside what the interpreter handles), in
		// several shapes: the result must not depend on how the recursive call is dressed
		n := rapid.SampledFrom([]int{50, 300, 1000, 2000, 3000, 4500}).Draw(rt, "recursionDepth")
		var b strings.Builder
		switch rapid.IntRange(0, 3).Draw(rt, "recursionShape") {
		case 0:
			fmt.Fprintf(&b, "%s down(n) { %s (n == 0) %s 0; %s 1 + down(n - 1); }\n%s down(%d);\n", bn.KwFun, bn.KwIf, bn.KwReturn, bn.KwReturn, bn.KwPrint, n)
		case 1:
			fmt.Fprintf(&b, "%s acc(n, total) { %s (n == 0) { %s total; } %s acc(n - 1, total + n); }\n%s acc(%d, 0);\n", bn.KwFun, bn.KwIf, bn.KwReturn, bn.KwReturn, bn.KwPrint, n)
		case 2:
			fmt.Fprintf(&b, "%s even(n) { %s (n == 0) %s %s; %s odd(n - 1); }\n%s odd(n) { %s (n == 0) %s %s; %s even(n - 1); }\n%s even(%d);\n",
				bn.KwFun, bn.KwIf, bn.KwReturn, bn.KwTrue, bn.KwReturn, bn.KwFun, bn.KwIf, bn.KwReturn, bn.KwFalse, bn.KwReturn, bn.KwPrint, n)
		default:
			fmt.Fprintf(&b, "%s build(n) { %s (n == 0) { %s []; } %s r = build(n - 1); %s %s(r) < 3 %s n %% 500 == 0; %s r; }\n%s %s(build(%d));\n",
				bn.KwFun, bn.KwIf, bn.KwReturn, bn.KwVar, bn.KwPrint, bn.BLen, bn.KwAnd, bn.KwReturn, bn.KwPrint, bn.BLen, n)
		}
		return seedProg{Src: b.String(), Kind: "deep-recursion"}
	case 10:
		return seedProg{Src: genHigherOrder(rt), Kind: "higher-order"}
	case 0:
		g := &c05Gen{budget: rapid.IntRange(3, 16).Draw(rt, "budget"), pick: pick, fnDecls: rapid.Bool().Draw(rt, "functionDeclarations")}
		return seedProg{Src: g.program(rapid.IntRange(1, 3).Draw(rt, "depth"), rapid.IntRange(1, 3).Draw(rt, "top")), Kind: "control"}
	case 1:
		g := &c03Gen{budget: rapid.IntRange(4, 25).Draw(rt, "budget"), pick: pick, jumps: rapid.Bool().Draw(rt, "jumps")}
		return seedProg{Src: g.program(rapid.IntRange(1, 4).Draw(rt, "depth"), rapid.IntRange(2, 6).Draw(rt, "top")), Kind: "scope"}
	case 2:
		g := &c11Gen{pick: pick}
		fault := -1
		if rapid.IntRange(0, 3).Draw(rt, "withFault") == 0 {
			fault = rapid.IntRange(0, len(c11Faults)-1).Draw(rt, "fault")
		}
		return seedProg{Src: g.program(rapid.IntRange(2, 12).Draw(rt, "actions"), fault), Kind: "arrays"}
	case 3:
		g := &c12Gen{pick: pick}
		fault := -1
		if rapid.IntRange(0, 3).Draw(rt, "withFault") == 0 {
			fault = rapid.IntRange(0, len(c12Faults)-1).Draw(rt, "fault")
		}
		return seedProg{Src: g.program(rapid.IntRange(2, 10).Draw(rt, "actions"), fault), Kind: "objects"}
	case 4:
		src, _ := c04ReturnSkeleton(pick, rapid.IntRange(3, 14).Draw(rt, "budget"), rapid.IntRange(1, 3).Draw(rt, "depth"), true)
		return seedProg{Src: src, Kind: "returns"}
	case 5:
		f := rapid.SampledFrom(c06Faults).Draw(rt, "fault")
		p := c06Positions[rapid.IntRange(0, len(c06Positions)-1).Draw(rt, "pos")]
		return seedProg{Src: c06Prelude + fmt.Sprintf(p.text, f.expr) + c06Tail, Stdin: "typed-line\nsecond\n", Kind: "fault"}
	case 6:
		// probes under operators (C14 style), with both spellings of the logical operators
		var b strings.Builder
		b.WriteString(c14Prelude)
		for i := 1; i <= 3; i++ {
			b.WriteString(c14Probe(i, rapid.SampledFrom(c14Vals).Draw(rt, "v")))
		}
		op := rapid.SampledFrom(append(append([]string{}, bn.BinOpList...), bn.KwOr, "||", bn.KwAnd, "&&")).Draw(rt, "op")
		op2 := rapid.SampledFrom(append(append([]string{}, bn.BinOpList...), bn.KwOr, "||", bn.KwAnd, "&&")).Draw(rt, "op2")
		b.WriteString(bn.KwPrint + " t1() " + op + " t2() " + op2 + " t3();\n" + bn.KwPrint + " \"end\";\n")
		return seedProg{Src: b.String(), Kind: "probes"}
	case 7:
		// numbers and objects: literals in both scripts, key listings, prints
		var b strings.Builder
		n := rapid.IntRange(1, 5).Draw(rt, "n")
		for i := 0; i < n; i++ {
			lit := rapid.SampledFrom([]string{"0", "7", "12", "3.25", "১২", "৩.৫", "1000000", "0.001", "255", "64"}).Draw(rt, "lit")
			lit2 := rapid.SampledFrom([]string{"1", "2", "৪", "10", "0.5", "3"}).Draw(rt, "lit2")
			op := rapid.SampledFrom(bn.BinOpList).Draw(rt, "op")
			fmt.Fprintf(&b, "%s %s %s %s;\n", bn.KwPrint, lit, op, lit2)
		}
		b.WriteString(bn.KwVar + " o = {b: 1, a: \"x\", c: [1, 2], d: nil};\n" + bn.KwPrint + " o;\n" + bn.KwPrint + " " + bn.BKeys + "(o);\n" + bn.KwPrint + " " + bn.BValues + "(o);\n")
		return seedProg{Src: b.String(), Kind: "numbers-objects"}
	case 8:
		if len(examples) > 0 {
			return examples[rapid.IntRange(0, len(examples)-1).Draw(rt, "example")]
		}
		fallthrough
	default:
		var b strings.Builder
		b.WriteString(c04ClosurePrelude)
		b.WriteString(bn.KwVar + " c0 = mk(10);\n" + bn.KwVar + " c1 = mk(20);\n")
		k := rapid.IntRange(1, 10).Draw(rt, "calls")
		for i := 0; i < k; i++ {
			fmt.Fprintf(&b, "%s c%d.%s();\n", bn.KwPrint, rapid.IntRange(0, 1).Draw(rt, "inst"), rapid.SampledFrom([]string{"inc", "get", "cnt", "reset"}).Draw(rt, "m"))
		}
		return seedProg{Src: b.String(), Kind: "closures"}
	}
}

// genCoincidingNames: a function whose parameters are named like a built-in,
// like the function itself, like a sibling function or like a global; reads,
// assignments, calls, captures and nested shadowing of those parameters, and
// the outer bindings afterwards.
func genCoincidingNames(rt *rapid.T) string {
	P, F, R, V := bn.KwPrint, bn.KwFun, bn.KwReturn, bn.KwVar
	pool := []string{"a", "b", "fn1", "sib", bn.BLen, bn.BRound, bn.BMax, bn.BInput, bn.BKeys, bn.BClock}
	np := rapid.IntRange(1, 3).Draw(rt, "nparams")
	var params []string
	for len(params) < np {
		q := rapid.SampledFrom(pool).Draw(rt, "param")
		dup := false
		for _, x := range params {
			dup = dup || x == q
		}
		if !dup {
			params = append(params, q)
		}
	}
	var b strings.Builder
	uniq := 0
	u := func() string { uniq++; return fmt.Sprint(500 + uniq) }
	fmt.Fprintf(&b, "%s a = 1;\n%s b = 2;\n%s sib(x) { %s \"sib\" + x; }\n%s three(x) { %s 3; }\n", V, V, F, R, F, R)
	fmt.Fprintf(&b, "%s fn1(%s) {\n", F, strings.Join(params, ", "))
	nst := rapid.IntRange(2, 8).Draw(rt, "nstmts")
	for i := 0; i < nst; i++ {
		q := rapid.SampledFrom(params).Draw(rt, "on")
		switch rapid.IntRange(0, 7).Draw(rt, "stmt") {
		case 0, 1:
			fmt.Fprintf(&b, "  %s %s;\n", P, q)
		case 2:
			fmt.Fprintf(&b, "  %s = %s;\n  %s %s;\n", q, u(), P, q)
		case 3:
			fmt.Fprintf(&b, "  %s %s([1, 2, 3, 4]);\n", P, q) // a call through the parameter (an error unless it holds a function)
		case 4:
			fmt.Fprintf(&b, "  %s get%d() { %s %s; }\n  %s get%d();\n", F, i, R, q, P, i)
		case 5:
			if bn.IsBuiltin(q) {
				// a built-in's name cannot be declared with ধরি: shadow it with a nested function's parameter instead
				fmt.Fprintf(&b, "  %s inner%d(%s) { %s %s; }\n  inner%d(%s);\n  %s %s;\n", F, i, q, P, q, i, u(), P, q)
			} else {
				fmt.Fprintf(&b, "  { %s %s = %s; %s %s; }\n  %s %s;\n", V, q, u(), P, q, P, q)
			}
		case 6:
			other := rapid.SampledFrom(pool).Draw(rt, "other")
			fmt.Fprintf(&b, "  %s %s;\n", P, other)
		default:
			fmt.Fprintf(&b, "  %s set%d(v) { %s = v; }\n  set%d(%s);\n  %s %s;\n", F, i, q, i, u(), P, q)
		}
	}
	fmt.Fprintf(&b, "  %s keep() { %s %s; }\n  %s keep;\n}\n", F, R, params[0], R)
	var args []string
	for range params {
		args = append(args, rapid.SampledFrom([]string{"three", "sib", "\"arg\"", "7", bn.BAbs, "nil", "[9]"}).Draw(rt, "arg"))
	}
	fmt.Fprintf(&b, "%s k = fn1(%s);\n%s k();\n", V, strings.Join(args, ", "), P)
	// the outer bindings afterwards
	fmt.Fprintf(&b, "%s a;\n%s b;\n%s sib(\"!\");\n%s %s([1, 2]);\n%s %s(2.5);\n%s %s(1, 2);\n%s %s({z: 1});\n%s fn1 == fn1;\n", P, P, P, P, bn.BLen, P, bn.BRound, P, bn.BMax, P, bn.BKeys, P)
	// the functions' names re-bound in their declaring scope while the old function values live on elsewhere:
	// calling the old values must not touch the new bindings
	fmt.Fprintf(&b, "%s holder = [fn1, sib, three];\nfn1 = \"rebound\";\nsib = 77;\n%s\nthree = 3;\n%s holder[1](\"?\");\n%s [fn1, sib];\nholder[0](%s);\n%s [fn1, sib];\n%s holder[2](0) + three;\n", V, "// the old values live on in holder", P, P, strings.Join(args, ", "), P, P)
	return b.String()
}

// genOperatorLadder: printed expressions over small integers that put operators of all levels of the ladder next
// to each other without parentheses — runs of different prefix operators, prefix operators next to ** and to
// suffixes, shifts next to sums, comparisons next to bitwise operators.  Typed (integer / boolean) so that nearly
// every line evaluates.
func genOperatorLadder(rt *rapid.T) string {
	var intE, boolE func(d int) string
	leaf := func() string {
		return rapid.SampledFrom([]string{"a", "b", "c", "0", "1", "2", "7", "arr[1]", "obj.k", "two()"}).Draw(rt, "leaf")
	}
	intE = func(d int) string {
		if d <= 0 {
			return leaf()
		}
		switch rapid.IntRange(0, 9).Draw(rt, "int") {
		case 0, 1:
			// a run of prefix operators, written one directly after the other (a blank between two minus signs)
			n := rapid.IntRange(1, 4).Draw(rt, "prefixes")
			t := ""
			for i := 0; i < n; i++ {
				op := rapid.SampledFrom([]string{"-", "~", "-", "~", "- "}).Draw(rt, "prefix")
				if strings.HasSuffix(t, "-") && strings.HasPrefix(op, "-") {
					t += " "
				}
				t += op
			}
			return t + intE(d-1)
		case 2, 3, 4:
			return intE(d-1) + " " + rapid.SampledFrom([]string{"+", "-", "*", "&", "|", "^"}).Draw(rt, "binop") + " " + intE(d-1)
		case 5:
			return intE(d-1) + " " + rapid.SampledFrom([]string{"<<", ">>"}).Draw(rt, "shift") + " " + fmt.Sprint(rapid.IntRange(0, 3).Draw(rt, "by"))
		case 6:
			return intE(d-1) + " ** " + rapid.SampledFrom([]string{"0", "1", "2", "3", "-1 ** 2", "~0 + 2"}).Draw(rt, "exp")
		case 7:
			return "(" + intE(d-1) + ")"
		case 8:
			return intE(d-1) + " % " + rapid.SampledFrom([]string{"3", "5", "7"}).Draw(rt, "mod")
		default:
			return leaf()
		}
	}
	boolE = func(d int) string {
		if d <= 0 {
			return intE(0) + " < " + intE(0)
		}
		switch rapid.IntRange(0, 6).Draw(rt, "bool") {
		case 0, 1:
			return intE(d-1) + " " + rapid.SampledFrom([]string{"<", "<=", ">", ">=", "==", "!="}).Draw(rt, "cmp") + " " + intE(d-1)
		case 2:
			return "!" + boolE(d-1)
		case 3:
			return "!" + rapid.SampledFrom([]string{"-", "~", "!"}).Draw(rt, "under") + intE(d-1)
		case 4:
			return boolE(d-1) + " " + rapid.SampledFrom([]string{bn.KwAnd, "&&", bn.KwOr, "||"}).Draw(rt, "logic") + " " + boolE(d-1)
		case 5:
			return boolE(d-1) + " == " + boolE(d-1)
		default:
			return "(" + boolE(d-1) + ")"
		}
	}
	var b strings.Builder
	b.WriteString(bn.KwVar + " a = 5, b = 3, c = 2;\n" + bn.KwVar + " arr = [4, 6];\n" + bn.KwVar + " obj = {k: 9};\n" + bn.KwFun + " two() { " + bn.KwReturn + " 2; }\n")
	n := rapid.IntRange(3, 8).Draw(rt, "lines")
	for i := 0; i < n; i++ {
		d := rapid.IntRange(1, 4).Draw(rt, "depth")
		if rapid.IntRange(0, 2).Draw(rt, "boolean") == 0 {
			b.WriteString(bn.KwPrint + " " + boolE(d) + ";\n")
		} else {
			b.WriteString(bn.KwPrint + " " + intE(d) + ";\n")
		}
	}
	return b.String()
}
