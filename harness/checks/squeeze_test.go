package checks

import (
	"strings"

	"verifharness/bn"
	"verifharness/reflex"
)

// squeezeText writes a lexically valid text again with every optional blank
// removed: two neighbouring tokens are joined wherever the reference lexer still
// reads the same two tokens from the joined characters (`a--b**2`, `!-x`,
// `1+-2`, `f(a)[0].k`), comments are dropped, and line breaks are kept so that
// every token stays on its line.  The token sequence — kinds, lexemes, lines —
// is verified to be unchanged; ok is false when the text cannot be squeezed
// (lexical errors, tokens spanning lines).
func squeezeText(src string) (out string, ok bool) {
	ref := reflex.Lex([]rune(src))
	if len(ref.Diags) > 0 {
		return "", false
	}
	var b strings.Builder
	line := 1
	var prev *bn.Tok
	for i := range ref.Toks {
		t := &ref.Toks[i]
		if t.Kind == bn.TEOF {
			break
		}
		if strings.Contains(t.Text, "\n") {
			return "", false
		}
		switch {
		case t.Line > line:
			b.WriteString(strings.Repeat("\n", t.Line-line))
			line = t.Line
		case prev != nil && !sameTwoTokens(prev, t):
			b.WriteByte(' ')
		}
		b.WriteString(t.Text)
		prev = t
	}
	out = b.String()
	if strings.HasSuffix(src, "\n") {
		out += "\n"
	}
	again := reflex.Lex([]rune(out))
	if len(again.Diags) > 0 || len(again.Toks) != len(ref.Toks) {
		return "", false
	}
	for i := range again.Toks {
		a, r := again.Toks[i], ref.Toks[i]
		if a.Kind != r.Kind || a.Text != r.Text || (a.Kind != bn.TEOF && a.Line != r.Line) {
			return "", false
		}
	}
	return out, out != src
}

func sameTwoTokens(a, b *bn.Tok) bool {
	r := reflex.Lex([]rune(a.Text + b.Text))
	return len(r.Diags) == 0 && len(r.Toks) == 3 && r.Toks[0].Kind == a.Kind && r.Toks[0].Text == a.Text && r.Toks[1].Kind == b.Kind && r.Toks[1].Text == b.Text
}
