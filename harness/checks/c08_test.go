package checks

import (
	"fmt"
	"sort"
	"strings"
	"testing"
	"time"

	"pgregory.net/rapid"

	"verifharness/bn"
	"verifharness/reflex"
	"verifharness/refparse"
)

// C08 — the front end is total, accepts exactly the documented language, and
// runs nothing of a rejected text.

var c08Frags = []string{
	bn.KwVar, bn.KwFun, bn.KwIf, bn.KwElse, bn.KwWhile, bn.KwFor, bn.KwPrint, bn.KwReturn, bn.KwBreak, bn.KwContinue,
	bn.KwTrue, bn.KwNil, bn.KwOr, bn.KwAnd,
	"a", "ক", bn.BLen, "input", "1", "১.৫", "\"s\"", "\x00",
	"+", "-", "*", "/", "%", "**", "!", "~", "=", "==", "!=", "<", "<=", "<<", ">", ">>", "&", "&&", "|", "||", "^",
	"(", ")", "[", "]", "{", "}", ",", ".", ":", ";",
	"\"", "//", "/*", "*/", "#", "\n", " ",
}

// c08Text judges a text as written and, for generated (not enumerated) texts, once more with every optional
// blank removed.
func (c *Ctx) c08Text(s *Sub, sub, text string, enum bool) {
	c.c08TextAsWritten(s, sub, text, enum)
	if !enum {
		if sq, ok := squeezeText(text); ok {
			c.Ev.Class("squeezed")
			c.c08TextAsWritten(s, sub, sq, enum)
		}
	}
}

func (c *Ctx) c08TextAsWritten(s *Sub, sub, text string, enum bool) {
	src := []rune(text)
	fr := c.realFront(src)
	ref := reflex.Lex(src)
	rp := refparse.Parse(ref.Toks)
	maxLine := 1 + strings.Count(text, "\n")
	cls := "accepted"
	if len(ref.Diags) > 0 {
		cls = "lexical-error"
	} else if rp.OODVarBreak || rp.OODTrailingComma {
		cls = "out-of-domain"
	} else if !rp.OK {
		cls = "syntax-error"
	}
	nt := len(ref.Toks) > 3 && ((!rp.OK && rp.ErrTok > 0) || (rp.OK && len(rp.Prog) >= 2))
	if enum {
		c.Ev.EnumCase(sub, nt, func() string { return text }, cls)
	} else {
		c.Ev.Case(sub, text, nt, cls)
	}
	if sig, msg := judgeFront(&fr, ref, rp, ref.Toks, maxLine); sig != "" {
		s.Violation(Replay{Check: "text", Sig: sig, Source: text, Note: msg, Expected: cls, Observed: fmt.Sprintf("hadError=%v stderr=%q", fr.HadError, clip(fr.Stderr, 400))})
	}
}

func (c *Ctx) c08Tokens(s *Sub, sub string, toks []bn.Tok, rp *refparse.Result) {
	fr := c.realParseToks(toRealTokens(toks))
	cls := "accepted"
	if rp.OODVarBreak || rp.OODTrailingComma {
		cls = "out-of-domain"
	} else if !rp.OK {
		cls = "syntax-error"
	}
	nt := len(toks) > 3 && ((!rp.OK && rp.ErrTok > 0) || (rp.OK && len(rp.Prog) >= 2))
	c.Ev.EnumCase(sub, nt, func() string { return tokListText(toks) }, cls)
	if sig, msg := judgeFront(&fr, nil, rp, toks, toks[len(toks)-1].Line); sig != "" {
		s.Violation(Replay{Check: "text", Sig: sig, Source: tokListText(toks), Note: msg, Expected: cls, Observed: fmt.Sprintf("hadError=%v stderr=%q", fr.HadError, clip(fr.Stderr, 400))})
	}
}

// renderTokens lays a token list out as text with the given line breaks
// (breakAfter[i] = number of newlines after token i).
func renderTokens(toks []bn.Tok, breakAfter func(i int) int) string {
	var b strings.Builder
	for i, t := range toks {
		if t.Kind == bn.TEOF {
			break
		}
		b.WriteString(t.Text)
		n := breakAfter(i)
		if n > 0 {
			b.WriteString(strings.Repeat("\n", n))
		} else {
			b.WriteByte(' ')
		}
	}
	return b.String()
}

func TestC08(t *testing.T) {
	Main(t, "C08", func(c *Ctx) {
		c.OnReplay("text", func(s *Sub, rp *Replay) { c.c08Text(s, "replay", rp.Source, false) })
		c.OnReplay("norun", func(s *Sub, rp *Replay) { c.c08NoRun(s, rp.Source, true) })
		c.ReplayTier()

		maxFrags, maxToks := 3, 5
		if c.Thorough {
			maxFrags, maxToks = 4, 6
		}
		c.Sub("enum-fragments", func(s *Sub) {
			for n := 0; n <= maxFrags; n++ {
				c.enumTuples(len(c08Frags), n, func(idx []int) {
					var b strings.Builder
					for _, i := range idx {
						b.WriteString(c08Frags[i])
					}
					c.c08Text(s, "enum-fragments", b.String(), true)
				})
			}
			c.Ev.MarkExhaustive(fmt.Sprintf("every concatenation of <= %d fragments of the %d-fragment alphabet", maxFrags, len(c08Frags)))
		})
		c.Sub("enum-viable-prefixes", func(s *Sub) {
			for _, multi := range []bool{false, true} {
				c.enumViable(maxToks, multi, func(toks []bn.Tok, rp *refparse.Result, viable bool) {
					c.c08Tokens(s, "enum-viable-prefixes", toks, rp)
				})
			}
			c.Ev.MarkExhaustive(fmt.Sprintf("every token sequence of <= %d tokens over the %d-token alphabet whose proper prefixes are viable (each viable prefix extended by every token), on one line and one token per line", maxToks, len(tokenAlphabet)))
		})
		c.Sub("boundaries", func(s *Sub) {
			if c.Shard != 0 {
				return
			}
			params := func(n int) string {
				ps := make([]string, n)
				for i := range ps {
					ps[i] = fmt.Sprintf("p%d", i)
				}
				return strings.Join(ps, ",\n")
			}
			cases := []string{}
			for _, n := range []int{254, 255, 256, 257, 300} {
				cases = append(cases, bn.KwFun+" f("+params(n)+") { }")
				// every token on its own line (leading-comma layout), so that the line of the diagnostic identifies the token
				cases = append(cases, bn.KwPrint+" 1;\n"+bn.KwFun+"\nf\n(\n"+strings.ReplaceAll(params(n), ",\n", "\n,\n")+"\n)\n{\n}\n")
				cases = append(cases, bn.KwFun+" f(\n"+strings.ReplaceAll(params(n), ",\n", "\n, ")+"\n) { }\n")
				cases = append(cases, bn.KwFun+" f("+strings.ReplaceAll(params(n), "\n", " ")+") { }\n"+bn.KwPrint+" 1;")
			}
			// behind the comma that follows the 255th parameter nothing can stand: whatever comes on the next line — another
			// name, a bracket, a number, a keyword, nothing — the comma is where the text stops being a program
			for _, n := range []int{254, 255, 256} {
				for _, next := range []string{"q", ")", ") { }", "{", "1", bn.KwVar, ",", "", "\"s\"", "q, r) { }"} {
					cases = append(cases, bn.KwPrint+" 1;\n"+bn.KwFun+" f("+strings.ReplaceAll(params(n), "\n", " ")+",\n"+next+"\n"+bn.KwPrint+" 2;\n")
				}
			}
			args := make([]string, 1000)
			for i := range args {
				args[i] = fmt.Sprint(i)
			}
			cases = append(cases, "f("+strings.Join(args, ", ")+");", "["+strings.Join(args, ", ")+"];")
			for _, b := range append(append([]string{}, bn.Builtins...), "input", "len", "print", "clock") {
				cases = append(cases,
					bn.KwVar+" "+b+" = 1;", bn.KwVar+" x = 1, "+b+";", bn.KwFun+" "+b+"() { }", bn.KwFun+" f("+b+") { }", bn.KwFun+" f(a, "+b+") { "+bn.KwReturn+" "+b+"; }",
					"o."+b+";", "o."+b+" = 1;", "x = {"+b+": 1};", b+" = 1;", b+"(1);", bn.KwFor+" ("+bn.KwVar+" "+b+" = 0;;) { }", "{ "+bn.KwVar+" "+b+"; }")
			}
			for _, d := range []int{100, 1000, 10000} {
				cases = append(cases,
					strings.Repeat("(", d)+"1"+strings.Repeat(")", d)+";",
					strings.Repeat("(", d)+"1"+strings.Repeat(")", d-1)+";",
					strings.Repeat("[", d)+strings.Repeat("]", d)+";",
					strings.Repeat("{", d)+strings.Repeat("}", d),
					strings.Repeat("{", d)+strings.Repeat("}", d+1),
					strings.Repeat("-", d)+"1;", strings.Repeat("!", d)+";",
					"f"+strings.Repeat("(1)", d)+";", "a"+strings.Repeat("[0]", d)+" = 1;", "a"+strings.Repeat(".k", d)+";",
					strings.Repeat(bn.KwIf+" (1) ", d)+";", strings.Repeat(bn.KwIf+" (1) ", d)+"1; "+strings.Repeat(bn.KwElse+" 2; ", d),
					strings.Repeat("a = ", d)+"1;", strings.Repeat("1 + ", d)+"1;", strings.Repeat("1 ** ", d)+";",
					"x = "+strings.Repeat("{k: ", d)+"1"+strings.Repeat("}", d)+";",
				)
			}
			// sizes of single tokens and of the whole text: nothing in the grammar bounds them
			for _, n := range []int{15, 16, 17, 18, 19, 20, 21, 39, 40, 100, 308, 309, 310, 400, 1100, 5000} {
				for _, d := range []string{"9", "1", "৯", "১"} {
					digits := strings.Repeat(d, n)
					cases = append(cases, bn.KwPrint+" "+digits+";", bn.KwPrint+" "+digits+"."+digits+";", bn.KwPrint+" 0."+digits+";", "x = ["+digits+", "+digits+".5];")
				}
			}
			for _, lit := range []string{"9223372036854775807", "9223372036854775808", "18446744073709551615", "18446744073709551616", "4294967296", "2147483648", "৯২২৩৩৭২০৩৬৮৫৪৭৭৫৮০৮", "9007199254740993"} {
				cases = append(cases, bn.KwPrint+" "+lit+";", "a["+lit+"];", bn.KwPrint+" -"+lit+";", bn.KwPrint+" "+lit+".0;")
			}
			for _, n := range []int{1, 2, 63, 64, 65, 255, 256, 257, 1023, 1024, 4096, 65535, 65536, 70000} {
				cases = append(cases, bn.KwVar+" "+strings.Repeat("a", n)+" = 1;", bn.KwVar+" "+strings.Repeat("ক", n)+" = 1;", bn.KwVar+" _"+strings.Repeat("9", n)+" = 1;",
					bn.KwPrint+" \""+strings.Repeat("s", n)+"\";", bn.KwPrint+" \""+strings.Repeat("ক", n)+"\";", "o."+strings.Repeat("k", n)+" = {"+strings.Repeat("k", n)+": 1};",
					"// "+strings.Repeat("c", n)+"\n"+bn.KwPrint+" 1;", "/* "+strings.Repeat("c", n)+" */ "+bn.KwPrint+" 1;")
			}
			for _, n := range []int{1000, 20000} {
				cases = append(cases, strings.Repeat(bn.KwPrint+" 1;\n", n), strings.Repeat(bn.KwPrint+" 1; ", n), strings.Repeat(";", n), strings.Repeat("{ } ", n),
					"x = {"+strings.Repeat("k: 1, ", n)+"z: 2};", bn.KwVar+" "+strings.Repeat("v, ", n)+"w;", strings.Repeat("\n", n)+bn.KwPrint+" 1", strings.Repeat(" ", n)+bn.KwPrint+" 1;"+strings.Repeat("\t", n))
			}
			// characters that may look like part of a word but are not: inside, before and after identifiers, numbers and keywords
			for _, cp := range []string{"\u200c", "\u200d", "\u00ad", "\ufeff", "\u2060", "\u00a0", "\u200b", "\u2028", "\u0085", "\u00b7", "\u0301", "\u09cd", "\u09be", "\u0981", "\u09e6", "\u0966", "\u00b2", "\u2160", "\U0001d7d8", "\U0001f600", "\u0964", "$", "@", "'", "`", "\\", "?"} {
				for _, w := range []string{"a%sb", "ক%sখ", "_%s", "%sa", "a%s", "1%s2", "1%s", "%s1", "a%s1", "ক%s১"} {
					word := fmt.Sprintf(w, cp)
					cases = append(cases, bn.KwVar+" "+word+" = 1;", bn.KwPrint+" "+word+";", bn.KwPrint+" "+word+" + 1;")
				}
				cases = append(cases, bn.KwPrint+cp+" 1;", bn.KwPrint+" 1"+cp+";", bn.KwPrint+" 1;"+cp, cp+bn.KwPrint+" 1;", bn.KwPrint[:len(bn.KwPrint)-3]+cp+bn.KwPrint[len(bn.KwPrint)-3:]+" 1;")
			}
			// texts that are wrong only in meaning: the front end accepts them (whether and when they fail is the
			// evaluator's business), also when the doubtful part could never run
			F, V, R := bn.KwFun, bn.KwVar, bn.KwReturn
			semantic := []string{
				F + " f(a) { " + V + " a = 1; }", F + " f(a) { " + R + " a; " + V + " a = 0; }", F + " f(a, b) { " + V + " b; " + V + " a; }", F + " f(a, a) { }", F + " f(f) { }",
				V + " x = x;", "{ " + V + " x = x; }", F + " f(n) { " + V + " n = n; }", V + " a = 1; " + V + " a = 2;", V + " a, a;", V + " a = 1, a = 2;",
				F + " g() { } " + F + " g() { }", V + " g = 1; " + F + " g() { }", F + " g() { } " + V + " g = 1;",
				bn.KwBreak + ";", bn.KwContinue + ";", R + " 1;", "{ " + bn.KwBreak + "; }", bn.KwIf + " (1) " + bn.KwContinue + ";", F + " f() { " + bn.KwBreak + "; }", bn.KwWhile + " (1) { " + F + " f() { " + bn.KwBreak + "; } }",
				"undefinedName;", "undefinedName();", "1();", "nil.k;", "\"s\"[0] = 1;", "1 / 0;", "f(1, 2, 3);", bn.BLen + "();", bn.BLen + "(1, 2, 3);", bn.BLen + " = 1;", "x = " + bn.BLen + ";",
				bn.KwIf + " (" + bn.KwFalse + ") { " + V + " z = z; undefinedName(); 1 / 0; " + bn.KwBreak + "; }", F + " never() { " + V + " q = q; " + V + " q = 1; " + R + "; " + bn.KwBreak + "; }",
				bn.KwFor + " (" + V + " i = i; i; i) { }", bn.KwFor + " (" + V + " i = 0, i = 1; ; ) { " + bn.KwBreak + "; }", "{k: 1, k: 2}.k;", "x = {k: 1, k: 2};", "a = a;", "a = a = a;",
			}
			for _, t := range semantic {
				cases = append(cases, t, bn.KwPrint+" 1;\n"+t+"\n"+bn.KwPrint+" 2;", F+" wrap() {\n"+t+"\n}", bn.KwIf+" ("+bn.KwFalse+") {\n"+t+"\n}")
			}
			for _, cs := range cases {
				c.c08Text(s, "boundaries", cs, false)
			}
		})
		c.Sub("statement-kinds-in-positions", func(s *Sub) {
			var k int64
			stmtPositionTexts(func(label, text string) {
				k++
				if c.Mine(k) {
					c.c08Text(s, "statement-kinds-in-positions", text, true)
				}
			})
			c.Ev.MarkExhaustive(fmt.Sprintf("every one of %d statement kinds in every one of %d kinds of position, each statement on lines of its own", len(stmtKinds()), len(stmtPositions())))
		})
		// a name that begins like a keyword or a built-in (or is one doubled, or one followed by digits) is a name
		c.Sub("keyword-prefixed-names", func(s *Sub) {
			var words []string
			for w := range bn.Keywords {
				words = append(words, w)
			}
			sort.Strings(words)
			words = append(words, bn.Builtins...)
			var k int64
			for _, w := range words {
				for _, suffix := range []string{"x", "_", "\u09e8", "_\u0997\u09a3\u09a8\u09be", "1", w, "\u09be", "_" + w} {
					k++
					if !c.Mine(k) {
						continue
					}
					name := w + suffix
					if _, kw := bn.Keywords[name]; kw || bn.IsBuiltin(name) {
						continue
					}
					c.c08Text(s, "keyword-prefixed-names", bn.KwVar+" "+name+" = 1;\n"+bn.KwPrint+" "+name+" + 1;\n"+bn.KwFun+" f_"+name+"("+name+") { "+bn.KwReturn+" "+name+"; }\n"+bn.KwPrint+" {"+name+": 2}."+name+";\n", true)
				}
			}
			c.Ev.MarkExhaustive(fmt.Sprintf("every keyword and built-in name (%d) x 8 suffixes, used as variable, parameter and property name", len(words)))
		})
		c.Sub("lines-after-multiline-tokens", func(s *Sub) {
			if c.Shard != 0 {
				return
			}
			heads := []string{"x = \"a\x00b\";\n", "// c\x00d\n", "/* \x00 */", "x = \"\x00\"; // \x00\n", "x = \"a\u00a0\ufeff\u200b\"; // \u2028 \u0085\n", "", "x = \"a\nb\nc\";\n", "/* c1\nc2\nc3 */\n", "// lc\n\n\n", "x = \"a\nb\"; /* m\nn */ // t\n", "\n\n\t\n", "x = [\n1,\n2\n];\n", bn.KwFun + " f(\na,\nb\n) {\n" + bn.KwReturn + "\na;\n}\n"}
			tails := []string{bn.KwPrint + " 1", bn.KwPrint + " ;", "1 = 2;", "(", ")", "}", "{", "a.;", "a[1;", "f(1,;", bn.KwIf + " (1", bn.KwIf + " (1)", bn.KwElse + " 1;", bn.KwFor + " (;;", bn.KwFor + " (;;)", bn.KwWhile + " (", bn.KwFun + " g(", bn.KwFun + " g() {", bn.KwVar + " ", bn.KwVar + " v =", bn.KwVar + " " + bn.BLen + ";",
				bn.KwReturn + " ", "x = {k: 1", "x = {k: ", "x = {k", "x = [1, ", "\"open", "/* open", "#", "1 +", "1 + ;", "!", "a b;", "a = = 1;", bn.KwBreak, bn.KwContinue + " 1;"}
			for _, h := range heads {
				for _, t := range tails {
					for _, end := range []string{"", "\n", "\n\n", " // trailing", "\n/* trailing\ncomment */"} {
						c.c08Text(s, "lines-after-multiline-tokens", h+t+end, true)
						c.c08Text(s, "lines-after-multiline-tokens", h+bn.KwPrint+" \"ok\";\n"+t+end, true)
					}
				}
			}
			c.Ev.MarkExhaustive(fmt.Sprintf("%d heads with multi-line strings/comments/blank lines x %d truncated or malformed tails x 5 text endings", len(heads), len(tails)))
		})
		// the first diagnostic falls on a token that itself spans lines (a string with line breaks in it, standing where
		// no string may stand), written at every distance from the left margin and with last lines of every length
		c.Sub("errors-at-multiline-tokens", func(s *Sub) {
			var k int64
			for _, before := range []string{"nil", bn.KwPrint + " 1 ", "x = 5", "f(\"a\nb\" ", "[1, 2 ", "a.k ", bn.KwVar + " v = 1 ", bn.KwReturn + " 2 ", "(1 + 2) ", ")", "1 +"} {
				for _, pad := range []int{0, 1, 7, 40, 300} {
					for _, str := range []string{"\"\n\"", "\"ab\nc\"", "\"\n\n\n\"", "\"a\nlonger last line than anything before it on the first line of this literal\"", "\"\u0995\u09cb\n\u0996\"", "\"x\r\n\"", "\"\n"} {
						for _, after := range []string{";", "", ";\n" + bn.KwPrint + " 2;\n", " + 1;"} {
							k++
							if !c.Mine(k) {
								continue
							}
							text := bn.KwPrint + " \"first\";\n" + strings.Repeat(" ", pad) + before + str + after
							c.c08Text(s, "errors-at-multiline-tokens", text, true)
							// and as a whole run (batch mode; every fourth through the executable): rejected, nothing executed
							c.c08NoRun(s, text, k%4 == 0)
						}
					}
				}
			}
			c.Ev.MarkExhaustive("11 contexts x 5 indentations x 7 strings spanning lines x 4 continuations")
		})
		// every construct of the grammar one token away from itself: each token of a corpus of small valid texts
		// deleted, doubled, and each token of the alphabet inserted at each position (an extra comma before a closing
		// bracket, a missing separator, a doubled keyword, …); the reference parser decides each text
		c.Sub("single-token-edits", func(s *Sub) {
			var k int64
			nTexts := singleTokenEdits(func(text string) {
				k++
				if c.Mine(k) {
					c.c08Text(s, "single-token-edits", text, true)
				}
			})
			c.Ev.MarkExhaustive(fmt.Sprintf("%d small texts covering every construct x every single-token deletion, doubling, neighbour swap and insertion of each of the %d alphabet tokens", nTexts, len(tokenAlphabet)))
		})
		c.Sub("assignment-targets", func(s *Sub) {
			if c.Shard != 0 {
				return
			}
			// every expression form on the left of '=' (plain, parenthesised once and twice), at statement level and nested
			forms := []string{"a", "a[0]", "a.k", "a[0][1]", "a.k.v", "a[0].k", "a.k[0]", "f()", "f().k", "f()[0]", "f(1)(2)", "a + b", "-a", "!a", "a ** 2", "1", "\"s\"", "nil", bn.KwTrue,
				"[1]", "[1][0]", "{}", "a = b", "a[0] = b", "a " + bn.KwOr + " b", "a == b", bn.BLen, bn.BLen + "(a)", "a[b = 1]", "a[0].k.v[2]"}
			wraps := []string{"%s", "(%s)", "((%s))", "(%s)[0]", "(%s).k", "-(%s)"}
			ctxs := []string{"%s = 1;", bn.KwPrint + " %s = 1;", "x = %s = 1;", "f(%s = 1);", "[%s = 1];", bn.KwIf + " (%s = 1) { }", bn.KwVar + " v = %s = 1;", bn.KwPrint + " \"ran\";\n%s = 1;\n" + bn.KwPrint + " \"after\";"}
			for _, f := range forms {
				for _, w := range wraps {
					for _, cx := range ctxs {
						c.c08Text(s, "assignment-targets", fmt.Sprintf(cx, fmt.Sprintf(w, f)), true)
					}
				}
			}
			c.Ev.MarkExhaustive(fmt.Sprintf("%d expression forms x %d wrappings on the left of '=' in %d contexts", len(forms), len(wraps), len(ctxs)))
		})
		n := 1500
		if c.Thorough {
			n = 30000
		}
		c.Rapid("rand-assignment-targets", n/3, func(rt *rapid.T, s *Sub) {
			g := &synGen{rt: rt}
			lhs := bn.ExprText(g.expr(rapid.IntRange(0, 3).Draw(rt, "depth")), bn.Minimal)
			if rapid.Bool().Draw(rt, "wrap") {
				lhs = "(" + lhs + ")"
			}
			rhs := bn.ExprText(g.expr(1), bn.Minimal)
			ctx := rapid.SampledFrom([]string{"%s = %s;", bn.KwPrint + " %s = %s;", "q = [%s = %s];", "%s = %s = 2;"}).Draw(rt, "ctx")
			c.c08Text(s, "rand-assignment-targets", fmt.Sprintf(ctx, lhs, rhs), false)
		})
		c.Rapid("rand-edits", n, func(rt *rapid.T, s *Sub) {
			g := &synGen{rt: rt}
			prog := g.program(rapid.IntRange(1, 3).Draw(rt, "depth"), 4)
			text := bn.ProgramText(prog, bn.Minimal)
			ref := reflex.Lex([]rune(text))
			if len(ref.Diags) > 0 {
				s.Harness("generated program does not lex: %q", text)
			}
			toks := append([]bn.Tok{}, ref.Toks[:len(ref.Toks)-1]...)
			nEdits := rapid.IntRange(0, 3).Draw(rt, "edits")
			for e := 0; e < nEdits && len(toks) > 0; e++ {
				i := rapid.IntRange(0, len(toks)-1).Draw(rt, "at")
				a := rapid.SampledFrom(tokenAlphabet).Draw(rt, "tok")
				nt := bn.Tok{Kind: a.Kind, Text: a.Text, Num: a.Num, Str: a.Str}
				switch rapid.IntRange(0, 4).Draw(rt, "edit") {
				case 0: // insert
					toks = append(toks[:i], append([]bn.Tok{nt}, toks[i:]...)...)
				case 1: // delete
					toks = append(toks[:i], toks[i+1:]...)
				case 2: // replace
					toks[i] = nt
				case 3: // swap with next
					if i+1 < len(toks) {
						toks[i], toks[i+1] = toks[i+1], toks[i]
					}
				case 4: // duplicate
					toks = append(toks[:i], append([]bn.Tok{toks[i]}, toks[i:]...)...)
				}
			}
			breaks := rapid.SliceOfN(rapid.IntRange(0, 3), len(toks), len(toks)).Draw(rt, "breaks")
			out := renderTokens(toks, func(i int) int {
				if breaks[i] == 3 {
					return 1
				}
				return 0
			})
			c.c08Text(s, "rand-edits", out, false)
		})
		c.Sub("nothing-runs", func(s *Sub) {
			if c.Shard != 0 {
				return
			}
			head := bn.KwPrint + " \"MARK\";\n" + bn.KwVar + " v = " + bn.BInput + "(\"PROMPT\");\n" + bn.KwPrint + " v;\n"
			tails := []string{"#", "\"unterminated", "/* open", bn.KwPrint + " 1", bn.KwPrint + " ;", "1 = 2;", "(", "}", "{", bn.KwVar + " " + bn.BLen + " = 1;",
				bn.KwFun + " f( { }", "a.;", "x = [1,;", "999" + strings.Repeat("9", 400) + ";", bn.KwIf + " (1)", bn.KwElse + " 1;", bn.KwFor + " (;;", "@"}
			for i, tl := range tails {
				c.c08NoRun(s, head+strings.Repeat("\n", i)+tl+"\n", i%3 == 0 || c.Thorough)
				c.c08NoRun(s, head+tl+"\n"+bn.KwPrint+" \"AFTER\";\n", false)
			}
		})
	})
}

// c08NoRun: a rejected text must not execute anything (no output, no prompt).
func (c *Ctx) c08NoRun(s *Sub, src string, cli bool) {
	{
		ref := reflex.Lex([]rune(src))
		rp := refparse.Parse(ref.Toks)
		if rp.OODVarBreak || rp.OODTrailingComma || (len(ref.Diags) == 0 && rp.OK) {
			c.Ev.Discard("norun-case-not-rejected-by-reference")
			return
		}
	}
	c.Ev.Case("nothing-runs", src, true, "rejected-with-runnable-prefix")
	r := c.RunB(src, "line1\nline2\n")
	if r.Class() != "rejected" || r.Out != "" {
		s.Violation(Replay{Check: "norun", Sig: "executed", Source: src, Note: "a rejected text must be classified as rejected and execute nothing", Expected: "rejected, empty stdout", Observed: r.Describe()})
	}
	if cli {
		cr := c.CLIScript(src, "line1\nline2\n", 20*time.Second)
		if cr.Status != 65 || cr.Stdout != "" || cr.Stderr == "" {
			s.Violation(Replay{Check: "norun", Sig: "executed-cli", Source: src, Note: "CLI: rejected text must exit 65 with empty stdout and a diagnostic", Expected: "status 65, empty stdout", Observed: fmt.Sprintf("status=%d stdout=%q stderr=%q", cr.Status, clip(cr.Stdout, 200), clip(cr.Stderr, 200))})
		}
	}
}
