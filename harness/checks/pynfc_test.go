package checks

import (
	"bufio"
	"encoding/json"
	"fmt"
	"io"
	"os/exec"
)

// An independent NFC oracle: Python's unicodedata, driven as a co-process.
// The interpreter normalises with golang.org/x/text, and so does the rest of
// this harness; a differential check against a second implementation is the
// only way a defect of that library shows (findings K19, K21).  If no python3
// is installed the sub-checks that need it are skipped with a note.

type pyNFC struct {
	cmd *exec.Cmd
	in  io.WriteCloser
	out *bufio.Reader
}

const pyNFCScript = `
import sys, json, unicodedata
for line in sys.stdin:
    s = json.loads(line)
    d = unicodedata.normalize('NFKD', s)
    run = best = 0
    for ch in d:
        if unicodedata.combining(ch) != 0:
            run += 1
            best = max(best, run)
        else:
            run = 0
    sys.stdout.write(json.dumps({"nfc": unicodedata.normalize('NFC', s), "run": best}) + "\n")
    sys.stdout.flush()
`

func startPyNFC() (*pyNFC, error) {
	path, err := exec.LookPath("python3")
	if err != nil {
		return nil, err
	}
	cmd := exec.Command(path, "-u", "-c", pyNFCScript)
	in, err := cmd.StdinPipe()
	if err != nil {
		return nil, err
	}
	out, err := cmd.StdoutPipe()
	if err != nil {
		return nil, err
	}
	if err := cmd.Start(); err != nil {
		return nil, err
	}
	p := &pyNFC{cmd: cmd, in: in, out: bufio.NewReader(out)}
	// self-test: a composition, a reordering, and text that must stay as it is
	for _, tc := range [][2]string{{"é", "é"}, {"ạ́", "ạ́"}, {"ো", "ো"}, {"য়", "য়"}, {"aা্́", "aা্́"}} {
		got, _, err := p.NFC(tc[0])
		if err != nil || got != tc[1] {
			p.Close()
			return nil, fmt.Errorf("python NFC self-test failed on %+q: got %+q, %v", tc[0], got, err)
		}
	}
	return p, nil
}

// NFC returns the NFC form of s and the longest run of non-starters in its
// compatibility decomposition.
func (p *pyNFC) NFC(s string) (string, int, error) {
	b, _ := json.Marshal(s)
	if _, err := p.in.Write(append(b, '\n')); err != nil {
		return "", 0, err
	}
	line, err := p.out.ReadBytes('\n')
	if err != nil {
		return "", 0, err
	}
	var r struct {
		NFC string `json:"nfc"`
		Run int    `json:"run"`
	}
	if err := json.Unmarshal(line, &r); err != nil {
		return "", 0, err
	}
	return r.NFC, r.Run, nil
}

func (p *pyNFC) Close() {
	p.in.Close()
	p.cmd.Wait()
}
