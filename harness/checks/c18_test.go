package checks

import (
	"fmt"
	"golang.org/x/text/unicode/norm"
	"regexp"
	"sort"
	"strings"
	"testing"
	"time"

	"pgregory.net/rapid"

	"verifharness/bn"
	"verifharness/reflex"
	"verifharness/refparse"
	"verifharness/run"
)

// C18 — meaning is invariant under layout, digit script, synonyms, renaming,
// parentheses and dead code (no model: two runs must agree).

// ---- (e) parentheses and (f) dead code, on the tree ----

type c18Tree struct {
	rt      *rapid.T
	nParens int
	nDead   int
	nFresh  int
	pParen  int // 1/pParen chance per expression
	pDead   int
}

func (x *c18Tree) maybeWrap(e bn.Expr) bn.Expr {
	if e == nil {
		return nil
	}
	e = x.expr(e)
	if x.pParen > 0 && rapid.IntRange(0, x.pParen-1).Draw(x.rt, "paren") == 0 {
		x.nParens++
		return &bn.Group{E: e}
	}
	return e
}

func (x *c18Tree) exprs(es []bn.Expr) []bn.Expr {
	out := make([]bn.Expr, len(es))
	for i, e := range es {
		out[i] = x.maybeWrap(e)
	}
	return out
}

// expr rebuilds e with random redundant parentheses around value-producing
// sub-expressions (never around an assignment target).
func (x *c18Tree) expr(e bn.Expr) bn.Expr {
	switch t := e.(type) {
	case *bn.Group:
		return &bn.Group{E: x.maybeWrap(t.E)}
	case *bn.Unary:
		return &bn.Unary{Op: t.Op, R: x.maybeWrap(t.R)}
	case *bn.Binary:
		return &bn.Binary{Op: t.Op, L: x.maybeWrap(t.L), R: x.maybeWrap(t.R)}
	case *bn.Logical:
		return &bn.Logical{Op: t.Op, Sym: t.Sym, L: x.maybeWrap(t.L), R: x.maybeWrap(t.R)}
	case *bn.Assign:
		return &bn.Assign{Name: t.Name, V: x.maybeWrap(t.V)}
	case *bn.IndexSet:
		return &bn.IndexSet{A: x.maybeWrap(t.A), I: x.maybeWrap(t.I), V: x.maybeWrap(t.V)}
	case *bn.PropSet:
		return &bn.PropSet{O: x.maybeWrap(t.O), Name: t.Name, V: x.maybeWrap(t.V)}
	case *bn.Call:
		return &bn.Call{Callee: x.maybeWrap(t.Callee), Args: x.exprs(t.Args)}
	case *bn.Index:
		return &bn.Index{A: x.maybeWrap(t.A), I: x.maybeWrap(t.I)}
	case *bn.Prop:
		return &bn.Prop{O: x.maybeWrap(t.O), Name: t.Name}
	case *bn.ArrayLit:
		return &bn.ArrayLit{Elems: x.exprs(t.Elems)}
	case *bn.ObjLit:
		return &bn.ObjLit{Keys: append([]string{}, t.Keys...), Vals: x.exprs(t.Vals)}
	}
	return e
}

func (x *c18Tree) dead() bn.Stmt {
	x.nDead++
	g := &synGen{rt: x.rt}
	body := &bn.Block{Stmts: g.stmts(rapid.IntRange(0, 2).Draw(x.rt, "deadDepth"), 3, false, false)}
	// break/continue/return directly inside dead code are fine: they never run
	switch rapid.IntRange(0, 3).Draw(x.rt, "deadKind") {
	case 0:
		return &bn.If{C: bn.Bool(false), Then: body}
	case 1:
		return &bn.While{C: bn.Bool(false), Body: body}
	case 2:
		return &bn.If{C: bn.Bool(true), Then: &bn.Block{Stmts: []bn.Stmt{}}, Else: body}
	default:
		x.nFresh++
		fb := g.stmts(rapid.IntRange(0, 2).Draw(x.rt, "deadDepth2"), 3, true, false)
		return &bn.Func{Name: fmt.Sprintf("dead_fn_%d", x.nFresh), Params: []string{"dp"}, Body: fb}
	}
}

func (x *c18Tree) stmts(ss []bn.Stmt) []bn.Stmt {
	var out []bn.Stmt
	for _, s := range ss {
		if x.pDead > 0 && rapid.IntRange(0, x.pDead-1).Draw(x.rt, "dead") == 0 {
			out = append(out, x.dead())
		}
		out = append(out, x.stmt(s))
	}
	if x.pDead > 0 && rapid.IntRange(0, x.pDead-1).Draw(x.rt, "deadEnd") == 0 {
		out = append(out, x.dead())
	}
	if out == nil {
		out = []bn.Stmt{}
	}
	return out
}

func (x *c18Tree) stmt(s bn.Stmt) bn.Stmt {
	switch t := s.(type) {
	case *bn.ExprStmt:
		return exprStmt(x.maybeWrap(t.E))
	case *bn.Print:
		return &bn.Print{E: x.maybeWrap(t.E)}
	case *bn.Var:
		return &bn.Var{Name: t.Name, Init: x.maybeWrap(t.Init)}
	case *bn.VarList:
		vl := &bn.VarList{}
		for _, d := range t.Decls {
			vl.Decls = append(vl.Decls, &bn.Var{Name: d.Name, Init: x.maybeWrap(d.Init)})
		}
		return vl
	case *bn.Block:
		return &bn.Block{Stmts: x.stmts(t.Stmts)}
	case *bn.If:
		r := &bn.If{C: x.maybeWrap(t.C), Then: x.stmt(t.Then)}
		if t.Else != nil {
			r.Else = x.stmt(t.Else)
			if endsInOpenIf(r.Then) {
				// keep the else where it was
				if _, isBlock := t.Then.(*bn.Block); !isBlock && !endsInOpenIf(t.Then) {
					r.Then = t.Then
				}
			}
		}
		return r
	case *bn.While:
		return &bn.While{C: x.maybeWrap(t.C), Body: x.stmt(t.Body)}
	case *bn.For:
		r := &bn.For{Cond: x.maybeWrap(t.Cond), Incr: x.maybeWrap(t.Incr), Body: x.stmt(t.Body)}
		if t.Init != nil {
			r.Init = x.stmt(t.Init)
		}
		return r
	case *bn.Func:
		return &bn.Func{Name: t.Name, Params: append([]string{}, t.Params...), Body: x.stmts(t.Body)}
	case *bn.Return:
		return &bn.Return{V: x.maybeWrap(t.V)}
	}
	return s
}

// ---- (a)-(d) on the token stream ----

var c18FreshLatin = []string{"zq", "renamed", "Alt", "v_", "_u", "nm"}

// Names that published collision lists give for the hash functions a symbol table is usually keyed by (pairs
// stand next to each other): 32-bit FNV-1 / FNV-1a, Java's 31-polynomial, djb2, CRC-32, and two Bangla pairs for
// FNV-1a.  Different names are different variables, whatever they hash to — a dictionary of hostile constants,
// which can only speak about the hash functions it knows.
var c18Collisions = []string{"costarring", "liquid", "declinate", "macallums", "altarage", "zinke", "altarages", "zinkes",
	"Aa", "BB", "AaAa", "BBBB", "AaBB", "BBAa", "hetairas", "mentioner", "heliotropes", "neurospora", "depravement", "serafins", "stylist", "subgenera",
	"joyful", "synaphea", "redescribed", "urites", "dram", "vivency", "plumless", "buckeroo", "codding", "gnu", "exhibiters", "schlager",
	"মেসো", "ফিশিমি", "পটা", "জমালি"}

// (the second half are names that NFC would rewrite — precomposed letters excluded from composition — and
// their decomposed spellings: names are used as written, never normalised)
var c18FreshBangla = []string{"নতুন", "চলক", "মান_", "ক্ষ", "সম\u09df", "ব\u09dc", "গা\u09dd", "সম\u09af\u09bc", "ব\u09a1\u09bc", "\u09df", "ক\u09c7\u09be", "ক\u09cb"}

// userNames collects identifier spellings that are variables, functions or
// parameters (not property names after '.', not object keys before ':', not
// built-in names).
func userNames(toks []bn.Tok) []string {
	seen := map[string]bool{}
	var out []string
	for i, t := range toks {
		if t.Kind != bn.TIdent || bn.IsBuiltin(t.Text) {
			continue
		}
		if i > 0 && toks[i-1].Kind == bn.TDot {
			continue
		}
		if i+1 < len(toks) && toks[i+1].Kind == bn.TColon {
			continue
		}
		if !seen[t.Text] {
			seen[t.Text] = true
			out = append(out, t.Text)
		}
	}
	return out
}

func otherScript(r rune) rune {
	if r >= '0' && r <= '9' {
		return 0x09E6 + (r - '0')
	}
	if r >= 0x09E6 && r <= 0x09EF {
		return '0' + (r - 0x09E6)
	}
	return r
}

type c18Counts struct{ layout, digits, synonyms, renames, parens, dead int }

// transformTokens applies (b) digit swap, (c) synonym exchange, (d) renaming
// and (a) layout, returning the new text and the inverse renaming.
func transformTokens(rt *rapid.T, toks []bn.Tok, doDigits, doSyn, doRename, doLayout bool, cnt *c18Counts) (string, map[string]string) {
	inverse := map[string]string{}
	rename := map[string]string{}
	if doRename {
		names := userNames(toks)
		used := map[string]bool{}
		for _, t := range toks {
			if t.Kind == bn.TIdent {
				used[t.Text] = true
			}
		}
		collide := rapid.IntRange(0, 5).Draw(rt, "collidingNames") == 0
		at := 2 * rapid.IntRange(0, len(c18Collisions)/2-1).Draw(rt, "collisionPair")
		for i, n := range names {
			if !collide && rapid.IntRange(0, 3).Draw(rt, "renameThis") == 0 {
				continue
			}
			var fresh string
			if collide {
				fresh = c18Collisions[(at+i)%len(c18Collisions)]
			} else if rapid.Bool().Draw(rt, "bangla") {
				fresh = fmt.Sprintf("%s_%d", c18FreshBangla[rapid.IntRange(0, len(c18FreshBangla)-1).Draw(rt, "fb")], i)
			} else {
				fresh = fmt.Sprintf("%s_%d", c18FreshLatin[rapid.IntRange(0, len(c18FreshLatin)-1).Draw(rt, "fl")], i)
			}
			if used[fresh] || bn.IsBuiltin(fresh) {
				continue
			}
			if _, kw := bn.Keywords[fresh]; kw {
				continue
			}
			used[fresh] = true
			rename[n] = fresh
			inverse[fresh] = n
			cnt.renames++
		}
	}
	// var-declaration spans: no line breaks inside
	inDecl := make([]bool, len(toks))
	for i := 0; i < len(toks); i++ {
		if toks[i].Kind == bn.TVar {
			depth := 0
			j := i
			for ; j < len(toks); j++ {
				switch toks[j].Kind {
				case bn.TLParen, bn.TLBracket, bn.TLBrace:
					depth++
				case bn.TRParen, bn.TRBracket, bn.TRBrace:
					depth--
				}
				inDecl[j] = true
				if toks[j].Kind == bn.TSemi && depth <= 0 || toks[j].Kind == bn.TEOF {
					break
				}
			}
			i = j
		}
	}
	var b strings.Builder
	for i, t := range toks {
		if t.Kind == bn.TEOF {
			break
		}
		text := t.Text
		switch {
		case t.Kind == bn.TNumber && doDigits:
			var nb strings.Builder
			for _, r := range text {
				if rapid.Bool().Draw(rt, "swapDigit") {
					r = otherScript(r)
					cnt.digits++
				}
				nb.WriteRune(r)
			}
			text = nb.String()
		case t.Kind == bn.TOrOr && doSyn && rapid.Bool().Draw(rt, "syn"):
			if text == "||" {
				text = bn.KwOr
			} else {
				text = "||"
			}
			cnt.synonyms++
		case t.Kind == bn.TAndAnd && doSyn && rapid.Bool().Draw(rt, "syn"):
			if text == "&&" {
				text = bn.KwAnd
			} else {
				text = "&&"
			}
			cnt.synonyms++
		case t.Kind == bn.TIdent:
			isProp := i > 0 && toks[i-1].Kind == bn.TDot
			isKey := i+1 < len(toks) && toks[i+1].Kind == bn.TColon
			if r, ok := rename[text]; ok && !isProp && !isKey {
				text = r
			}
		}
		b.WriteString(text)
		// separator after the token
		noBreak := inDecl[i] && !(toks[i].Kind == bn.TSemi) || (i+1 < len(toks) && inDecl[i+1] && toks[i+1].Kind != bn.TVar && inDecl[i])
		if inDecl[i] && toks[i].Kind == bn.TSemi {
			noBreak = false
		}
		if !doLayout {
			// original line structure: newline when the next token is on a later line
			if i+1 < len(toks) && toks[i+1].Line > t.Line {
				b.WriteString("\n")
			} else {
				b.WriteString(" ")
			}
			continue
		}
		origBreak := i+1 < len(toks) && toks[i+1].Line > t.Line
		n := rapid.IntRange(1, 3).Draw(rt, "seps")
		wrote := false
		for k := 0; k < n; k++ {
			choice := rapid.IntRange(0, 8).Draw(rt, "sep")
			if choice == 1 || choice == 3 || choice == 4 {
				// a comment right after '/' would merge with it into a comment opener
				if cur := b.String(); strings.HasSuffix(cur, "/") {
					b.WriteString(" ")
				}
			}
			switch {
			case choice == 0:
				b.WriteString("\t")
			case choice == 1:
				b.WriteString([]string{"/* c" + fmt.Sprint(k) + " */", "/**/", "/***/", "/* x **/", "/** doc **/", "/*/ toggle */", "/* a * b / c */", "/*\t*/"}[rapid.IntRange(0, 7).Draw(rt, "commentForm")])
			case choice == 2 && !noBreak:
				b.WriteString("\n")
				cnt.layout++
			case choice == 7:
				// a carriage return is a blank, with or without a line feed after it
				b.WriteString("\r")
			case choice == 8 && !noBreak:
				b.WriteString("\r\n")
				cnt.layout++
			case choice == 3 && !noBreak:
				b.WriteString("// line comment ; } \"\n")
				cnt.layout++
			case choice == 4 && !noBreak:
				b.WriteString("/* multi\n line */")
				cnt.layout++
			default:
				b.WriteString(" ")
			}
			wrote = true
		}
		if !wrote {
			b.WriteString(" ")
		}
		if origBreak && !noBreak && rapid.Bool().Draw(rt, "keepBreak") {
			b.WriteString("\n")
		}
	}
	out := b.String()
	if doLayout && rapid.IntRange(0, 3).Draw(rt, "squeeze") == 0 {
		// the other direction of (a): every optional blank and comment removed, tokens kept on their lines
		if sq, ok := squeezeText(out); ok {
			out = sq
			cnt.layout++
		}
	}
	return out, inverse
}

var lineNoRe = regexp.MustCompile(`line \d+`)

func c18Normalize(s string, inverse map[string]string) string {
	s = lineNoRe.ReplaceAllString(s, "line N")
	if len(inverse) == 0 {
		return s
	}
	// map renamed names back.  দেখাও writes NFC while diagnostics quote names as written, and the fresh names
	// include spellings that NFC rewrites, so the whole text and every name are compared in NFC; longest name
	// first, so that name_10 is not taken for name_1 followed by 0.
	s = norm.NFC.String(s)
	type pair struct{ from, to string }
	var ps []pair
	for k, v := range inverse {
		ps = append(ps, pair{norm.NFC.String(k), v})
	}
	sort.Slice(ps, func(i, j int) bool {
		if len(ps[i].from) != len(ps[j].from) {
			return len(ps[i].from) > len(ps[j].from)
		}
		return ps[i].from < ps[j].from
	})
	for _, p := range ps {
		s = strings.ReplaceAll(s, p.from, p.to)
	}
	return s
}

func (c *Ctx) c18Pair(s *Sub, sub string, seed seedProg, transformed string, inverse map[string]string, cli bool, fam string) {
	a := c.W().Run(run.Req{Src: seed.Src, Stdin: seed.Stdin, Budget: 400000})
	if a.Class() == run.Budget || a.Class() == run.Hung {
		c.Ev.Discard("seed-over-budget")
		return
	}
	b := c.W().Run(run.Req{Src: transformed, Stdin: seed.Stdin, Budget: 1200000})
	nt := strings.TrimSpace(transformed) != strings.TrimSpace(seed.Src) && (a.Out != "" || a.Class() != run.Clean)
	c.Ev.Case(sub, transformed, nt, "seed-"+seed.Kind, "class-"+a.Class(), "family-"+fam)
	if a.Class() == run.Abnormal {
		return // abnormal termination of the seed itself is C07's subject
	}
	// every diagnostic, not only the first: how many are written and what they say is part of "why it fails"
	bo, be := c18Normalize(b.Out, inverse), c18Normalize(b.Err, inverse)
	ao, ae := c18Normalize(a.Out, inverse), c18Normalize(a.Err, inverse)
	if a.Class() != b.Class() || ao != bo || ae != be {
		s.Violation(Replay{Check: "invariance", Sig: "changed-" + fam, Source: transformed, Stdin: seed.Stdin, Extra: map[string]string{"seed": seed.Src, "inverse": fmt.Sprint(inverse)},
			Note:     "the transformed program (" + fam + ") behaves differently from the seed",
			Expected: seed.Src + "\n=> " + a.Describe(), Observed: b.Describe()})
	}
	if cli {
		ca := c.CLIScript(seed.Src, seed.Stdin, 20*time.Second)
		cb := c.CLIScript(transformed, seed.Stdin, 20*time.Second)
		if ca.Status != cb.Status || c18Normalize(ca.Stdout, inverse) != c18Normalize(cb.Stdout, inverse) {
			s.Violation(Replay{Check: "invariance", Sig: "changed-cli-" + fam, Source: transformed, Stdin: seed.Stdin, Extra: map[string]string{"seed": seed.Src},
				Note:     "CLI: the transformed program behaves differently from the seed",
				Expected: fmt.Sprintf("status=%d stdout=%q", ca.Status, clip(ca.Stdout, 300)), Observed: fmt.Sprintf("status=%d stdout=%q", cb.Status, clip(cb.Stdout, 300))})
		}
	}
}

// c18Transform builds the transformed text of a seed; families selects which
// of the six transformation families are applied.
func (c *Ctx) c18Transform(rt *rapid.T, s *Sub, seed seedProg, fam [6]bool, cnt *c18Counts) (string, map[string]string, bool) {
	ref := reflex.Lex([]rune(seed.Src))
	if len(ref.Diags) > 0 {
		return "", nil, false
	}
	rp := refparse.Parse(ref.Toks)
	if !rp.OK || rp.OODTrailingComma {
		return "", nil, false
	}
	text := seed.Src
	toks := ref.Toks
	if fam[4] || fam[5] {
		x := &c18Tree{rt: rt}
		if fam[4] {
			x.pParen = 4
		}
		if fam[5] {
			x.pDead = 5
		}
		prog := x.stmts(rp.Prog)
		cnt.parens += x.nParens
		cnt.dead += x.nDead
		text = bn.ProgramText(prog, bn.Minimal)
		r2 := reflex.Lex([]rune(text))
		p2 := refparse.Parse(r2.Toks)
		if len(r2.Diags) > 0 || !p2.OK || p2.OODVarBreak {
			s.Harness("transformed tree does not print to a valid program:\n%s", text)
		}
		toks = r2.Toks
	} else if rp.OODVarBreak {
		// re-print so that every declaration sits on one line
		text = bn.ProgramText(rp.Prog, bn.Minimal)
		toks = reflex.Lex([]rune(text)).Toks
	}
	out, inverse := transformTokens(rt, toks, fam[1], fam[2], fam[3], fam[0], cnt)
	// the result must still be a valid, in-domain program
	r3 := reflex.Lex([]rune(out))
	p3 := refparse.Parse(r3.Toks)
	if len(r3.Diags) > 0 || !p3.OK || p3.OODVarBreak {
		s.Harness("token-level transformation produced an invalid program:\n%s", out)
	}
	return out, inverse, true
}

func TestC18(t *testing.T) {
	Main(t, "C18", func(c *Ctx) {
		c.OnReplay("invariance", func(s *Sub, rp *Replay) {
			seed := seedProg{Src: rp.Extra["seed"], Stdin: rp.Stdin, Kind: "replay"}
			inverse := map[string]string{}
			inv := strings.TrimSuffix(strings.TrimPrefix(rp.Extra["inverse"], "map["), "]")
			for _, kv := range strings.Fields(inv) {
				if i := strings.LastIndex(kv, ":"); i > 0 {
					inverse[kv[:i]] = kv[i+1:]
				}
			}
			c.c18Pair(s, "replay", seed, rp.Source, inverse, true, "replay")
		})
		c.ReplayTier()
		examples := shippedExamples()
		famNames := []string{"layout", "digits", "synonyms", "renaming", "parentheses", "dead-code"}

		c.Sub("examples-each-family", func(s *Sub) {
			if c.Shard != 0 {
				return
			}
			if len(examples) == 0 {
				s.Harness("no shipped examples found")
			}
		})
		n := 700
		if c.Thorough {
			n = 20000
		}
		// (a) also holds for text that is not a valid program: the diagnostics it gets — how many, which, about
		// which token — may not depend on layout.  Seeds are damaged at token level (a token dropped, doubled,
		// swapped with its neighbour or replaced), written on one line, and re-laid out.
		c.Rapid("layout-of-invalid-programs", n/4, func(rt *rapid.T, s *Sub) {
			seed := drawSeed(rt, examples)
			ref := reflex.Lex([]rune(seed.Src))
			if len(ref.Diags) > 0 || len(ref.Toks) < 3 {
				c.Ev.Discard("seed-not-lexable")
				return
			}
			var parts []string
			for _, t := range ref.Toks {
				if t.Kind != bn.TEOF {
					parts = append(parts, t.Text)
				}
			}
			repl := []string{";", ")", "(", "}", "{", ",", "=", "+", ".", "]", "[", ":", bn.KwVar, bn.KwElse, bn.KwFun, bn.KwReturn, "1", "x", "\"s\""}
			nm := rapid.IntRange(1, 2).Draw(rt, "damage")
			for k := 0; k < nm && len(parts) > 1; k++ {
				i := rapid.IntRange(0, len(parts)-1).Draw(rt, "at")
				switch rapid.IntRange(0, 3).Draw(rt, "how") {
				case 0:
					parts = append(parts[:i:i], parts[i+1:]...)
				case 1:
					parts = append(parts[:i+1:i+1], parts[i:]...)
				case 2:
					if i+1 < len(parts) {
						parts[i], parts[i+1] = parts[i+1], parts[i]
					}
				default:
					parts[i] = rapid.SampledFrom(repl).Draw(rt, "with")
				}
			}
			base := strings.Join(parts, " ") + "\n"
			rb := reflex.Lex([]rune(base))
			if len(rb.Diags) > 0 {
				// the token list would not carry the offending characters
				c.Ev.Discard("damaged-text-not-lexable")
				return
			}
			invalid := !refparse.Parse(rb.Toks).OK
			var cnt c18Counts
			out, _ := transformTokens(rt, rb.Toks, false, false, false, true, &cnt)
			// the layout may only add separators: the token texts must be unchanged
			ro := reflex.Lex([]rune(out))
			if len(ro.Toks) != len(rb.Toks) {
				s.Harness("layout changed the token sequence:\n%s\n---\n%s", base, out)
			}
			kind := "damaged-still-valid"
			if invalid {
				kind = "damaged-invalid"
			}
			c.c18Pair(s, "layout-of-invalid-programs", seedProg{Src: base, Stdin: seed.Stdin, Kind: kind}, out, map[string]string{}, rapid.IntRange(0, 24).Draw(rt, "cli") == 0, "layout-invalid")
		})
		for fi := 0; fi < 7; fi++ {
			fi := fi
			name := "all-families-combined"
			if fi < 6 {
				name = "family-" + famNames[fi]
			}
			cases := n / 4
			if fi == 6 {
				cases = n
			}
			c.Rapid(name, cases, func(rt *rapid.T, s *Sub) {
				seed := drawSeed(rt, examples)
				var fam [6]bool
				if fi < 6 {
					fam[fi] = true
				} else {
					any := false
					for k := range fam {
						fam[k] = rapid.Bool().Draw(rt, "fam")
						any = any || fam[k]
					}
					if !any {
						fam[0] = true
					}
				}
				var cnt c18Counts
				out, inverse, ok := c.c18Transform(rt, s, seed, fam, &cnt)
				if !ok {
					c.Ev.Discard("seed-not-a-valid-program")
					return
				}
				c.c18Pair(s, name, seed, out, inverse, rapid.IntRange(0, 24).Draw(rt, "cli") == 0, name)
			})
		}
	})
}
