package checks

import (
	"fmt"
	"strings"
	"testing"

	"pgregory.net/rapid"

	"verifharness/bn"
	"verifharness/model"
)

// C11 — arrays are bounds-checked shared references; লেন/এড/রিমুভ are pure.

// generator-side bookkeeping (only to produce valid indexes and avoid cycles;
// the oracle is the independent model package evaluating the program text)
type gList struct {
	elems []gElem
	id    int
}
type gElem struct {
	n   int
	sub *gList
}

type c11Gen struct {
	pick    func(string, int) int
	uniq    int
	nextID  int
	vars    map[string]*gList
	names   []string
	b       strings.Builder
	aliased bool // two names denote one list
	nt      bool
	pushed  map[int]int
	steps   int
}

func (g *c11Gen) u() int { g.uniq++; return 10 + g.uniq }

// val: the value stored by the next write — mostly a fresh number, one time
// in four a value of another kind (nil first: a store of nil is a store).
var c11OddVals = []string{"nil", bn.KwFalse, "nothing()", "\"\"", "0", bn.KwTrue, "\"s\"", "0.5", "{}", "[]", "wr", "((1 << 62) | 1)", "(~(1 << 63))", "(-0)", "(2 ** 1024)"}

func (g *c11Gen) val() (string, gElem) {
	if g.pick("valKind", 4) != 1 {
		v := g.u()
		return fmt.Sprint(v), gElem{n: v}
	}
	return c11OddVals[g.pick("oddVal", len(c11OddVals))], gElem{n: -1}
}

func (g *c11Gen) newList(n int, allowNested bool) (*gList, string) {
	g.nextID++
	l := &gList{id: g.nextID}
	parts := []string{}
	for i := 0; i < n; i++ {
		if allowNested && g.pick("nested", 6) == 0 {
			sub, txt := g.newList(1+g.pick("sublen", 2), false)
			l.elems = append(l.elems, gElem{sub: sub})
			parts = append(parts, txt)
		} else {
			txt, e := g.val()
			l.elems = append(l.elems, e)
			parts = append(parts, txt)
		}
	}
	return l, "[" + strings.Join(parts, ", ") + "]"
}

func (g *c11Gen) reaches(from, to *gList) bool {
	if from == to {
		return true
	}
	for _, e := range from.elems {
		if e.sub != nil && g.reaches(e.sub, to) {
			return true
		}
	}
	return false
}

func (g *c11Gen) aliasCount(l *gList) int {
	n := 0
	for _, nm := range g.names {
		if g.vars[nm] == l {
			n++
		}
	}
	// also held as an element of another list
	for _, nm := range g.names {
		for _, e := range g.vars[nm].elems {
			if e.sub == l {
				n++
			}
		}
	}
	return n
}

func (g *c11Gen) w(format string, a ...interface{}) {
	g.b.WriteString(fmt.Sprintf(format, a...) + "\n")
}

func (g *c11Gen) dump() {
	for _, nm := range g.names {
		g.w("%s %s;", bn.KwPrint, nm)
		g.w("%s %s(%s);", bn.KwPrint, bn.BLen, nm)
	}
}

func (g *c11Gen) mutated(l *gList) {
	if g.aliasCount(l) >= 2 {
		g.nt = true
	}
}

func (g *c11Gen) action() {
	g.steps++
	x := g.names[g.pick("x", len(g.names))]
	y := g.names[g.pick("y", len(g.names))]
	lx := g.vars[x]
	switch g.pick("action", 18) {
	case 16: // grow far beyond a handful of elements, across the sizes at which a growing buffer is usually reallocated
		n := []int{7, 8, 9, 15, 16, 17, 31, 32, 33, 63, 64, 65, 100, 255, 256, 257}[g.pick("bulk", 16)]
		g.nextID++
		nl := &gList{id: g.nextID, elems: append([]gElem{}, lx.elems...)}
		for i := 0; i < n; i++ {
			nl.elems = append(nl.elems, gElem{n: -1})
		}
		g.vars[x] = nl
		g.w("%s (%s i = 0; i < %d; i = i + 1) { %s = %s(%s, i * 3); }", bn.KwFor, bn.KwVar, n, x, bn.BPush, x)
		g.w("%s %s[%s(%s) - 1];", bn.KwPrint, x, bn.BLen, x)
		return
	case 17: // shrink from either end until few elements are left: an array that was longer before
		if len(lx.elems) < 3 {
			g.w("%s %s;", bn.KwPrint, x)
			return
		}
		keep := 1 + g.pick("keep", 2)
		g.nextID++
		nl := &gList{id: g.nextID}
		if g.pick("fromFront", 2) == 0 {
			nl.elems = append(nl.elems, lx.elems[len(lx.elems)-keep:]...)
			g.w("%s (%s(%s) > %d) { %s = %s(%s, 0); }", bn.KwWhile, bn.BLen, x, keep, x, bn.BRemove, x)
		} else {
			nl.elems = append(nl.elems, lx.elems[:keep]...)
			g.w("%s (%s(%s) > %d) { %s = %s(%s, %s(%s) - 1); }", bn.KwWhile, bn.BLen, x, keep, x, bn.BRemove, x, bn.BLen, x)
		}
		g.vars[x] = nl
		return
	case 0: // fresh literal
		l, txt := g.newList(g.pick("len", 6), true)
		g.vars[x] = l
		g.w("%s = %s;", x, txt)
	case 1: // alias by assignment
		g.vars[x] = g.vars[y]
		g.w("%s = %s;", x, y)
	case 2: // store one array as an element of another
		ly := g.vars[y]
		if len(lx.elems) == 0 || g.reaches(ly, lx) {
			g.w("%s %s(%s);", bn.KwPrint, bn.BLen, x)
			return
		}
		i := g.pick("index", len(lx.elems))
		lx.elems[i] = gElem{sub: ly}
		g.mutated(lx)
		g.w("%s[%d] = %s;", x, i, y)
	case 3: // read an array element back into a variable (only if it is an array) else print it
		if len(lx.elems) == 0 {
			g.w("%s %s;", bn.KwPrint, x)
			return
		}
		i := g.pick("index", len(lx.elems))
		if lx.elems[i].sub != nil {
			g.vars[y] = lx.elems[i].sub
			g.w("%s = %s[%d];", y, x, i)
		} else {
			g.w("%s %s[%d];", bn.KwPrint, x, i)
		}
	case 4: // write through a function parameter
		if len(lx.elems) == 0 {
			g.w("%s %s;", bn.KwPrint, x)
			return
		}
		i := g.pick("index", len(lx.elems))
		v, e := g.val()
		lx.elems[i] = e
		g.mutated(lx)
		g.w("wr(%s, %d, %s);", x, i, v)
	case 5, 6: // indexed write
		if len(lx.elems) == 0 {
			g.w("%s %s;", bn.KwPrint, x)
			return
		}
		i := g.pick("index", len(lx.elems))
		v, e := g.val()
		lx.elems[i] = e
		g.mutated(lx)
		if g.pick("viaLen", 3) == 0 && i == len(lx.elems)-1 {
			g.w("%s[%s(%s) - 1] = %s;", x, bn.BLen, x, v)
		} else {
			g.w("%s[%d] = %s;", x, i, v)
		}
	case 14: // unusual spellings of a valid index
		if len(lx.elems) == 0 {
			g.w("%s %s;", bn.KwPrint, x)
			return
		}
		i := g.pick("index", len(lx.elems))
		forms := []string{"(0 - 0) + %d", "(%d | 0)", "%d.0", "(%d * 1.0)", "(%d + 0.5 - 0.5)", "%d %% 1000", "(2 ** 53) - (2 ** 53) + %d", bn.BRound + "(%d.2)", "(-0) + %d"}
		f := fmt.Sprintf(forms[g.pick("indexForm", len(forms))], i)
		g.w("%s %s[%s];", bn.KwPrint, x, f)
		v, e := g.val()
		lx.elems[i] = e
		g.mutated(lx)
		g.w("%s[%s] = %s;", x, f, v)
	case 7: // লেন used as a number
		switch g.pick("lenuse", 8) {
		case 4: // the count as a condition and under the logical operators: 0 is falsy like any other 0
			g.w("%s (%s(%s)) %s \"has-elements\"; %s %s \"empty\";", bn.KwIf, bn.BLen, x, bn.KwPrint, bn.KwElse, bn.KwPrint)
			g.w("%s !%s(%s);", bn.KwPrint, bn.BLen, x)
		case 5:
			g.w("%s %s(%s) %s \"none\";", bn.KwPrint, bn.BLen, x, bn.KwOr)
			g.w("%s %s(%s) %s \"some\";", bn.KwPrint, bn.BLen, x, bn.KwAnd)
		case 6: // drain a copy: the loop ends when the count reaches 0
			g.w("drain = %s;", x)
			g.w("%s (%s(drain)) { drain = %s(drain, 0); }", bn.KwWhile, bn.BLen, bn.BRemove)
			g.w("%s %s(drain);", bn.KwPrint, bn.BLen)
		case 7:
			g.w("%s %s(%s(%s([], 1), 0));", bn.KwPrint, bn.BLen, bn.BRemove, bn.BPush)
			g.w("%s (%s([])) %s \"T\"; %s %s \"F\";", bn.KwIf, bn.BLen, bn.KwPrint, bn.KwElse, bn.KwPrint)
		case 0:
			g.w("%s %s(%s) + 1;", bn.KwPrint, bn.BLen, x)
		case 1:
			if len(lx.elems) > 0 {
				g.w("%s %s[%s(%s) - 1];", bn.KwPrint, x, bn.BLen, x)
			} else {
				g.w("%s %s(%s) * 2;", bn.KwPrint, bn.BLen, x)
			}
		case 2:
			g.w("%s (%s i = 0; i < %s(%s); i = i + 1) %s %s[i];", bn.KwFor, bn.KwVar, bn.BLen, x, bn.KwPrint, x)
		default:
			g.w("%s %s(%s) == %d;", bn.KwPrint, bn.BLen, x, len(lx.elems))
		}
	case 8, 9, 10: // এড
		n := 1 + g.pick("extras", 3)
		g.nextID++
		nl := &gList{id: g.nextID, elems: append([]gElem{}, lx.elems...)}
		args := []string{x}
		for i := 0; i < n; i++ {
			if g.pick("selfArg", 6) == 1 {
				// the array itself among the values appended: the result holds it as an element (by reference)
				nl.elems = append(nl.elems, gElem{sub: lx})
				args = append(args, x)
				continue
			}
			v, e := g.val()
			nl.elems = append(nl.elems, e)
			args = append(args, v)
		}
		if g.pushed == nil {
			g.pushed = map[int]int{}
		}
		g.pushed[lx.id]++
		if g.pushed[lx.id] >= 2 {
			g.nt = true
		}
		g.mutated(lx)
		call := bn.BPush + "(" + strings.Join(args, ", ") + ")"
		if g.pick("drop", 5) == 0 {
			g.w("%s;", call)
		} else {
			g.vars[y] = nl
			g.w("%s = %s;", y, call)
		}
	case 12: // a fresh array from a literal that is evaluated again and again (function body / parenthesised / nested)
		switch g.pick("maker", 4) {
		case 0:
			g.nextID++
			g.vars[x] = &gList{id: g.nextID, elems: []gElem{{n: 7}, {n: 8}, {n: 9}}}
			g.w("%s = mk();", x)
		case 1:
			g.nextID += 3
			g.vars[x] = &gList{id: g.nextID, elems: []gElem{{sub: &gList{id: g.nextID - 1, elems: []gElem{{n: 1}, {n: 2}}}}, {sub: &gList{id: g.nextID - 2, elems: []gElem{{n: 3}}}}}}
			g.w("%s = mkn();", x)
		case 2:
			g.nextID++
			g.vars[x] = &gList{id: g.nextID, elems: []gElem{{n: 5}, {n: 6}}}
			g.w("%s = mkp();", x)
		default:
			// the same literal node evaluated three times in a loop, each result written to and kept
			g.w("keep = [];")
			g.w("%s (%s i = 0; i < 3; i = i + 1) { %s t = [0, 0]; t[0] = i + 1; keep = %s(keep, t); }", bn.KwFor, bn.KwVar, bn.KwVar, bn.BPush)
			g.w("%s keep;", bn.KwPrint)
			g.w("keep[1][1] = 50;")
			g.w("%s keep;", bn.KwPrint)
		}
	case 11: // keep an array in an object property and read it back through the property
		g.w("holder.p = %s;", x)
		g.w("%s = holder.p;", y)
		g.vars[y] = lx
		g.w("%s holder.p;", bn.KwPrint)
		if len(lx.elems) > 0 && g.pick("viaHolder", 2) == 0 {
			i := g.pick("index", len(lx.elems))
			v, e := g.val()
			lx.elems[i] = e
			g.mutated(lx)
			g.w("holder.p[%d] = %s;", i, v)
		}
	default: // রিমুভ
		if len(lx.elems) == 0 {
			g.w("%s %s;", bn.KwPrint, x)
			return
		}
		i := g.pick("index", len(lx.elems))
		g.nextID++
		nl := &gList{id: g.nextID}
		nl.elems = append(append(nl.elems, lx.elems[:i]...), lx.elems[i+1:]...)
		g.mutated(lx)
		if g.pick("drop", 5) == 0 {
			g.w("%s(%s, %d);", bn.BRemove, x, i)
		} else {
			g.vars[y] = nl
			g.w("%s = %s(%s, %d);", y, bn.BRemove, x, i)
		}
	}
}

var c11Faults = []string{"%s[~(1 << 63)]", "%s[~(1 << 63)] = 1", bn.BRemove + "(%s, ~(1 << 63))", "%s[1 << 63]", bn.BRemove + "(%s, 1 << 63)", "%s[(1 << 62) | 1]", bn.BRemove + "(%s, 4294967296)", "%s[4294967296]", "%s[0 - 4294967296] = 1",
	"%s[(2 ** 1024)]", "%s[(2 ** 1024) - (2 ** 1024)]", "%s[2 ** 63]", "%s[9007199254740992]", "%s[0 - (2 ** 63)]", "%s[1 / 3]", bn.BRemove + "(%s, (2 ** 1024))", "%s[0.999999999999]", "%s[1 << 40]", "%s[~0]",
	"%s[\"1.5\"]", "%s[\"0.5\"] = 1", bn.BRemove + "(%s, \"0.9\")", "%s[\"-1\"]", "%s[\"99\"]", "%s[\"১.৫\"]", "%s[\"1e-1\"]", "%s[\"nan\"]", bn.BRemove + "(%s, \"-0.5\")", "%s[\"-0.5\"] = 1",
	"%s[0 - 1]", "%s[%s(%s)]", "%s[%s(%s) + 7]", "%s[0.5]", "%s[nil]", "%s[" + bn.KwTrue + "]", "%s[\"k\"]", "%s[[0]]",
	"%s[0 - 1] = 1", "%s[%s(%s)] = 1", "%s[0.5] = 1", "%s[nil] = 1", "%s[0 - 1] = nil", "%s[%s(%s)] = nil", "%s[%s(%s) + 7] = nothing()", "%s[0.5] = nil", "%s[\"k\"] = " + bn.KwFalse + "", "%s[nil] = nil",
	bn.BRemove + "(%s, 0 - 1)", bn.BRemove + "(%s, %s(%s))", bn.BRemove + "(%s, 0.5)", bn.BRemove + "(%s, nil)", bn.BRemove + "(%s, \"k\")",
	bn.BLen + "(5)", bn.BLen + "(nil)", bn.BLen + "(\"abc\")", bn.BLen + "({a: 1})", bn.BPush + "(5, 1)", bn.BPush + "(nil, 1)", bn.BRemove + "(5, 0)", bn.BRemove + "(\"abc\", 0)", "5[0]", "nil[0]", "\"abc\"[0]", "5[0] = 1"}

func (g *c11Gen) program(nActions int, fault int) string {
	g.vars = map[string]*gList{}
	g.names = []string{"A", "B", "C"}
	g.w("%s wr(p, i, v) { p[i] = v; }", bn.KwFun)
	g.w("%s nothing() { }", bn.KwFun)
	g.w("%s holder = {p: nil};", bn.KwVar)
	g.w("%s keep = [];", bn.KwVar)
	g.w("%s drain = nil;", bn.KwVar)
	g.w("%s mk() { %s [7, 8, 9]; }", bn.KwFun, bn.KwReturn)
	g.w("%s mkn() { %s [[1, 2], [3]]; }", bn.KwFun, bn.KwReturn)
	g.w("%s mkp() { %s ([5, 6]); }", bn.KwFun, bn.KwReturn)
	la, ta := g.newList(1+g.pick("len", 4), false)
	lb, tb := g.newList(g.pick("len", 4), false)
	g.vars["A"], g.vars["B"], g.vars["C"] = la, lb, la
	g.w("%s A = %s;", bn.KwVar, ta)
	g.w("%s B = %s;", bn.KwVar, tb)
	g.w("%s C = A;", bn.KwVar)
	g.dump()
	for i := 0; i < nActions; i++ {
		g.action()
		g.dump()
	}
	if fault >= 0 {
		f := c11Faults[fault%len(c11Faults)]
		x := g.names[g.pick("x", len(g.names))]
		n := strings.Count(f, "%s")
		var args []interface{}
		switch n {
		case 1:
			args = []interface{}{x}
		case 3:
			args = []interface{}{x, bn.BLen, x}
		}
		g.w("%s \"before-fault\";", bn.KwPrint)
		g.w("%s %s;", bn.KwPrint, fmt.Sprintf(f, args...))
		g.w("%s \"after-fault\";", bn.KwPrint)
		g.dump()
	}
	return g.b.String()
}

func (c *Ctx) c11Program(s *Sub, sub, src string, nt bool, labels ...string) {
	mc := c.runModelCase(s, src, "", model.Options{MaxSteps: 60000}, judgeOpts{checkLine: true, checkKind: true})
	if mc.Res.Outcome == model.OverBudget {
		return
	}
	labels = append(labels, "outcome-"+mc.Res.Outcome.String())
	if mc.Res.Outcome == model.RuntimeError {
		labels = append(labels, "error-"+mc.Res.ErrKind)
	}
	for _, t := range []string{"push", "remove", "index-store"} {
		if mc.Res.Tags[t] > 0 {
			labels = append(labels, "uses-"+t)
		}
	}
	c.Ev.Case(sub, src, nt, labels...)
	if mc.Sig != "" {
		s.Violation(mc.replay("arrays"))
	}
}

var c11Small = map[string]int{"selfArg": 2, "bulk": 2, "keep": 1, "fromFront": 2, "valKind": 2, "oddVal": 2, "x": 2, "y": 2, "nested": 1, "sublen": 1, "len": 2, "index": 2, "viaLen": 1, "lenuse": 4, "extras": 2, "drop": 1}

func withSmall(over map[string]int, f func()) {
	saved := map[string]int{}
	for k, v := range over {
		if old, ok := smallArity[k]; ok {
			saved[k] = old
		} else {
			saved[k] = -1
		}
		smallArity[k] = v
	}
	defer func() {
		for k, v := range saved {
			if v < 0 {
				delete(smallArity, k)
			} else {
				smallArity[k] = v
			}
		}
	}()
	f()
}

func TestC11(t *testing.T) {
	Main(t, "C11", func(c *Ctx) {
		c.OnReplay("arrays", func(s *Sub, rp *Replay) { c.c11Program(s, "replay", rp.Source, true) })
		c.ReplayTier()

		c.Sub("faults", func(s *Sub) {
			if c.Shard != 0 {
				return
			}
			for f := range c11Faults {
				g := &c11Gen{pick: func(string, int) int { return 0 }}
				c.c11Program(s, "faults", g.program(0, f), true, "final-fault")
				g2 := &c11Gen{pick: func(l string, n int) int { return (f + len(l)) % n }}
				c.c11Program(s, "faults", g2.program(2, f), true, "final-fault")
			}
			c.Ev.MarkExhaustive(fmt.Sprintf("every one of %d faulting array operations after a short history", len(c11Faults)))
		})
		nAct, maxLeaves := 2, int64(60000)
		if c.Thorough {
			nAct, maxLeaves = 3, 1500000
		}
		c.Sub("enum-histories", func(s *Sub) {
			withSmall(c11Small, func() {
				var src string
				var nt bool
				var total int64
				complete := walkDecisions(maxLeaves, func(pick func(string, int) int) {
					g := &c11Gen{pick: pick}
					src = g.program(nAct, -1)
					nt = g.nt
				}, func(k int64) {
					total = k
					if c.Mine(k) {
						c.c11Program(s, "enum-histories", src, nt)
					}
				})
				if complete {
					c.Ev.MarkExhaustive(fmt.Sprintf("every history of %d actions over the reduced decision alphabet (14 action forms on arrays with shared ancestry): %d programs", nAct, total))
				} else {
					c.Ev.Note(fmt.Sprintf("enum-histories: walk stopped at %d programs (not exhaustive)", total))
				}
			})
		})
		n := 2000
		if c.Thorough {
			n = 30000
		}
		c.Rapid("self-containing-unprinted", n/4, func(rt *rapid.T, s *Sub) {
			src, nt := cyclicProgram(rt, false)
			c.c11Program(s, "self-containing-unprinted", src, nt, "cyclic-arrays")
		})
		c.Rapid("rand-histories", n, func(rt *rapid.T, s *Sub) {
			g := &c11Gen{pick: func(label string, n int) int { return rapid.IntRange(0, n-1).Draw(rt, label) }}
			fault := -1
			if rapid.IntRange(0, 3).Draw(rt, "withFault") == 0 {
				fault = rapid.IntRange(0, len(c11Faults)-1).Draw(rt, "fault")
			}
			src := g.program(rapid.IntRange(3, 40).Draw(rt, "actions"), fault)
			pl := drawPlacement(rt)
			c.c11Program(s, "rand-histories", place(src, pl), g.nt, "placed-"+placementNames[pl])
		})
	})
}
