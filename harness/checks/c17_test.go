package checks

import (
	"fmt"
	"math"
	"strconv"
	"strings"
	"testing"
	"time"

	"pgregory.net/rapid"

	"verifharness/bn"
	"verifharness/model"
)

// C17 — math built-ins compute their mathematical function; misuse is a
// reported error.

type c17Arg struct {
	text, kind string
	boundary   bool
}

var c17Args = []c17Arg{
	{"nil", "nil", false}, {bn.KwTrue, "bool", false},
	{"0", "number", true}, {bn.BLen + "([])", "number", true}, {bn.BLen + "(" + bn.BRemove + "([1], 0))", "number", true}, {bn.BLen + "([4, 5])", "number", false}, {"(-0)", "number", true}, {"1", "number", false}, {"(-1)", "number", false}, {"3", "number", false},
	{"0.5", "number", true}, {"(-0.5)", "number", true}, {"1.5", "number", true}, {"(-1.5)", "number", true}, {"2.5", "number", true}, {"(-2.5)", "number", true},
	{"0.49999999999999994", "number", true}, {"4503599627370495.5", "number", true}, {"4503599627370496.5", "number", true}, {"9007199254740992", "number", true},
	{"1" + strings.Repeat("0", 308), "number", true}, {"0.000001", "number", true}, {"0." + strings.Repeat("0", 322) + "5", "number", true},
	{"(-4)", "number", true}, {"2", "number", false}, {"(2 ** 1024)", "number", true}, {"(-(2 ** 1024))", "number", true}, {"((2 ** 1024) - (2 ** 1024))", "number", true},
	{"(7 & 3)", "int", false}, {"(~(1 << 63))", "int", true}, {"(1 << 63)", "int", true}, {"((1 << 62) | 1)", "int", true},
	{"\"s\"", "string", false}, {"\"12\"", "string", false}, {"\"\"", "string", false},
	{"[]", "array", false}, {"[1, 2]", "array", false}, {"[3, \"x\"]", "array", false}, {"[[1]]", "array", false},
	{"{}", "object", false}, {"{a: 1}", "object", false}, {"f", "function", false}, {bn.BLen, "builtin", false},
}

const c17Prelude = "ফাংশন f() { ফেরত 1; }\n"

func (c *Ctx) c17Program(s *Sub, sub, src string, nt, enum bool, labels ...string) {
	mc := c.runModelCase(s, src, "in1\nin2\nin3\n", model.Options{}, judgeOpts{checkLine: true})
	labels = append(labels, "outcome-"+mc.Res.Outcome.String())
	if enum {
		c.Ev.EnumCase(sub, nt || mc.Res.Outcome == model.RuntimeError, func() string { return src }, labels...)
	} else {
		c.Ev.Case(sub, src, nt || mc.Res.Outcome == model.RuntimeError, labels...)
	}
	if mc.Sig != "" {
		s.Violation(mc.replay("math"))
	}
}

func numExpr(f float64) string {
	if math.Signbit(f) {
		return "(-" + bn.NumText(-f) + ")"
	}
	return bn.NumText(f)
}

func permutations(xs []string) [][]string {
	if len(xs) <= 1 {
		return [][]string{append([]string{}, xs...)}
	}
	var out [][]string
	for i := range xs {
		rest := append(append([]string{}, xs[:i]...), xs[i+1:]...)
		for _, p := range permutations(rest) {
			out = append(out, append([]string{xs[i]}, p...))
		}
	}
	return out
}

func TestC17(t *testing.T) {
	Main(t, "C17", func(c *Ctx) {
		c.OnReplay("math", func(s *Sub, rp *Replay) { c.c17Program(s, "replay", rp.Source, true, false) })
		c.OnReplay("pow-vs-operator", func(s *Sub, rp *Replay) { c.c17PowPair(s, rp.Source) })
		c.ReplayTier()
		P := bn.KwPrint

		c.Sub("builtin-x-arity-x-kinds", func(s *Sub) {
			var k int64
			for _, b := range bn.Builtins {
				// 0, 1, 2 arguments: full product
				combos := [][]string{{}}
				for _, a := range c17Args {
					combos = append(combos, []string{a.text})
				}
				for _, a := range c17Args {
					for _, d := range c17Args {
						combos = append(combos, []string{a.text, d.text})
					}
				}
				// 3 and 4 arguments: covering sample (same value repeated; number mixes)
				for _, a := range c17Args {
					combos = append(combos, []string{a.text, a.text, a.text}, []string{"1", a.text, "2"}, []string{a.text, "1", "2", "3"}, []string{"1", "2", "3", a.text})
				}
				if b == bn.BMin || b == bn.BMax {
					// min/max take any number of arguments: every triple over one representative per kind plus
					// the special numbers, as a list and as the elements of a single array
					reps := []string{"nil", bn.KwTrue, "1", "(-0)", "0", "2.5", "(2 ** 1024)", "(-(2 ** 1024))", "((2 ** 1024) - (2 ** 1024))", "\"s\"", "[1, 2]", "{}", "f", "(7 & 3)"}
					for _, a := range reps {
						for _, d := range reps {
							for _, e := range reps {
								combos = append(combos, []string{a, d, e}, []string{"[" + a + ", " + d + ", " + e + "]"})
							}
						}
					}
				}
				for _, args := range combos {
					k++
					if !c.Mine(k) {
						continue
					}
					src := c17Prelude + P + " \"before\";\n" + P + " " + b + "(" + strings.Join(args, ", ") + ");\n" + P + " \"after\";\n"
					c.c17Program(s, "builtin-x-arity-x-kinds", src, true, true, "builtin "+b, fmt.Sprintf("argc-%d", len(args)))
				}
			}
			c.Ev.MarkExhaustive(fmt.Sprintf("every built-in (17) x 0..2 arguments over every combination of %d argument producers, plus a covering sample of 3 and 4 arguments", len(c17Args)))
		})
		// a built-in is the same function under any name: held in a variable, passed as a parameter, stored in a
		// property or an element, returned from a function — used well and misused
		c.Sub("builtins-under-other-names", func(s *Sub) {
			var k int64
			forms := []string{
				bn.KwVar + " alias = %[1]s;\n" + P + " alias(%[2]s);\n",
				bn.KwFun + " ap(g) { " + bn.KwReturn + " g(%[2]s); }\n" + P + " ap(%[1]s);\n",
				P + " ({m: %[1]s}).m(%[2]s);\n",
				P + " [%[1]s][0](%[2]s);\n",
				bn.KwFun + " pick() { " + bn.KwReturn + " %[1]s; }\n" + P + " pick()(%[2]s);\n",
				bn.KwVar + " alias = nil;\nalias = %[1]s;\n" + bn.KwFun + " twice(g) { " + P + " g(%[2]s); " + P + " g(%[2]s); }\ntwice(alias);\n",
			}
			for _, b := range bn.Builtins {
				if b == bn.BClock || b == bn.BInput {
					continue
				}
				for _, a := range c17Args {
					for _, args := range []string{a.text, a.text + ", " + a.text, "", "[" + a.text + "]"} {
						for fi, f := range forms {
							k++
							if !c.Mine(k) || (!c.Thorough && (int(k)+fi)%3 != 0) {
								continue
							}
							src := c17Prelude + P + " \"before\";\n" + fmt.Sprintf(f, b, args) + P + " \"after\";\n"
							c.c17Program(s, "builtins-under-other-names", src, true, true, "builtin "+b, "aliased")
						}
					}
				}
			}
		})
		c.Sub("min-max-permutations", func(s *Sub) {
			if c.Shard != 0 {
				return
			}
			pool := []string{"(-3)", "0.5", "2", "7", "1000000"}
			for n := 1; n <= 4; n++ {
				// every n-subset in pool order, every permutation
				var subsets func(start int, cur []string)
				subsets = func(start int, cur []string) {
					if len(cur) == n {
						for _, p := range permutations(cur) {
							l := strings.Join(p, ", ")
							src := P + " " + bn.BMin + "(" + l + ");\n" + P + " " + bn.BMin + "([" + l + "]);\n" + P + " " + bn.BMax + "(" + l + ");\n" + P + " " + bn.BMax + "([" + l + "]);\n"
							c.c17Program(s, "min-max-permutations", src, n >= 2, true, "min-max")
						}
						return
					}
					for i := start; i < len(pool); i++ {
						subsets(i+1, append(append([]string{}, cur...), pool[i]))
					}
				}
				subsets(0, nil)
			}
			c.Ev.MarkExhaustive("min/max over every permutation of every subset of <= 4 of 5 distinct numbers, in list form and in single-array form")
		})
		// whatever the order the comparison uses for NaN and the two zeros, the result is one of the arguments
		// (model-free: the arguments are printed first, the result must repeat one of those lines)
		c.Sub("min-max-membership", func(s *Sub) {
			var k int64
			nan := "((2 ** 1024) - (2 ** 1024))"
			pool := []string{nan, bn.BSqrt + "(-1)", "(2 ** 1024)", "(-(2 ** 1024))", "0", "(-0)", "1", "(-1)", "2.5", "1" + strings.Repeat("0", 308)}
			var lists [][]string
			for _, a := range pool {
				lists = append(lists, []string{a})
				for _, b := range pool {
					lists = append(lists, []string{a, b})
					for _, d := range pool {
						lists = append(lists, []string{a, b, d})
					}
				}
			}
			for _, l := range lists {
				k++
				if !c.Mine(k) {
					continue
				}
				var src strings.Builder
				for _, a := range l {
					src.WriteString(P + " " + a + ";\n")
				}
				j := strings.Join(l, ", ")
				calls := []string{bn.BMin + "(" + j + ")", bn.BMax + "(" + j + ")", bn.BMin + "([" + j + "])", bn.BMax + "([" + j + "])"}
				if len(l) == 1 {
					calls = calls[2:] // a single non-array argument is compared with nothing: the list form needs two
					calls = append(calls, bn.BMin+"("+j+", "+j+")", bn.BMax+"("+j+", "+j+")")
				}
				for _, cl := range calls {
					src.WriteString(P + " " + cl + ";\n")
				}
				r := c.RunB(src.String(), "")
				c.Ev.EnumCase("min-max-membership", true, func() string { return src.String() }, fmt.Sprintf("membership-%d-args", len(l)))
				ln := strings.Split(strings.TrimSuffix(r.Out, "\n"), "\n")
				bad := ""
				if r.Class() != "clean" || len(ln) != len(l)+len(calls) {
					bad = "the program must print every argument and every result"
				} else {
					for i, res := range ln[len(l):] {
						member := false
						for _, a := range ln[:len(l)] {
							if a == res || (a == "-0" && res == "0") || (a == "0" && res == "-0") {
								member = true
							}
						}
						if !member {
							bad = fmt.Sprintf("%s printed %q, which is none of its arguments %q", calls[i], res, ln[:len(l)])
							break
						}
						// and it is the least / greatest: NaN (possible only when an argument is NaN) or a value that no
						// comparable argument beats
						rv, err := strconv.ParseFloat(res, 64)
						if err != nil {
							bad = fmt.Sprintf("%s printed %q, not a number", calls[i], res)
							break
						}
						isMin := strings.HasPrefix(calls[i], bn.BMin)
						for _, a := range ln[:len(l)] {
							av, _ := strconv.ParseFloat(a, 64)
							if math.IsNaN(rv) || math.IsNaN(av) {
								continue
							}
							if isMin && av < rv || !isMin && av > rv {
								bad = fmt.Sprintf("%s printed %q although %q is among its arguments", calls[i], res, a)
							}
						}
						if bad != "" {
							break
						}
					}
				}
				if bad != "" {
					s.Violation(Replay{Check: "membership", Sig: "not-an-argument", Source: src.String(), Note: bad, Observed: clip(r.Describe(), 500)})
				}
			}
			c.Ev.MarkExhaustive("min and max, list and array form, over every list of 1-3 values from NaN (two producers), +-Inf, +-0, +-1, 2.5, 1e308")
		})
		// no built-in changes what its arguments hold: observers that tell a string from the number it spells,
		// an exact integer from its nearest double, -0 from 0 and one container from another are printed
		// before and after the call and must agree (model-free; a call that fails ends the program, which
		// is fine)
		c.Sub("arguments-left-unchanged", func(s *Sub) {
			var k int64
			obs := P + " a[0] == \"10\"; " + P + " a[0] + a[1]; " + P + " a[2] == ((1 << 62) | 1); " + P + " \"\" + a[2]; " + P + " \"\" + a[3]; " + P + " a[4] == inner; " + P + " " + bn.BLen + "(a); " +
				P + " o.k + o.m; " + P + " o.n == ((1 << 62) | 1); " + P + " " + bn.BLen + "(" + bn.BKeys + "(o)); " + P + " inner[0] + inner[1]; " + P + " a[5](2);\n"
			setup := bn.KwFun + " dbl(x) { " + bn.KwReturn + " x * 2; }\n" + bn.KwVar + " inner = [\"7\", \"8\"];\n" + bn.KwVar + " a = [\"10\", \"9\", ((1 << 62) | 1), (-0), inner, dbl];\n" + bn.KwVar + " o = {k: \"10\", m: \"9\", n: ((1 << 62) | 1)};\n" + bn.KwVar + " nums = [\"10\", \"9\", ((1 << 62) | 1), (-0)];\n"
			obsNums := P + " nums[0] + nums[1]; " + P + " nums[0] == \"10\"; " + P + " \"\" + nums[2]; " + P + " \"\" + nums[3];\n"
			for _, b := range bn.Builtins {
				if b == bn.BInput || b == bn.BClock || b == bn.BDelKey {
					continue // কি_রিমুভ changes its object by definition (C12 covers what exactly)
				}
				for _, args := range []string{"a", "nums", "o", "inner", "a, 0", "nums, 1", "a, a", "nums, nums", "o, \"k\"", "a[0]", "nums, \"1\"", "inner, inner[0]", "a[0], a[1]", "o.k, o.m", "1, nums", "a, nums", "nums[0], nums[1], nums[2]", "[nums]", "{z: nums}"} {
					k++
					if !c.Mine(k) {
						continue
					}
					src := setup + obs + obsNums + P + " \"call\";\n" + bn.KwVar + " result = " + b + "(" + args + ");\n" + P + " \"returned\";\n" + obs + obsNums
					r := c.RunB(src, "")
					c.Ev.EnumCase("arguments-left-unchanged", true, func() string { return src }, "builtin "+b)
					parts := strings.SplitN(r.Out, "call\n", 2)
					if len(parts) != 2 {
						s.Violation(Replay{Check: "purity", Sig: "no-before", Source: src, Note: "the observers before the call did not run", Observed: clip(r.Describe(), 400)})
						continue
					}
					if !strings.HasPrefix(parts[1], "returned\n") {
						continue // the call failed: nothing afterwards (C06)
					}
					if after := strings.TrimPrefix(parts[1], "returned\n"); after != parts[0] {
						s.Violation(Replay{Check: "purity", Sig: "argument-changed", Source: src, Note: fmt.Sprintf("after %s(%s) the arguments no longer hold what they held before", b, args), Expected: parts[0], Observed: after})
					}
				}
			}
			c.Ev.MarkExhaustive("14 built-ins x 19 argument lists built from arrays and objects holding numeric-looking strings, an exact 64-bit integer, -0, a nested array and a function")
		})
		c.Sub("pow-boundaries", func(s *Sub) {
			if c.Shard != 0 {
				return
			}
			bases := []string{"2", "10", "0.5", "0.1", "3", "1.5", "(-2)", "(-0.5)", "500", "1" + strings.Repeat("0", 308), "0." + strings.Repeat("0", 307) + "1", "0", "(-0)", "1", "(-1)", "(2 ** 1024)"}
			exps := []string{"1074", "1073", "1075", "1023", "1024", "1022", "310", "308", "309", "323", "324", "115.5", "0.5", "1", "2", "3", "63", "64", "1000000"}
			for _, a := range bases {
				for _, e := range exps {
					for _, sign := range []string{"", "-"} {
						ex := e
						if sign == "-" {
							ex = "(-" + e + ")"
						}
						src := P + " " + bn.BPow + "(" + a + ", " + ex + ");\n" + P + " " + a + " ** " + ex + ";\n"
						c.c17PowPair(s, src)
						c.c17Program(s, "pow-boundaries", src, true, true, "pow-boundary")
					}
				}
			}
			c.Ev.MarkExhaustive(fmt.Sprintf("ঘাত(a, b) against a ** b for %d bases x %d exponents of both signs (overflow, underflow and subnormal results)", len(bases), len(exps)))
		})
		c.Sub("clock", func(s *Sub) {
			if c.Shard != 0 {
				return
			}
			before := time.Now().Unix()
			r := c.RunB(P+" "+bn.BClock+"();\n", "")
			after := time.Now().Unix()
			c.Ev.Case("clock", "print clock()", true, "clock")
			v, err := strconv.ParseFloat(strings.TrimSpace(r.Out), 64)
			if r.Class() != "clean" || err != nil || v < float64(before-60) || v > float64(after+60) {
				s.Violation(Replay{Check: "math", Sig: "clock", Source: P + " " + bn.BClock + "();\n", Note: "ক্লক() does not return the current Unix time in seconds", Expected: fmt.Sprintf("%d..%d", before, after), Observed: r.Describe()})
			}
			// "current" means at the moment of the call: a reading taken later inside the same statement, the same
			// function, the same loop is later.  The program polls until the reading moves (at most 3 000 000 times,
			// which takes far longer than any clock tick) and must see it move; the harness also brackets the value
			// read after the wait.  Run through the real executable: no step budget, real time passes.
			for _, form := range []string{
				"%s poll() { %s t0 = %s(); %s n = 0; %s (%s() == t0 %s n < 3000000) { n = n + 1; } %s %s() > t0; }\n%s poll();\n",
				"%s poll() { %s t0 = %s(); %s n = 0; %s (%s() == t0 %s n < 3000000) { n = n + 1; } %s %s() > t0; }\n%s [poll(), poll()][1];\n",
			} {
				src := fmt.Sprintf(form, bn.KwFun, bn.KwVar, bn.BClock, bn.KwVar, bn.KwWhile, bn.BClock, bn.KwAnd, bn.KwReturn, bn.BClock, P)
				cr := c.CLIScript(src, "", 120*time.Second)
				c.Ev.Case("clock", src, true, "clock-advances")
				if cr.TimedOut || cr.Status != 0 || strings.TrimSpace(cr.Stdout) != "true" {
					s.Violation(Replay{Check: "math", Sig: "clock-frozen", Source: src, Note: "ক্লক() read again inside the same statement never moves: it is not the time of the call", Expected: "true", Observed: fmt.Sprintf("status=%d timedOut=%v stdout=%q", cr.Status, cr.TimedOut, clip(cr.Stdout, 100))})
				}
			}
			r2 := c.RunB(P+" "+bn.BClock+"() <= "+bn.BClock+"();\n", "")
			if strings.TrimSpace(r2.Out) != "true" {
				s.Violation(Replay{Check: "math", Sig: "clock", Source: "clock monotone", Note: "two consecutive ক্লক() readings go backwards", Observed: r2.Describe()})
			}
		})
		n := 2500
		if c.Thorough {
			n = 40000
		}
		c.Rapid("nested-builtin-arguments", n/2, func(rt *rapid.T, s *Sub) {
			var gen func(d int) string
			gen = func(d int) string {
				if d <= 0 || rapid.IntRange(0, 2).Draw(rt, "leaf") == 0 {
					return rapid.SampledFrom([]string{"1", "2", "3", "(-3)", "(-5)", "0.5", "(-7.5)", "4", "9", "10", "\"x\"", "nil"}).Draw(rt, "lit")
				}
				switch rapid.IntRange(0, 7).Draw(rt, "fn") {
				case 0:
					return bn.BAbs + "(" + gen(d-1) + ")"
				case 1:
					return bn.BRound + "(" + gen(d-1) + ")"
				case 2:
					return bn.BSqrt + "(" + gen(d-1) + ")"
				case 3:
					return bn.BPow + "(" + gen(d-1) + ", " + gen(d-1) + ")"
				case 4:
					return bn.BMin + "(" + gen(d-1) + ", " + gen(d-1) + ", " + gen(d-1) + ")"
				case 5:
					return bn.BMax + "(" + gen(d-1) + ", " + gen(d-1) + ")"
				case 6:
					return "idf(" + gen(d-1) + ")"
				default:
					return bn.BLen + "(" + bn.BPush + "([1], " + gen(d-1) + ", " + gen(d-1) + "))"
				}
			}
			src := bn.KwFun + " idf(v) { " + bn.KwReturn + " " + bn.BAbs + "(v) - " + bn.BAbs + "(v) + v; }\n"
			k := rapid.IntRange(1, 4).Draw(rt, "prints")
			for i := 0; i < k; i++ {
				src += P + " " + gen(rapid.IntRange(1, 3).Draw(rt, "depth")) + ";\n"
			}
			c.c17Program(s, "nested-builtin-arguments", place(src, drawPlacement(rt)), true, false, "nested-builtins")
		})
		c.Rapid("rand-doubles", n, func(rt *rapid.T, s *Sub) {
			draw := func(label string) float64 {
				switch rapid.IntRange(0, 3).Draw(rt, label+"k") {
				case 0:
					return float64(rapid.IntRange(-2000, 2000).Draw(rt, label)) / 4
				case 1:
					return float64(rapid.IntRange(-100, 100).Draw(rt, label)) + 0.5
				case 2:
					bits := rapid.Uint64Range(0x3F50000000000000, 0x4150000000000000).Draw(rt, label)
					f := math.Float64frombits(bits)
					if rapid.Bool().Draw(rt, label+"neg") {
						f = -f
					}
					return f
				default:
					bits := rapid.Uint64Range(0x3000000000000000, 0x4F00000000000000).Draw(rt, label)
					f := math.Float64frombits(bits)
					if rapid.Bool().Draw(rt, label+"neg") {
						f = -f
					}
					return f
				}
			}
			a, b := draw("a"), draw("b")
			fn := rapid.SampledFrom([]string{bn.BAbs, bn.BSqrt, bn.BRound, bn.BPow, bn.BSin, bn.BCos, bn.BTan, bn.BMin, bn.BMax}).Draw(rt, "fn")
			var call string
			switch fn {
			case bn.BPow:
				if rapid.Bool().Draw(rt, "smallexp") {
					b = float64(rapid.IntRange(-8, 8).Draw(rt, "e")) / 2
				}
				call = fn + "(" + numExpr(a) + ", " + numExpr(b) + ")"
			case bn.BMin, bn.BMax:
				call = fn + "(" + numExpr(a) + ", " + numExpr(b) + ", " + numExpr(draw("c")) + ")"
			default:
				call = fn + "(" + numExpr(a) + ")"
			}
			c.c17Program(s, "rand-doubles", place(P+" "+call+";\n", drawPlacement(rt)), true, false, "fn "+fn)
			if fn == bn.BPow {
				c.c17PowPair(s, P+" "+call+";\n"+P+" "+numExpr(a)+" ** "+numExpr(b)+";\n")
			}
		})
	})
}

// c17PowPair: ঘাত(a,b) prints exactly what a ** b prints.
func (c *Ctx) c17PowPair(s *Sub, src string) {
	r := c.RunB(src, "")
	c.Ev.Case("pow-vs-operator", src, true, "pow-pair")
	ln := strings.Split(strings.TrimSuffix(r.Out, "\n"), "\n")
	if r.Class() != "clean" || len(ln) != 2 || ln[0] != ln[1] {
		s.Violation(Replay{Check: "pow-vs-operator", Sig: "pow-vs-operator", Source: src, Note: "ঘাত(a, b) and a ** b print different results", Observed: r.Describe()})
	}
}
