package checks

import (
	"fmt"
	"strings"

	"pgregory.net/rapid"

	"verifharness/bn"
)

// Self-containing values without printing them.  Printing an array or object
// that reaches itself exhausts the host stack (open finding K13), so the
// ordinary history generators never build one.  Reference semantics must hold
// for such values all the same: this generator stores containers into
// themselves and into each other, writes through one access path and reads
// scalars, lengths and identities through another — never a whole container.
// The reference evaluator judges the program; where a read turns out to reach a
// container it is replaced by a length / identity observation.

type cyCell struct {
	n int     // scalar (when l == nil)
	l *cyList // container
}
type cyList struct {
	obj   bool
	elems []cyCell // arrays: by position; objects: by cyKeys position
}

var cyKeys = []string{"p", "q", "r"}

type cyGen struct {
	rt    *rapid.T
	obj   bool
	names []string
	vars  map[string]*cyList
	b     strings.Builder
	uniq  int
	cyc   bool // a container reaches itself
	wrote bool // a write went through a cycle
}

func (g *cyGen) u() int { g.uniq++; return 100 + g.uniq }
func (g *cyGen) w(format string, a ...interface{}) {
	g.b.WriteString(fmt.Sprintf(format, a...) + "\n")
}
func (g *cyGen) sel(i int) string {
	if g.obj {
		return "." + cyKeys[i]
	}
	return fmt.Sprintf("[%d]", i)
}
func (g *cyGen) lit(n int) (*cyList, string) {
	l := &cyList{obj: g.obj}
	var parts []string
	for i := 0; i < n; i++ {
		v := g.u()
		l.elems = append(l.elems, cyCell{n: v})
		if g.obj {
			parts = append(parts, fmt.Sprintf("%s: %d", cyKeys[i], v))
		} else {
			parts = append(parts, fmt.Sprint(v))
		}
	}
	if g.obj {
		return l, "{" + strings.Join(parts, ", ") + "}"
	}
	return l, "[" + strings.Join(parts, ", ") + "]"
}
func (g *cyGen) reaches(from, to *cyList, seen map[*cyList]bool) bool {
	if from == to {
		return true
	}
	if seen[from] {
		return false
	}
	seen[from] = true
	for _, e := range from.elems {
		if e.l != nil && g.reaches(e.l, to, seen) {
			return true
		}
	}
	return false
}

// path draws an access path of up to maxLen selectors starting at a variable;
// it follows containers while it can and returns the text and the cell reached.
func (g *cyGen) path(maxLen int) (string, *cyList, int) {
	x := rapid.SampledFrom(g.names).Draw(g.rt, "var")
	cur := g.vars[x]
	text := x
	n := rapid.IntRange(1, maxLen).Draw(g.rt, "pathLen")
	for k := 0; ; k++ {
		i := rapid.IntRange(0, len(cur.elems)-1).Draw(g.rt, "sel")
		if k == n-1 || cur.elems[i].l == nil {
			return text + g.sel(i), cur, i
		}
		text += g.sel(i)
		cur = cur.elems[i].l
	}
}

func (g *cyGen) observe() {
	P := bn.KwPrint
	text, l, i := g.path(5)
	c := l.elems[i]
	switch {
	case c.l == nil:
		g.w("%s %s;", P, text)
	case g.obj:
		g.w("%s %s(%s(%s));", P, bn.BLen, bn.BKeys, text)
		g.w("%s %s%s == %s%s;", P, text, g.sel(0), text, g.sel(0))
	default:
		g.w("%s %s(%s);", P, bn.BLen, text)
	}
	if c.l != nil {
		// identity with every variable that denotes the same container (true) — different containers are not compared
		for _, nm := range g.names {
			if g.vars[nm] == c.l {
				g.w("%s %s == %s;", P, text, nm)
			}
		}
	}
}

func (g *cyGen) step() {
	switch rapid.IntRange(0, 6).Draw(g.rt, "action") {
	case 0, 1: // store a container into a slot of a container (possibly its own)
		x := rapid.SampledFrom(g.names).Draw(g.rt, "into")
		y := rapid.SampledFrom(g.names).Draw(g.rt, "what")
		lx, ly := g.vars[x], g.vars[y]
		i := rapid.IntRange(0, len(lx.elems)-1).Draw(g.rt, "slot")
		lx.elems[i] = cyCell{l: ly}
		if g.reaches(ly, lx, map[*cyList]bool{}) {
			g.cyc = true
		}
		if rapid.Bool().Draw(g.rt, "viaFunction") {
			g.w("put%d(%s, %s);", i, x, y)
		} else {
			g.w("%s%s = %s;", x, g.sel(i), y)
		}
	case 2, 3: // scalar write through a path
		text, l, i := g.path(4)
		v := g.u()
		if strings.Count(text, "[")+strings.Count(text, ".") > 1 && g.cyc {
			g.wrote = true
		}
		l.elems[i] = cyCell{n: v}
		g.w("%s = %d;", text, v)
	case 4: // alias a nested container into a variable
		text, l, i := g.path(3)
		if l.elems[i].l != nil {
			y := rapid.SampledFrom(g.names).Draw(g.rt, "aliasTo")
			g.vars[y] = l.elems[i].l
			g.w("%s = %s;", y, text)
		} else {
			g.w("%s %s;", bn.KwPrint, text)
		}
	case 5: // a fresh literal
		x := rapid.SampledFrom(g.names).Draw(g.rt, "fresh")
		l, t := g.lit(rapid.IntRange(2, 3).Draw(g.rt, "len"))
		g.vars[x] = l
		g.w("%s = %s;", x, t)
	default:
		if g.obj {
			g.observe()
			return
		}
		// এড / রিমুভ copy the element references of a container that may contain itself
		x := rapid.SampledFrom(g.names).Draw(g.rt, "src")
		y := rapid.SampledFrom(g.names).Draw(g.rt, "dst")
		lx := g.vars[x]
		nl := &cyList{}
		if rapid.Bool().Draw(g.rt, "push") || len(lx.elems) < 3 {
			v := g.u()
			nl.elems = append(append(nl.elems, lx.elems...), cyCell{n: v})
			g.w("%s = %s(%s, %d);", y, bn.BPush, x, v)
		} else {
			i := rapid.IntRange(0, len(lx.elems)-1).Draw(g.rt, "rm")
			nl.elems = append(append(nl.elems, lx.elems[:i]...), lx.elems[i+1:]...)
			g.w("%s = %s(%s, %d);", y, bn.BRemove, x, i)
		}
		g.vars[y] = nl
	}
	g.observe()
	g.observe()
}

func cyclicProgram(rt *rapid.T, obj bool) (src string, nontrivial bool) {
	g := &cyGen{rt: rt, obj: obj, names: []string{"A", "B", "C"}, vars: map[string]*cyList{}}
	for i := 0; i < 3; i++ {
		if obj {
			g.w("%s put%d(o, v) { o.%s = v; }", bn.KwFun, i, cyKeys[i])
		} else {
			g.w("%s put%d(o, v) { o[%d] = v; }", bn.KwFun, i, i)
		}
	}
	for _, nm := range g.names {
		l, t := g.lit(3)
		g.vars[nm] = l
		g.w("%s %s = %s;", bn.KwVar, nm, t)
	}
	n := rapid.IntRange(3, 25).Draw(rt, "steps")
	for i := 0; i < n; i++ {
		g.step()
	}
	return g.b.String(), g.cyc && g.wrote
}
