package checks

import (
	"fmt"
	"os"
	"path/filepath"
	"strings"
	"testing"
	"time"

	"golang.org/x/text/unicode/norm"
	"pgregory.net/rapid"

	"verifharness/bn"
	"verifharness/model"
	"verifharness/run"
)

// C13 — execution is deterministic: N repetitions in one process and M fresh
// processes give byte-identical stdout, the same outcome and the same first
// diagnostic.  The host's per-iteration randomisation of map order plays the
// role of the schedule; it is sampled by repetition, not controlled.

func (c *Ctx) c13Program(s *Sub, sub string, seed seedProg, nBatch, nCLI int, objectHeavy bool) {
	type obs struct{ out, class, diag string }
	var first obs
	for i := 0; i < nBatch; i++ {
		r := c.W().Run(run.Req{Src: seed.Src, Stdin: seed.Stdin, Budget: 400000})
		if r.Class() == run.Budget || r.Class() == run.Hung {
			c.Ev.Discard("seed-over-budget")
			return
		}
		o := obs{r.Out, r.Class(), run.FirstLine(r.Err)}
		if i == 0 {
			first = o
			continue
		}
		if o != first {
			s.Violation(Replay{Check: "determinism", Sig: "batch-differs", Source: seed.Src, Stdin: seed.Stdin,
				Note:     fmt.Sprintf("execution %d of the same program on the same input differs from execution 1", i+1),
				Expected: fmt.Sprintf("class=%s out=%q diag=%q", first.class, clip(first.out, 600), first.diag), Observed: fmt.Sprintf("class=%s out=%q diag=%q", o.class, clip(o.out, 600), o.diag)})
		}
	}
	var firstCLI run.CLIResult
	for i := 0; i < nCLI; i++ {
		cr := c.CLIScript(seed.Src, seed.Stdin, 20*time.Second)
		if i == 0 {
			firstCLI = cr
			// the CLI must agree with the batch runs of the same binary
			if cr.Stdout != first.out && !cr.TimedOut {
				s.Violation(Replay{Check: "determinism", Sig: "cli-vs-batch", Source: seed.Src, Stdin: seed.Stdin, Note: "a fresh process prints something else than the in-process executions",
					Expected: fmt.Sprintf("%q", clip(first.out, 600)), Observed: fmt.Sprintf("status=%d %q", cr.Status, clip(cr.Stdout, 600))})
			}
			continue
		}
		if cr.Stdout != firstCLI.Stdout || cr.Status != firstCLI.Status || run.FirstLine(cr.Stderr) != run.FirstLine(firstCLI.Stderr) {
			s.Violation(Replay{Check: "determinism", Sig: "process-differs", Source: seed.Src, Stdin: seed.Stdin,
				Note:     fmt.Sprintf("fresh process %d differs from fresh process 1", i+1),
				Expected: fmt.Sprintf("status=%d out=%q", firstCLI.Status, clip(firstCLI.Stdout, 600)), Observed: fmt.Sprintf("status=%d out=%q", cr.Status, clip(cr.Stdout, 600))})
		}
	}
	c.Ev.Case(sub, seed.Src, objectHeavy, "seed-"+seed.Kind, "class-"+first.class)
}

// c13ObjectProgram: object literals with 2-6 keys whose initialisers are
// tagged side-effecting probes, key/value listings, and a diagnostic at the end.
func c13ObjectProgram(rt *rapid.T) (string, []string) {
	var b strings.Builder
	b.WriteString("ফাংশন t(tag, v) { দেখাও tag; ফেরত v; }\n")
	b.WriteString(bn.KwFun + " t2(v, w) { " + bn.KwReturn + " [v, w]; }\n")
	b.WriteString(bn.KwFun + " tn(tag) { " + bn.KwPrint + " tag; }\n")
	keys := []string{"zeta", "alpha", "mid", "ক", "b2", "k", "y", "omega"}
	if rapid.Bool().Draw(rt, "equivalentKeys") {
		// property names that are canonically equivalent but differently encoded are distinct keys
		keys = []string{"সম\u09df", "zeta", "সম\u09af\u09bc", "caf\u00e9", "k", "cafe\u0301", "ক\u09cb", "ক\u09c7\u09be"}
	}
	if rapid.IntRange(0, 3).Draw(rt, "prefixKeys") == 0 {
		// names of which one is a proper prefix of another, in either script, and names differing in the last character only
		keys = []string{"na", "n", "nam", "name", "ক", "ক১", "নাম", "নামের_তালিকা"}
	}
	if rapid.IntRange(0, 4).Draw(rt, "numberWordKeys") == 0 {
		// names that spell special numbers or look like exponents: they are names, ordered like any other
		keys = []string{"nan", "inf", "NaN", "Inf", "infinity", "NAN", "e1", "Infinity"}
	}
	var order []string
	// a property name may be written more than once in one literal: every
	// initialiser still runs, in source order, and the last one gives the value
	repeatKeys := rapid.Bool().Draw(rt, "repeatKeys")
	nested := rapid.Bool().Draw(rt, "nestedInitialisers")
	nObj := rapid.IntRange(1, 3).Draw(rt, "nobj")
	for o := 0; o < nObj; o++ {
		n := rapid.IntRange(2, 6).Draw(rt, "nkeys")
		if repeatKeys {
			n += rapid.IntRange(3, 6).Draw(rt, "extraKeys")
		}
		start := rapid.IntRange(0, len(keys)-1).Draw(rt, "start")
		parts := []string{}
		for i := 0; i < n; i++ {
			k := keys[(start+i*3)%len(keys)]
			if repeatKeys {
				k = keys[(start+rapid.IntRange(0, 3).Draw(rt, "keyIdx"))%len(keys)]
			}
			dup := false
			for _, p := range parts {
				if strings.HasPrefix(p, k+":") {
					dup = true
				}
			}
			if dup && !repeatKeys {
				continue
			}
			tag := fmt.Sprintf("o%d-%s-%d", o, k, i)
			// an initialiser is a probe or a nest of literals and calls holding probes; the tags are numbered in
			// the order in which they are written
			sub := 0
			var value func(d int) string
			value = func(d int) string {
				form := 0
				if nested && d > 0 {
					form = rapid.IntRange(0, 5).Draw(rt, "valueForm")
				}
				switch form {
				case 1:
					return "{in1: " + value(d-1) + ", in2: " + value(d-1) + "}"
				case 2:
					return "[" + value(d-1) + ", " + value(d-1) + "]"
				case 3:
					return "{only: " + value(d-1) + "}"
				case 4:
					return "t2(" + value(d-1) + ", " + value(d-1) + ")"
				default:
					sub++
					tg := fmt.Sprintf("%s.%d", tag, sub)
					order = append(order, tg)
					if rapid.IntRange(0, 3).Draw(rt, "nilProbe") == 0 {
						return fmt.Sprintf("tn(\"%s\")", tg) // an initialiser with an effect whose value is nil
					}
					return fmt.Sprintf("t(\"%s\", %d)", tg, 10*o+i)
				}
			}
			parts = append(parts, k+": "+value(2))
		}
		fmt.Fprintf(&b, "%s obj%d = {%s};\n", bn.KwVar, o, strings.Join(parts, ", "))
		fmt.Fprintf(&b, "%s \"listing\";\n%s %s(obj%d);\n%s %s(obj%d);\n%s obj%d;\n", bn.KwPrint, bn.KwPrint, bn.BKeys, o, bn.KwPrint, bn.BValues, o, bn.KwPrint, o)
		if rapid.Bool().Draw(rt, "mutate") {
			fmt.Fprintf(&b, "obj%d.added = %d;\n%s(obj%d, \"%s\");\n%s %s(obj%d);\n%s %s(obj%d);\n", o, o, bn.BDelKey, o, strings.SplitN(parts[0], ":", 2)[0], bn.KwPrint, bn.BKeys, o, bn.KwPrint, bn.BValues, o)
		}
	}
	if rapid.Bool().Draw(rt, "overwriteBuiltin") {
		// state must not leak from one execution into the next one in the same process
		bi := rapid.SampledFrom([]string{bn.BMax, bn.BLen, bn.BAbs, bn.BKeys}).Draw(rt, "builtin")
		arg := map[string]string{bn.BMax: "1, 2", bn.BLen: "[1, 2]", bn.BAbs: "-3", bn.BKeys: "{a: 1}"}[bi]
		b.WriteString(bn.KwPrint + " " + bi + "(" + arg + ");\n" + bi + " = " + rapid.SampledFrom([]string{bn.BMin, "nil", "7"}).Draw(rt, "newval") + ";\n")
	}
	if rapid.Bool().Draw(rt, "printFunctions") {
		// function values, built-ins and containers holding them are printable values too
		b.WriteString(bn.KwPrint + " t;\n" + bn.KwPrint + " [t, " + bn.BLen + ", " + bn.BClock + "];\n" + bn.KwPrint + " {f: t, g: " + bn.BInput + "};\n" + bn.KwPrint + " \"fn: \" + 1;\n")
	}
	switch rapid.IntRange(0, 6).Draw(rt, "ending") {
	case 4:
		b.WriteString(bn.KwPrint + " {a: u1, b: u2, c: u3, d: u4, e: u5};\n")
	case 5:
		b.WriteString(bn.KwFun + " fz(x) { " + bn.KwReturn + " {k: x, a: [u1], b: {c: u2}, d: u3}; }\n" + bn.KwPrint + " fz(1);\n")
	case 6:
		b.WriteString(bn.KwVar + " ok1 = 1;\n" + bn.KwPrint + " [{p: ok1, q: u1, r: u2}, u3];\n")
	case 0:
		b.WriteString(bn.KwPrint + " {p: 1, q: 2, r: 3, s: 4}.nope;\n")
	case 1:
		b.WriteString(bn.KwPrint + " obj0.nope;\n")
	case 2:
		b.WriteString(bn.KwPrint + " [{x: 1, y: 2, z: 3}, {c: 1, b: 2, a: 3}];\n")
	}
	return b.String(), order
}

func TestC13(t *testing.T) {
	Main(t, "C13", func(c *Ctx) {
		c.OnReplay("determinism", func(s *Sub, rp *Replay) {
			c.c13Program(s, "replay", seedProg{Src: rp.Source, Stdin: rp.Stdin, Kind: "replay"}, 30, 6, true)
		})
		c.OnReplay("order", func(s *Sub, rp *Replay) {
			mc := c.runModelCase(s, rp.Source, "", model.Options{MaxSteps: 60000}, judgeOpts{checkLine: true, checkKind: true})
			if mc.Sig != "" {
				s.Violation(mc.replay("order"))
			}
		})
		c.ReplayTier()
		nBatch, nCLI := 5, 3
		if c.Thorough {
			nBatch, nCLI = 20, 6
		}
		examples := shippedExamples()
		c.Sub("examples", func(s *Sub) {
			if c.Shard != 0 {
				return
			}
			for _, e := range examples {
				c.c13Program(s, "examples", e, nBatch*2, nCLI*2, strings.Contains(e.Src, "{"))
			}
		})
		// runs long enough (seconds of continuous printing) for anything timed or concurrent inside the
		// interpreter to fire: three fresh processes, byte-identical and complete output
		c.Sub("long-output", func(s *Sub) {
			if c.Shard != 0 {
				return
			}
			lines := 200000
			if c.Thorough {
				lines = 1000000
			}
			src := fmt.Sprintf("%s acc = 0;\n%s (%s i = 1; i <= %d; i = i + 1) {\n  acc = (acc * 31 + i) %% 1000003;\n  %s i;\n}\n%s \"checksum \" + acc;\n", bn.KwVar, bn.KwFor, bn.KwVar, lines, bn.KwPrint, bn.KwPrint)
			var first string
			for run := 0; run < 3; run++ {
				cr := c.CLIScript(src, "", 300*time.Second)
				c.Ev.Case("long-output", fmt.Sprintf("%d lines, run %d", lines, run), true, "long-output")
				if cr.Truncated {
					s.Harness("the capture limit of the harness cut the output of the long-output program short")
				}
				got := strings.Count(cr.Stdout, "\n")
				if cr.TimedOut || cr.Status != 0 || got != lines+1 || !strings.HasPrefix(cr.Stdout, "1\n2\n3\n") || !strings.Contains(cr.Stdout[max(0, len(cr.Stdout)-40):], "checksum ") {
					s.Violation(Replay{Check: "determinism", Sig: "long-output-incomplete", Source: src, Note: fmt.Sprintf("a program printing %d lines and a checksum printed %d lines (status %d)", lines, got, cr.Status), Observed: clip(cr.Stdout[max(0, len(cr.Stdout)-200):], 200)})
					return
				}
				if run == 0 {
					first = cr.Stdout
				} else if cr.Stdout != first {
					s.Violation(Replay{Check: "determinism", Sig: "long-output-differs", Source: src, Note: fmt.Sprintf("fresh process %d printed something else than fresh process 1", run+1)})
					return
				}
			}
		})
		n := 250
		if c.Thorough {
			n = 1500
		}
		c.Rapid("object-heavy", n, func(rt *rapid.T, s *Sub) {
			src, order := c13ObjectProgram(rt)
			seed := seedProg{Src: src, Kind: "object-literals"}
			c.c13Program(s, "object-heavy", seed, nBatch, nCLI, true)
			// the probe tags of each object literal appear in source order
			r := c.W().Run(run.Req{Src: src})
			var seen []string
			for _, ln := range strings.Split(r.Out, "\n") {
				if len(ln) > 2 && ln[0] == 'o' && strings.Contains(ln, "-") && !strings.Contains(ln, " ") {
					seen = append(seen, ln)
				}
			}
			// দেখাও writes NFC: compare the tags in that form
			if norm.NFC.String(strings.Join(seen, ",")) != norm.NFC.String(strings.Join(order, ",")) {
				s.Violation(Replay{Check: "determinism", Sig: "initialiser-order", Source: src, Note: "object-literal initialisers did not run in source order",
					Expected: strings.Join(order, ","), Observed: strings.Join(seen, ",")})
			}
		})
		// rejected texts are runs too: texts with several lexical and syntax errors on different lines name the same
		// first diagnostic every time
		c.Rapid("texts-with-several-errors", n/2, func(rt *rapid.T, s *Sub) {
			good := []string{bn.KwPrint + " 1;", bn.KwVar + " v = 2;", "{ " + bn.KwPrint + " \"b\"; }", "// note", "", bn.KwIf + " (1) " + bn.KwPrint + " 3;"}
			bad := []string{bn.KwPrint + " 1 # 2;", "@", bn.KwPrint + " \"open;", bn.KwPrint + " 'q';", "x = 1 $ 2;", bn.KwPrint + " ;", "1 = 2;", bn.KwPrint + " 1", ")", bn.KwVar + " " + bn.BLen + " = 1;", "` ~ `", bn.KwPrint + " 1 ? 2 : 3;", "\\", bn.KwFun + " (", "}"}
			nl := rapid.IntRange(3, 12).Draw(rt, "lines")
			nbad := 0
			var b strings.Builder
			for i := 0; i < nl; i++ {
				if rapid.IntRange(0, 2).Draw(rt, "bad") == 0 {
					b.WriteString(rapid.SampledFrom(bad).Draw(rt, "badLine") + "\n")
					nbad++
				} else {
					b.WriteString(rapid.SampledFrom(good).Draw(rt, "goodLine") + "\n")
				}
			}
			if nbad < 2 {
				b.WriteString(bad[0] + "\n" + bad[1] + "\n")
			}
			c.c13Program(s, "texts-with-several-errors", seedProg{Src: b.String(), Kind: "several-errors"}, nBatch, nCLI, true)
		})
		// the same input is the same input however the writer hands it over: in one piece, line by line, or in pieces
		// that end in the middle of lines with pauses in between
		c.Sub("input-arrives-in-pieces", func(s *Sub) {
			if c.Shard != 0 {
				return
			}
			P, I := bn.KwPrint, bn.BInput
			progs := []string{
				P + " \"<\" + " + I + "() + \">\";\n" + P + " \"<\" + " + I + "(\"second> \") + \">\";\n" + P + " \"end\";\n",
				bn.KwVar + " all = [];\n" + bn.KwFor + " (" + bn.KwVar + " i = 0; i < 4; i = i + 1) { all = " + bn.BPush + "(all, " + I + "()); }\n" + P + " all;\n",
			}
			input := "alpha beta\n  second line  \nthird\n" + strings.Repeat("long ", 2000) + "\nlast without newline"
			cuts := [][]int{{3}, {5, 11, 12}, {10}, {11}, {1, 2, 3, 4}, {20, 4200}, {len(input) - 5}, {12, 13, 30, 31}}
			for pi, prog := range progs {
				p := filepath.Join(c.CLIDir(), fmt.Sprintf("pieces%d.bn", pi))
				os.WriteFile(p, []byte(prog), 0o644)
				whole, st0, _ := run.CLIMergedChunks(c.Bin, []string{p}, []string{input}, 0, c.CLIDir(), 30*time.Second)
				for _, cut := range cuts {
					var chunks []string
					prev := 0
					for _, at := range cut {
						if at > prev && at < len(input) {
							chunks = append(chunks, input[prev:at])
							prev = at
						}
					}
					chunks = append(chunks, input[prev:])
					got, st, timedOut := run.CLIMergedChunks(c.Bin, []string{p}, chunks, 60*time.Millisecond, c.CLIDir(), 30*time.Second)
					c.Ev.CLICross++
					c.Ev.Case("input-arrives-in-pieces", fmt.Sprintf("program %d, cuts %v", pi, cut), true, "input-pieces")
					if timedOut || st != st0 || got != whole {
						s.Violation(Replay{Check: "determinism", Sig: "input-pieces", Source: prog, Stdin: input, Note: fmt.Sprintf("the same input delivered in %d pieces (cut at bytes %v, 60 ms apart) gives another run than delivered at once", len(chunks), cut),
							Expected: fmt.Sprintf("status=%d %q", st0, clip(whole, 300)), Observed: fmt.Sprintf("status=%d %q", st, clip(got, 300))})
					}
				}
			}
		})
		c.Rapid("generated-programs", n, func(rt *rapid.T, s *Sub) {
			seed := drawSeed(rt, examples)
			c.c13Program(s, "generated-programs", seed, nBatch, 0, strings.Contains(seed.Src, "{") && (seed.Kind == "objects" || seed.Kind == "numbers-objects"))
			if rapid.IntRange(0, 9).Draw(rt, "cli") == 0 {
				c.c13Program(s, "generated-programs", seed, 1, nCLI, false)
			}
		})
	})
}
