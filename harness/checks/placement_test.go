package checks

import (
	"strings"

	"pgregory.net/rapid"

	"verifharness/bn"
)

// Placements: the same generated program placed at top level, inside a block,
// inside a function body (its declarations become locals and its helper
// functions closures over the activation), inside the body of a loop that runs
// once, or inside an if arm.  The reference evaluator judges the wrapped text, so
// nothing is assumed about equivalence; the point is that every semantic
// generator also exercises its subject from inside the other constructs.
var placementNames = []string{"top-level", "in-block", "in-function", "in-loop-once", "in-if-arm", "in-nested-function", "in-function-called-3-times", "in-loop-3-iterations",
	"twice-verbatim", "after-skipped-copy", "shifted-lines-and-columns", "squeezed", "squeezed-in-function"}

func indent(src string) string {
	lines := strings.Split(strings.TrimSuffix(src, "\n"), "\n")
	for i, l := range lines {
		if l != "" {
			lines[i] = "  " + l
		}
	}
	return strings.Join(lines, "\n") + "\n"
}

func place(src string, k int) string {
	switch k % len(placementNames) {
	case 1:
		return "{\n" + indent(src) + "}\n"
	case 2:
		return bn.KwFun + " main__() {\n" + indent(src) + "}\nmain__();\n" + bn.KwPrint + " \"after-main\";\n"
	case 3:
		return bn.KwFor + " (" + bn.KwVar + " once__ = 0; once__ < 1; once__ = once__ + 1) {\n" + indent(src) + "}\n"
	case 4:
		return bn.KwIf + " (" + bn.KwTrue + ") {\n" + indent(src) + "} " + bn.KwElse + " {\n  " + bn.KwPrint + " \"never\";\n}\n"
	case 5:
		return bn.KwFun + " outer__(depth__) {\n  " + bn.KwFun + " inner__() {\n" + indent(indent(src)) + "  }\n  " + bn.KwIf + " (depth__ > 0) " + bn.KwReturn + " outer__(depth__ - 1);\n  " + bn.KwReturn + " inner__();\n}\nouter__(2);\n"
	}
	switch k % len(placementNames) {
	case 6:
		// every syntactic node of the program is evaluated three times, each time with fresh local state
		return bn.KwFun + " again__() {\n" + indent(src) + "}\nagain__();\n" + bn.KwPrint + " \"second-run\";\nagain__();\n" + bn.KwPrint + " \"third-run\";\nagain__();\n"
	case 7:
		return bn.KwFor + " (" + bn.KwVar + " round__ = 0; round__ < 3; round__ = round__ + 1) {\n" + indent(src) + "  " + bn.KwPrint + " \"round-done\";\n}\n"
	}
	switch k % len(placementNames) {
	case 8:
		// the same text twice: whatever is remembered about the first copy must not leak into the second
		return "{\n" + indent(src) + "}\n" + bn.KwPrint + " \"between-copies\";\n{\n" + indent(src) + "}\n"
	case 9:
		// first inside an arm that is never taken and a function that is never called, then for real
		return bn.KwIf + " (" + bn.KwFalse + ") {\n" + indent(src) + "}\n" + bn.KwFun + " never__() {\n" + indent(src) + "}\n{\n" + indent(src) + "}\n"
	case 10:
		// far down the file and far to the right
		lines := strings.Split(strings.TrimSuffix(src, "\n"), "\n")
		pad := strings.Repeat(" ", 250) + "\t"
		for i, l := range lines {
			if l != "" {
				lines[i] = pad + l
			}
		}
		return strings.Repeat("\n", 1000) + "// padding above\n" + strings.Join(lines, "\n") + "\n"
	case 11:
		// every optional blank removed (tokens that may touch do), every token still on its line
		if sq, ok := squeezeText(src); ok {
			return sq
		}
	case 12:
		if sq, ok := squeezeText(place(src, 2)); ok {
			return sq
		}
		return place(src, 2)
	}
	return src
}

func drawPlacement(rt *rapid.T) int {
	// top level half of the time
	if rapid.Bool().Draw(rt, "placeTop") {
		return 0
	}
	return rapid.IntRange(1, len(placementNames)-1).Draw(rt, "placement")
}
