package checks

import (
	"fmt"
	"strings"
	"testing"
	"time"

	"pgregory.net/rapid"

	"verifharness/bn"
	"verifharness/run"
)

// C20 — in the REPL a failed line never affects later lines; expression
// values echo (real CLI only; fresh-session metamorphic relation, no model).

type c20Line struct {
	text  string
	class string // ok, echo, lexical, syntax, runtime, empty
	echo  string // for bare expressions: the দেখাও line that must give the same response
}

var c20Pool = []c20Line{
	{bn.KwPrint + " 1 + 2;", "ok", ""},
	{bn.KwPrint + " \"hello\";", "ok", ""},
	{"7 * 6;", "echo", bn.KwPrint + " 7 * 6;"},
	{"\"str\" + \"ing\";", "echo", bn.KwPrint + " \"str\" + \"ing\";"},
	{"[1, 2, 3];", "echo", bn.KwPrint + " [1, 2, 3];"},
	{"nil;", "echo", bn.KwPrint + " nil;"},
	{bn.BAbs + "(-2.5);", "echo", bn.KwPrint + " " + bn.BAbs + "(-2.5);"},
	{"{ " + bn.KwPrint + " \"in block\"; }", "ok", ""},
	{bn.KwFun + " f(a) { " + bn.KwReturn + " a + 1; } " + bn.KwPrint + " f(41);", "ok", ""},
	{bn.KwVar + " v = 5;", "ok", ""},
	{bn.KwPrint + " \"unterminated;", "lexical", ""},
	{bn.KwPrint + " 1 # 2;", "lexical", ""},
	{bn.KwPrint + " ;", "syntax", ""},
	{"1 = 2;", "syntax", ""},
	{bn.KwPrint + " 1", "syntax", ""},
	{bn.KwPrint + " 1 - nil;", "runtime", ""},
	{bn.KwPrint + " 1 / 0;", "runtime", ""},
	{bn.KwPrint + " " + bn.BLen + "(5);", "runtime", ""},
	{"undefinedname;", "runtime", ""},
	{bn.KwBreak + ";", "runtime", ""},
	{bn.BLen + "([1, 2, 3]);", "echo", bn.KwPrint + " " + bn.BLen + "([1, 2, 3]);"},
	{bn.BLen + " = 0; " + bn.BLen + "([1]);", "runtime", ""},
	{bn.BAbs + " = nil;", "ok", ""},
	{bn.KwPrint + " " + bn.BMax + "(1, 2) + " + bn.BMin + "(3, 4);", "ok", ""},
	{bn.BMax + " = " + bn.BMin + ";", "ok", ""},
	{"/* open comment", "lexical", ""},
	{bn.KwPrint + " 1; /* c */ " + bn.KwPrint + " 2; // tail", "ok", ""},
	{bn.KwVar + " a = [1, 2]; a[5];", "runtime", ""},
	{bn.KwFun + " g() { " + bn.KwPrint + " \"in g\"; nope; } g();", "runtime", ""},
	{bn.KwWhile + " (" + bn.KwTrue + ") { " + bn.KwBreak + "; }", "ok", ""},
	{bn.KwFor + " (" + bn.KwVar + " i = 0; i < 2; i = i + 1) " + bn.KwPrint + " i;", "ok", ""},
	{"{k: 1}.k;", "syntax", ""},
	{"({k: 1}).k;", "echo", bn.KwPrint + " ({k: 1}).k;"},
	// a line of several statements of which a later one fails: what came before has been answered, nothing lingers
	{bn.KwPrint + " \"a\"; " + bn.KwBreak + ";", "runtime", ""},
	{bn.KwPrint + " \"a\"; " + bn.KwReturn + " 1;", "runtime", ""},
	{"1 + 1; " + bn.KwContinue + ";", "runtime", ""},
	{bn.KwPrint + " \"a\"; nope; " + bn.KwPrint + " \"b\";", "runtime", ""},
	{"{ " + bn.KwPrint + " \"a\"; " + bn.KwBreak + "; }", "runtime", ""},
	{bn.KwFun + " sb() { " + bn.KwBreak + "; } " + bn.KwPrint + " 1; sb(); " + bn.KwPrint + " 2;", "runtime", ""},
	{bn.KwPrint + " 1; " + bn.KwPrint + " 2; 3;", "ok", ""},
	// shifts by negative counts, ordinary and exact 64-bit
	{bn.KwPrint + " 1 << -1;", "runtime", ""},
	{bn.KwVar + " n = (1 << 63) | 1; " + bn.KwPrint + " n << n;", "runtime", ""},
	{bn.KwPrint + " ((1 << 62) | 1) >> (~(1 << 62));", "runtime", ""},
	// comparisons of empty containers, literal and held in a variable
	{"[] == [];", "echo", bn.KwPrint + " [] == [];"},
	{bn.KwVar + " e = []; e != e;", "echo", bn.KwVar + " e = []; " + bn.KwPrint + " e != e;"},
	{"({}) == ({});", "echo", bn.KwPrint + " ({}) == ({});"},
	// a value that contains itself has no finite text: echo and দেখাও report it, the session goes on
	{bn.KwVar + " cy = [1]; cy[0] = cy; cy;", "runtime", ""},
	{bn.KwVar + " co = {}; co.co = co; " + bn.KwPrint + " [co];", "runtime", ""},
	{"", "empty", ""},
	{"   ", "empty", ""},
}

// c20Session feeds lines to the interactive binary and splits its merged
// stdout+stderr at the prompts.
func (c *Ctx) c20Session(lines []string, finalNL bool) (responses []string, status int, raw string, ok bool) {
	in := strings.Join(lines, "\n")
	if finalNL && len(lines) > 0 {
		in += "\n"
	}
	out, st, timedOut := run.CLIMerged(c.Bin, nil, in, c.CLIDir(), 30*time.Second)
	c.Ev.CLICross++
	if timedOut {
		return nil, st, out, false
	}
	parts := strings.Split(out, ">> ")
	// parts[0] is what precedes the first prompt (must be empty)
	return parts, st, out, true
}

func (c *Ctx) c20Check(s *Sub, sub string, idx []int, finalNL bool, fresh map[int]string, enum bool) {
	lines := make([]string, len(idx))
	failedBefore, nt := false, false
	for i, j := range idx {
		lines[i] = c20Pool[j].text
		cl := c20Pool[j].class
		if cl == "lexical" || cl == "syntax" || cl == "runtime" {
			failedBefore = true
		} else if failedBefore && cl != "empty" {
			nt = true
		}
	}
	desc := strings.Join(lines, "\n")
	if enum {
		c.Ev.EnumCase(sub, nt, func() string { return desc }, fmt.Sprintf("session-len-%d", len(idx)))
	} else {
		c.Ev.Case(sub, desc+fmt.Sprint(finalNL), nt, "session-random")
	}
	// an empty last line without a final newline is no line at all
	nLines := len(lines)
	if !finalNL && nLines > 0 && lines[nLines-1] == "" {
		nLines--
	}
	parts, status, raw, ok := c.c20Session(lines, finalNL)
	fail := func(sig, msg, exp string) {
		s.Violation(Replay{Check: "session", Sig: sig, Source: desc, Note: msg, Expected: exp, Observed: fmt.Sprintf("status=%d output=%q", status, clip(raw, 1200)),
			Extra: map[string]string{"finalNL": fmt.Sprint(finalNL), "idx": strings.Trim(strings.Join(strings.Fields(fmt.Sprint(idx)), ","), "[]")}})
	}
	if !ok {
		fail("hang", "the session did not end within 30 s", "")
	}
	if status != 0 {
		fail("status", "end of input must end the session with status 0", "0")
	}
	if len(parts) != nLines+2 || parts[0] != "" {
		fail("prompts", fmt.Sprintf("expected %d prompts (one per line plus the final one), output splits into %d pieces", nLines+1, len(parts)-1), "")
	}
	if parts[len(parts)-1] != "" {
		fail("after-last-prompt", "output after the final prompt", "")
	}
	for i := 0; i < nLines; i++ {
		want, known := fresh[idx[i]]
		if known && parts[i+1] != want {
			fail("response", fmt.Sprintf("line %d (%q) answered %q, as the only line of a fresh session it is answered %q", i+1, lines[i], parts[i+1], want), want)
		}
	}
}

// c20Long: sessions in which some lines are made very long by content that
// cannot change their answer (trailing blanks, a trailing comment, a blank
// prefix) or whose answer is known by construction (a long string literal,
// many statements on one line).  The line reader must hand every finite line
// to the pipeline, whatever its length.
type c20LongLine struct {
	J    int    // pool index (pad kinds) — ignored for "longstr" and "many"
	Kind string // plain, spaces, comment, prefix, strlen, many
	N    int    // target size in bytes / repetitions
}

func (l c20LongLine) build() (text, want string, known bool) {
	base := c20Pool[l.J%len(c20Pool)].text
	switch l.Kind {
	case "spaces":
		return base + strings.Repeat(" ", l.N), "", false
	case "comment":
		return base + " //" + strings.Repeat("x", l.N), "", false
	case "prefix":
		return strings.Repeat(" ", l.N) + base, "", false
	case "longstr":
		return bn.KwPrint + " \"" + strings.Repeat("a", l.N) + "\";", strings.Repeat("a", l.N) + "\n", true
	case "many":
		k := l.N / 16
		if k < 1 {
			k = 1
		}
		return strings.Repeat(bn.KwPrint+" 1; ", k), strings.Repeat("1\n", k), true
	}
	return base, "", false
}

func c20LongSpec(ls []c20LongLine) string {
	var parts []string
	for _, l := range ls {
		parts = append(parts, fmt.Sprintf("%d:%s:%d", l.J, l.Kind, l.N))
	}
	return strings.Join(parts, ",")
}

func c20ParseLong(spec string) []c20LongLine {
	var out []c20LongLine
	for _, f := range strings.Split(spec, ",") {
		g := strings.Split(f, ":")
		if len(g) != 3 {
			continue
		}
		var l c20LongLine
		fmt.Sscan(g[0], &l.J)
		l.Kind = g[1]
		fmt.Sscan(g[2], &l.N)
		out = append(out, l)
	}
	return out
}

func (c *Ctx) c20LongCheck(s *Sub, sub string, ls []c20LongLine, fresh map[int]string) {
	lines := make([]string, len(ls))
	wants := make([]string, len(ls))
	nt := false
	var descParts []string
	for i, l := range ls {
		text, want, known := l.build()
		lines[i] = text
		if known {
			wants[i] = want
		} else {
			wants[i] = fresh[l.J%len(c20Pool)]
		}
		if len(text) > 65536 && i+1 < len(ls) {
			nt = true
		}
		descParts = append(descParts, fmt.Sprintf("%s(%d bytes)", l.Kind, len(text)))
	}
	spec := c20LongSpec(ls)
	bucket := "long-none"
	if nt {
		bucket = "long-over-64KiB-then-more"
	}
	c.Ev.Case(sub, spec, nt, bucket)
	parts, status, raw, ok := c.c20Session(lines, true)
	fail := func(sig, msg, exp string) {
		s.Violation(Replay{Check: "long-session", Sig: sig, Source: strings.Join(descParts, " | "), Note: msg, Expected: exp, Observed: fmt.Sprintf("status=%d output=%q", status, clip(raw, 600)),
			Extra: map[string]string{"spec": spec}})
	}
	if !ok {
		fail("hang", "the session did not end within 30 s", "")
		return
	}
	if status != 0 {
		fail("status", "end of input must end the session with status 0", "0")
	}
	if len(parts) != len(lines)+2 || parts[0] != "" {
		fail("prompts", fmt.Sprintf("expected %d prompts (one per line plus the final one), output splits into %d pieces: some line received no response", len(lines)+1, len(parts)-1), "")
		return
	}
	for i := range lines {
		if parts[i+1] != wants[i] {
			fail("response", fmt.Sprintf("line %d (%s, %d bytes) answered %q, expected %q", i+1, ls[i].Kind, len(lines[i]), clip(parts[i+1], 200), clip(wants[i], 200)), clip(wants[i], 200))
		}
	}
}

func TestC20(t *testing.T) {
	Main(t, "C20", func(c *Ctx) {
		// responses of each pool line in a fresh session (obtained once per run)
		fresh := map[int]string{}
		freshOK := true
		getFresh := func(s *Sub) {
			if len(fresh) > 0 {
				return
			}
			for j, l := range c20Pool {
				parts, status, raw, ok := c.c20Session([]string{l.text}, true)
				if !ok || status != 0 || len(parts) != 3 {
					freshOK = false
					s.Violation(Replay{Check: "session", Sig: "single-line", Source: l.text, Note: "a single-line session must print two prompts, answer once and exit 0", Observed: fmt.Sprintf("status=%d output=%q", status, clip(raw, 600)),
						Extra: map[string]string{"finalNL": "true", "idx": fmt.Sprint(j)}})
				}
				fresh[j] = parts[1]
			}
		}
		c.OnReplay("session", func(s *Sub, rp *Replay) {
			getFresh(s)
			var idx []int
			for _, f := range strings.Split(rp.Extra["idx"], ",") {
				var v int
				if _, err := fmt.Sscan(f, &v); err == nil {
					idx = append(idx, v)
				}
			}
			c.c20Check(s, "replay", idx, rp.Extra["finalNL"] != "false", fresh, false)
		})
		c.OnReplay("input-session", func(s *Sub, rp *Replay) {
			var chunks []string
			for _, l := range strings.Split(rp.Source, "\n") {
				chunks = append(chunks, l+"\n")
			}
			out1, st1, _ := run.CLIMerged(c.Bin, nil, strings.Join(chunks, ""), c.CLIDir(), 30*time.Second)
			out2, st2, _ := run.CLIMergedChunks(c.Bin, nil, chunks, 25*time.Millisecond, c.CLIDir(), 30*time.Second)
			c.Ev.Case("replay", rp.Source, true, "replay")
			if st1 != 0 || st2 != 0 || out1 != rp.Expected || out2 != rp.Expected {
				s.Violation(Replay{Check: "input-session", Sig: rp.Sig, Source: rp.Source, Note: rp.Note, Expected: rp.Expected, Observed: fmt.Sprintf("at once: status=%d %q; line by line: status=%d %q", st1, clip(out1, 300), st2, clip(out2, 300))})
			}
		})
		c.OnReplay("long-session", func(s *Sub, rp *Replay) {
			getFresh(s)
			c.c20LongCheck(s, "replay", c20ParseLong(rp.Extra["spec"]), fresh)
		})
		c.ReplayTier()

		c.Sub("fresh-responses", func(s *Sub) {
			getFresh(s)
			if c.Shard != 0 {
				return
			}
			// class sanity, echo rule, print-once rule
			for j, l := range c20Pool {
				r := fresh[j]
				c.Ev.Case("fresh-responses", l.text, true, "pool-"+l.class)
				bad := ""
				switch l.class {
				case "ok":
					if strings.Contains(r, "Error") || strings.Contains(r, "[line") {
						bad = "a valid line produced a diagnostic"
					}
				case "echo":
					for k, o := range c20Pool {
						if o.text == l.echo && fresh[k] != r {
							bad = "bare expression not echoed like the corresponding দেখাও"
						}
					}
					// compare against a session with the দেখাও form
					parts, _, _, ok := c.c20Session([]string{l.echo}, true)
					if !ok || len(parts) != 3 || parts[1] != r || r == "" {
						bad = fmt.Sprintf("a bare expression statement must echo its value exactly as %q prints it (%q vs %q)", l.echo, r, strings.Join(parts, "|"))
					}
				case "lexical", "syntax", "runtime":
					if strings.TrimSpace(r) == "" {
						bad = "a failing line produced no diagnostic"
					}
				case "empty":
					if r != "" {
						bad = "an empty line produced output"
					}
				}
				if strings.HasPrefix(l.text, bn.KwPrint+" 1 + 2") && r != "3\n" {
					bad = "a দেখাও line must be answered exactly once"
				}
				if bad != "" {
					s.Violation(Replay{Check: "session", Sig: "single-" + l.class, Source: l.text, Note: bad, Observed: fmt.Sprintf("%q", r), Extra: map[string]string{"finalNL": "true", "idx": fmt.Sprint(j)}})
				}
			}
		})
		maxLen := 2
		if c.Thorough {
			maxLen = 3
		}
		c.Sub("enum-sessions", func(s *Sub) {
			getFresh(s)
			if !freshOK {
				return
			}
			for n := 1; n <= maxLen; n++ {
				c.enumTuples(len(c20Pool), n, func(idx []int) {
					c.c20Check(s, "enum-sessions", idx, true, fresh, true)
				})
			}
			c.Ev.MarkExhaustive(fmt.Sprintf("every session of <= %d lines over the %d-line pool", maxLen, len(c20Pool)))
		})
		nl := 40
		if c.Thorough {
			nl = 400
		}
		c.Rapid("long-lines", nl, func(rt *rapid.T, s *Sub) {
			getFresh(s)
			if !freshOK {
				return
			}
			// pool lines whose answer cannot depend on what follows them on the line
			var padOK []int
			for j, l := range c20Pool {
				if l.class != "lexical" {
					padOK = append(padOK, j)
				}
			}
			sizes := []int{100, 4095, 4096, 4097, 65534, 65535, 65536, 65537, 70000, 131072, 300000, 1 << 20}
			k := rapid.IntRange(2, 5).Draw(rt, "len")
			ls := make([]c20LongLine, k)
			for i := range ls {
				l := c20LongLine{J: rapid.SampledFrom(padOK).Draw(rt, "line")}
				l.Kind = rapid.SampledFrom([]string{"plain", "spaces", "comment", "prefix", "longstr", "many"}).Draw(rt, "kind")
				l.N = rapid.SampledFrom(sizes).Draw(rt, "size") + rapid.IntRange(-2, 2).Draw(rt, "delta")
				if l.Kind == "many" && l.N > 131072 {
					l.N = 131072
				}
				ls[i] = l
			}
			c.c20LongCheck(s, "long-lines", ls, fresh)
		})
		// accumulation: one failing line repeated many times (so that anything a failing line leaves behind
		// adds up), then probe lines; every line must be answered as in a fresh session
		na := 30
		if c.Thorough {
			na = 300
		}
		// failures deep inside calls, accumulated over many lines (tens of thousands of abandoned activations in all):
		// a later line that calls a function is answered as in a fresh session
		c.Sub("accumulated-deep-failures", func(s *Sub) {
			fails := []string{
				"%s d(n) { %s (n > 0) { d(n - 1); } %s { nope; } } d(%d);",
				"%s d(n) { %s (n > 0) { %s d(n - 1) + 1; } %s 1 - nil; } %s d(%d);",
			}
			probes := []struct{ line, want string }{
				{fmt.Sprintf("%s s(n) { %s (n == 0) { %s 0; } %s n + s(n - 1); } %s s(10);", bn.KwFun, bn.KwIf, bn.KwReturn, bn.KwReturn, bn.KwPrint), "55\n"},
				{fmt.Sprintf("%s s(n) { %s (n == 0) { %s 0; } %s n + s(n - 1); } s(2000);", bn.KwFun, bn.KwIf, bn.KwReturn, bn.KwReturn), "2.001e+06\n"},
				{bn.KwFun + " f(a) { " + bn.KwReturn + " a + 1; } " + bn.KwPrint + " f(41);", "42\n"},
			}
			var k int64
			for fi, f := range fails {
				for _, dr := range [][2]int{{3000, 6}, {500, 40}, {50, 400}, {5, 5000}} {
					k++
					if !c.Mine(k) {
						continue
					}
					var fl string
					if fi == 0 {
						fl = fmt.Sprintf(f, bn.KwFun, bn.KwIf, bn.KwElse, dr[0])
					} else {
						fl = fmt.Sprintf(f, bn.KwFun, bn.KwIf, bn.KwReturn, bn.KwReturn, bn.KwPrint, dr[0])
					}
					var lines []string
					for i := 0; i < dr[1]; i++ {
						lines = append(lines, fl)
					}
					for _, p := range probes {
						lines = append(lines, p.line)
					}
					parts, status, raw, ok := c.c20Session(lines, true)
					c.Ev.EnumCase("accumulated-deep-failures", true, func() string { return fmt.Sprintf("%d x %s, then %d probes", dr[1], fl, len(probes)) }, "accumulated-failures")
					bad := ""
					if !ok || status != 0 || len(parts) != len(lines)+2 {
						bad = fmt.Sprintf("a session of %d lines must show %d prompts and end with status 0 (status %d, %d prompts)", len(lines), len(lines)+1, status, len(parts)-1)
					} else {
						for i, p := range probes {
							if got := parts[dr[1]+1+i]; got != p.want {
								bad = fmt.Sprintf("after %d failing lines the line %q answered %q instead of %q", dr[1], p.line, got, p.want)
								break
							}
						}
					}
					if bad != "" {
						s.Violation(Replay{Check: "builtin-session", Sig: "accumulated-failures", Source: fmt.Sprintf("%d x %s", dr[1], fl), Note: bad, Observed: fmt.Sprintf("status=%d output=%q", status, clip(raw[max(0, len(raw)-500):], 500))})
					}
				}
			}
		})
		freshText := map[string]string{}
		c.Rapid("repeated-failures", na, func(rt *rapid.T, s *Sub) {
			deepFail := func(n int) string {
				return fmt.Sprintf("%s d(n) { %s (n > 0) { d(n - 1); } %s { nope; } } d(%d);", bn.KwFun, bn.KwIf, bn.KwElse, n)
			}
			deepFailRet := func(n int) string {
				return fmt.Sprintf("%s d(n) { %s (n > 0) { %s d(n - 1) + 1; } %s 1 - nil; } %s d(%d);", bn.KwFun, bn.KwIf, bn.KwReturn, bn.KwReturn, bn.KwPrint, n)
			}
			deepOK := func(n int) string {
				return fmt.Sprintf("%s s(n) { %s (n == 0) { %s 0; } %s n + s(n - 1); } %s s(%d);", bn.KwFun, bn.KwIf, bn.KwReturn, bn.KwReturn, bn.KwPrint, n)
			}
			var failing []string
			for _, l := range c20Pool {
				if l.class == "runtime" || l.class == "syntax" || l.class == "lexical" {
					failing = append(failing, l.text)
				}
			}
			depth := rapid.SampledFrom([]int{1, 50, 500, 3000}).Draw(rt, "depth")
			failing = append(failing, deepFail(depth), deepFailRet(depth), deepFail(depth), deepFailRet(depth))
			fl := rapid.SampledFrom(failing).Draw(rt, "failingLine")
			reps := rapid.SampledFrom([]int{1, 3, 10, 100, 1000}).Draw(rt, "repetitions")
			if strings.Contains(fl, " d(n) ") && reps*depth > 200000 {
				reps = 200000 / depth
			}
			var lines []string
			for i := 0; i < reps; i++ {
				lines = append(lines, fl)
			}
			np := rapid.IntRange(1, 3).Draw(rt, "probes")
			for i := 0; i < np; i++ {
				if rapid.Bool().Draw(rt, "deepProbe") {
					lines = append(lines, deepOK(rapid.SampledFrom([]int{10, 1000, 5000}).Draw(rt, "probeDepth")))
				} else {
					lines = append(lines, c20Pool[rapid.IntRange(0, len(c20Pool)-1).Draw(rt, "probe")].text)
				}
			}
			desc := fmt.Sprintf("%d x %s\n%s", reps, fl, strings.Join(lines[reps:], "\n"))
			c.Ev.Case("repeated-failures", desc, reps >= 10, fmt.Sprintf("repetitions-%d", reps))
			want := func(text string) (string, bool) {
				if w, ok := freshText[text]; ok {
					return w, true
				}
				parts, status, _, ok := c.c20Session([]string{text}, true)
				if !ok || status != 0 || len(parts) != 3 {
					return "", false
				}
				freshText[text] = parts[1]
				return parts[1], true
			}
			parts, status, raw, ok := c.c20Session(lines, true)
			fail := func(sig, msg, exp string) {
				s.Violation(Replay{Check: "repeated-session", Sig: sig, Source: desc, Note: msg, Expected: exp, Observed: fmt.Sprintf("status=%d output=%q", status, clip(raw[max(0, len(raw)-600):], 600)),
					Extra: map[string]string{"reps": fmt.Sprint(reps)}})
			}
			if !ok || status != 0 {
				fail("status", "the session must end with status 0 at end of input", "0")
				return
			}
			nLines := 0
			for _, l := range lines {
				_ = l
				nLines++
			}
			if len(parts) != nLines+2 {
				fail("prompts", fmt.Sprintf("expected %d prompts, output splits into %d pieces", nLines+1, len(parts)-1), "")
				return
			}
			for i, l := range lines {
				w, ok := want(l)
				if !ok {
					fail("fresh", fmt.Sprintf("the line %q alone does not give a well-formed single-line session", l), "")
					return
				}
				if parts[i+1] != w {
					fail("response", fmt.Sprintf("line %d (%q) answered %q; as the only line of a fresh session it is answered %q", i+1, clip(l, 120), clip(parts[i+1], 200), clip(w, 200)), clip(w, 200))
					return
				}
			}
		})
		// every built-in with no argument, with each single argument producer and with each producer twice:
		// one session per built-in, forwards and backwards; whatever a call does the session goes on, and a
		// line's answer does not depend on what came before it
		c.Sub("builtin-misuse-sessions", func(s *Sub) {
			var k int64
			for _, b := range bn.Builtins {
				k++
				if !c.Mine(k) || b == bn.BInput || b == bn.BClock {
					continue
				}
				lines := []string{b + "();"}
				for _, a := range c17Args {
					lines = append(lines, b+"("+a.text+");", bn.KwPrint+" "+b+"("+a.text+", "+a.text+");")
				}
				rev := make([]string, len(lines))
				for i, l := range lines {
					rev[len(lines)-1-i] = l
				}
				pf, st1, raw1, ok1 := c.c20Session(lines, true)
				pb, st2, raw2, ok2 := c.c20Session(rev, true)
				c.Ev.EnumCase("builtin-misuse-sessions", true, func() string { return strings.Join(lines, "\n") }, "builtin "+b)
				fail := func(sig, msg, raw string) {
					s.Violation(Replay{Check: "builtin-session", Sig: sig, Source: strings.Join(lines, "\n"), Note: msg, Observed: fmt.Sprintf("output=%q", clip(raw[max(0, len(raw)-700):], 700))})
				}
				if !ok1 || st1 != 0 || len(pf) != len(lines)+2 {
					fail("forward", fmt.Sprintf("session of %d lines calling %s: status %d, %d prompts (expected status 0 and %d prompts)", len(lines), b, st1, len(pf)-1, len(lines)+1), raw1)
					continue
				}
				if !ok2 || st2 != 0 || len(pb) != len(lines)+2 {
					fail("backward", fmt.Sprintf("reversed session of %d lines calling %s: status %d, %d prompts", len(lines), b, st2, len(pb)-1), raw2)
					continue
				}
				for i, l := range lines {
					if pf[i+1] != pb[len(lines)-i] {
						fail("order-dependent", fmt.Sprintf("line %q answered %q in one session and %q in the reversed one", l, pf[i+1], pb[len(lines)-i]), raw1)
						break
					}
				}
			}
			c.Ev.MarkExhaustive(fmt.Sprintf("15 built-ins x (no argument, %d single arguments, %d doubled arguments), each as one session forwards and one backwards", len(c17Args), len(c17Args)))
		})
		// ইনপুট inside a session: it takes the next line of the same stdin, which then is data and not a line to
		// run, and the session goes on behind it — whatever the pace at which the pipe delivers the bytes.  The
		// expected transcript is computed from the line list; the session is fed at once and line by line.
		ni := 12
		if c.Thorough {
			ni = 150
		}
		c.Rapid("input-in-session", ni, func(rt *rapid.T, s *Sub) {
			k := rapid.IntRange(2, 7).Draw(rt, "len")
			var lines []string
			want := ""
			pending := 0 // ইনপুট calls of the current line still waiting for data
			var askers []string
			for i := 0; i < k; i++ {
				if rapid.IntRange(0, 2).Draw(rt, "kind") == 0 {
					tag := fmt.Sprintf("r%d", i)
					if rapid.Bool().Draw(rt, "two") {
						lines = append(lines, fmt.Sprintf("%s \"%s<\" + %s() + \"|\" + %s() + \">\";", bn.KwPrint, tag, bn.BInput, bn.BInput))
						pending = 2
					} else {
						lines = append(lines, fmt.Sprintf("%s \"%s<\" + %s() + \">\";", bn.KwPrint, tag, bn.BInput))
						pending = 1
					}
					askers = append(askers, tag)
					want += ">> " + tag + "<"
					for pending > 0 {
						data := rapid.SampledFrom([]string{"hello", bn.KwPrint + " 5;", "  padded  ", "7 * 6;", "x"}).Draw(rt, "data")
						lines = append(lines, data)
						want += strings.TrimSpace(data)
						pending--
						if pending > 0 {
							want += "|"
						}
					}
					want += ">\n"
				} else {
					v := rapid.IntRange(1, 99).Draw(rt, "v")
					if rapid.Bool().Draw(rt, "echo") {
						lines = append(lines, fmt.Sprintf("%d + 1;", v))
					} else {
						lines = append(lines, fmt.Sprintf("%s %d + 1;", bn.KwPrint, v))
					}
					want += fmt.Sprintf(">> %d\n", v+1)
				}
			}
			want += ">> "
			desc := strings.Join(lines, "\n")
			c.Ev.Case("input-in-session", desc, len(askers) > 0, fmt.Sprintf("input-lines-%d", len(askers)))
			var chunks []string
			for _, l := range lines {
				chunks = append(chunks, l+"\n")
			}
			for _, mode := range []string{"at-once", "line-by-line"} {
				var out string
				var st int
				var to bool
				if mode == "at-once" {
					out, st, to = run.CLIMerged(c.Bin, nil, strings.Join(chunks, ""), c.CLIDir(), 30*time.Second)
				} else {
					out, st, to = run.CLIMergedChunks(c.Bin, nil, chunks, 25*time.Millisecond, c.CLIDir(), 30*time.Second)
				}
				c.Ev.CLICross++
				if to || st != 0 || out != want {
					s.Violation(Replay{Check: "input-session", Sig: "input-" + mode, Source: desc, Note: "stdin delivered " + mode + ": ইনপুট must take the next line of stdin as data and the session must go on behind it", Expected: want,
						Observed: fmt.Sprintf("status=%d output=%q", st, clip(out, 600))})
					return
				}
			}
		})
		// lines that begin with, consist of or contain a control or format character: none of them is an
		// end-of-input mark — each gets its response (a lexical error, unless the character sits in a string or
		// comment or is a blank) and the session goes on
		c.Sub("control-character-lines", func(s *Sub) {
			var k int64
			var cps []rune
			for r := rune(1); r < 0x20; r++ {
				if r != '\n' && r != '\r' {
					cps = append(cps, r)
				}
			}
			cps = append(cps, 0x7f, 0x80, 0x85, 0x9c, 0xa0, 0xad, 0x2028, 0x2029, 0xfeff, 0xfffe, 0xffff, 0x200b, 0x1a1a, 0x0404, 0xe0001)
			for _, r := range cps {
				k++
				if !c.Mine(k) {
					continue
				}
				ch := string(r)
				lines := []string{"1 + 2;", ch, "3 + 4;", ch + " 5;", "\"a\" + \"b\";", "6; " + ch, ch + ch, bn.KwPrint + " \"" + ch + "\";", "// " + ch, bn.BMax + "(1, 2);"}
				parts, status, raw, ok := c.c20Session(lines, true)
				c.Ev.EnumCase("control-character-lines", true, func() string { return fmt.Sprintf("U+%04X", r) }, "control-lines")
				fail := func(sig, msg string) {
					s.Violation(Replay{Check: "builtin-session", Sig: sig, Source: strings.Join(lines, "\n"), Note: fmt.Sprintf("U+%04X: %s", r, msg), Observed: fmt.Sprintf("status=%d output=%q", status, clip(raw, 500))})
				}
				if !ok || status != 0 || len(parts) != len(lines)+2 {
					fail("control-prompts", fmt.Sprintf("a session of %d lines must show %d prompts and end with status 0 (got %d prompts, status %d)", len(lines), len(lines)+1, len(parts)-1, status))
					continue
				}
				if parts[1] != "3\n" || parts[3] != "7\n" || parts[5] != "ab\n" || parts[10] != "2\n" {
					fail("control-answers", "the ordinary lines of the session are not answered as usual")
				}
			}
			c.Ev.MarkExhaustive("every C0 control character except CR/LF and 15 further control / format / noncharacter code points: alone, first on a line, last on a line, doubled, inside a string, inside a comment, between ordinary lines")
		})
		// lines cut off anywhere: every prefix and every suffix (by code point) of token-rich lines, between
		// ordinary lines and as the very last line without a newline.  Whatever such a line is — valid, lexically
		// or syntactically broken — the session goes on and the ordinary lines are answered as usual.
		c.Sub("truncated-lines", func(s *Sub) {
			P := bn.KwPrint
			pool := []string{
				P + " ১২.৫ + 3.25;",
				P + " \"str\" + \"ing\";",
				bn.KwVar + " v = [1.5, 2]; v[0];",
				P + " 7 ** 2 >= 3 && !" + bn.KwFalse + ";",
				P + " 1 << 2 != 8 >> 1; // c",
				P + " 1; /* c */ " + P + " 2.0;",
				bn.KwFun + " f(a) { " + bn.KwReturn + " a.k; } " + P + " f({k: 1.5});",
				P + " " + bn.BLen + "([1, 2]) <= 2 " + bn.KwOr + " nil;",
				"({a: 1}).a == 1.0;",
				bn.KwIf + " (1 < 2.5) " + P + " \"y\"; " + bn.KwElse + " " + P + " \"n\";",
				bn.KwFor + " (" + bn.KwVar + " i = 0; i < 2; i = i + 1) " + P + " i * 0.5;",
				"৩.১৪;",
				P + " \"ক\\খ\" + \"\\\";", // backslashes are ordinary characters of a string
				P + " \"a'b`c$d@e#f\" + 'x';",
			}
			var k int64
			for li, full := range pool {
				rs := []rune(full)
				var cuts []string
				for n := 1; n < len(rs); n++ {
					cuts = append(cuts, string(rs[:n]))
				}
				for n := 1; n < len(rs); n++ {
					cuts = append(cuts, string(rs[n:]))
				}
				k++
				if c.Mine(k) {
					// all cuts of the line in one session, an ordinary line after each
					var lines []string
					for i, cut := range cuts {
						lines = append(lines, cut, fmt.Sprintf("%d + 1000;", i))
					}
					parts, status, raw, ok := c.c20Session(lines, true)
					c.Ev.EnumCase("truncated-lines", true, func() string { return "all cuts of: " + full }, "truncated-lines")
					bad := ""
					switch {
					case !ok:
						bad = "the session did not end within 30 s"
					case status != 0:
						bad = fmt.Sprintf("the session ended with status %d", status)
					case len(parts) != len(lines)+2:
						bad = fmt.Sprintf("%d lines must be answered by %d prompts, got %d", len(lines), len(lines)+1, len(parts)-1)
					}
					if bad == "" {
						for i := range cuts {
							if want := fmt.Sprintf("%d\n", i+1000); parts[2*i+2] != want {
								bad = fmt.Sprintf("the ordinary line after the cut %q answered %q instead of %q", cuts[i], parts[2*i+2], want)
								break
							}
						}
					}
					if bad != "" {
						s.Violation(Replay{Check: "builtin-session", Sig: "truncated-line-session", Source: strings.Join(lines, "\n"), Note: fmt.Sprintf("cuts of pool line %d: %s", li, bad), Observed: fmt.Sprintf("status=%d output=%q", status, clip(raw, 600))})
					}
				}
				for _, cut := range cuts {
					k++
					if !c.Mine(k) || strings.TrimSpace(cut) == "" {
						continue
					}
					lines := []string{"1000 + 1;", cut}
					parts, status, raw, ok := c.c20Session(lines, false)
					c.Ev.EnumCase("truncated-lines", true, func() string { return "last line, no newline: " + cut }, "truncated-last-line")
					if !ok || status != 0 || len(parts) != 4 || parts[1] != "1001\n" {
						s.Violation(Replay{Check: "builtin-session", Sig: "truncated-last-line", Source: strings.Join(lines, "\n"), Note: fmt.Sprintf("a session whose last line is %q without a newline must answer both lines, show 3 prompts and end with status 0", cut), Observed: fmt.Sprintf("status=%d output=%q", status, clip(raw, 600))})
					}
				}
			}
			c.Ev.MarkExhaustive(fmt.Sprintf("every proper prefix and suffix (by code point) of %d token-rich lines, inside a session and as its unterminated last line", len(pool)))
		})
		// every callee form with 0-3 arguments as a session line of its own (each line brings its own
		// declarations): a failing call ends neither the session nor any later answer
		c.Sub("callee-form-sessions", func(s *Sub) {
			if c.Shard != 0 {
				return
			}
			pre := bn.KwFun + " f1(a) { " + bn.KwReturn + " a; } " + bn.KwFun + " f2(a, b) { " + bn.KwReturn + " b; } " + bn.KwVar + " arr = [" + bn.BLen + ", f1, 7]; " + bn.KwVar + " obj = {m: " + bn.BLen + ", n: f2, v: 3}; "
			callees := []string{"f1", "f2", bn.BLen, bn.BMax, "arr[0]", "arr[1]", "arr[2]", "arr[9]", "obj.m", "obj.n", "obj.v", "obj.zz", "(f1)", "(" + bn.BLen + " " + bn.KwOr + " 1)", "(nil " + bn.KwOr + " f2)", "(x = f1)", "f1(f1)", "f2(1, f1)", "[f1][0]", "({k: f2}).k", "5", "nil", "\"s\"", "undefinedName", "f1(1)", "arr[1](1)"}
			args := []string{"11", "22", "33"}
			var lines []string
			for _, cal := range callees {
				for n := 0; n <= 3; n++ {
					lines = append(lines, pre+bn.KwPrint+" "+cal+"("+strings.Join(args[:n], ", ")+");")
				}
			}
			rev := make([]string, len(lines))
			for i, l := range lines {
				rev[len(lines)-1-i] = l
			}
			pf, st1, raw1, ok1 := c.c20Session(lines, true)
			pb, st2, raw2, ok2 := c.c20Session(rev, true)
			c.Ev.EnumCase("callee-form-sessions", true, func() string { return strings.Join(lines, "\n") }, "callee-forms")
			fail := func(sig, msg, raw string) {
				s.Violation(Replay{Check: "builtin-session", Sig: sig, Source: strings.Join(lines, "\n"), Note: msg, Observed: fmt.Sprintf("output=%q", clip(raw[max(0, len(raw)-700):], 700))})
			}
			switch {
			case !ok1 || st1 != 0 || len(pf) != len(lines)+2:
				fail("callee-forward", fmt.Sprintf("session of %d call lines: status %d, %d prompts (expected status 0 and %d prompts)", len(lines), st1, len(pf)-1, len(lines)+1), raw1)
			case !ok2 || st2 != 0 || len(pb) != len(lines)+2:
				fail("callee-backward", fmt.Sprintf("reversed session of %d call lines: status %d, %d prompts", len(lines), st2, len(pb)-1), raw2)
			default:
				for i, l := range lines {
					if pf[i+1] != pb[len(lines)-i] {
						fail("callee-order-dependent", fmt.Sprintf("line %q answered %q in one session and %q in the reversed one", l, pf[i+1], pb[len(lines)-i]), raw1)
						break
					}
				}
			}
			c.Ev.MarkExhaustive(fmt.Sprintf("%d callee forms x 0..3 arguments, one session forwards and one backwards", len(callees)))
		})
		// lines that call a built-in with arbitrary arguments (mostly misuse): whatever the call does, the
		// session goes on and every line is answered as in a fresh session
		nb := 60
		if c.Thorough {
			nb = 1500
		}
		c.Rapid("builtin-call-lines", nb, func(rt *rapid.T, s *Sub) {
			k := rapid.IntRange(2, 6).Draw(rt, "len")
			var lines []string
			for i := 0; i < k; i++ {
				b := rapid.SampledFrom(bn.Builtins).Draw(rt, "builtin")
				if b == bn.BInput || b == bn.BClock {
					b = bn.BMax
				}
				na := rapid.IntRange(0, 3).Draw(rt, "argc")
				var args []string
				for j := 0; j < na; j++ {
					args = append(args, rapid.SampledFrom(c17Args).Draw(rt, "arg").text)
				}
				call := b + "(" + strings.Join(args, ", ") + ")"
				if rapid.Bool().Draw(rt, "print") {
					lines = append(lines, bn.KwPrint+" "+call+";")
				} else {
					lines = append(lines, call+";")
				}
			}
			lines = append(lines, bn.KwPrint+" \"still here\";")
			desc := strings.Join(lines, "\n")
			c.Ev.Case("builtin-call-lines", desc, true, "builtin-lines")
			parts, status, raw, ok := c.c20Session(lines, true)
			fail := func(sig, msg string) {
				s.Violation(Replay{Check: "builtin-session", Sig: sig, Source: desc, Note: msg, Observed: fmt.Sprintf("status=%d output=%q", status, clip(raw, 800))})
			}
			if !ok || status != 0 {
				fail("status", "the session must go on to the end of input and end with status 0")
				return
			}
			if len(parts) != len(lines)+2 {
				fail("prompts", fmt.Sprintf("expected %d prompts, output splits into %d pieces", len(lines)+1, len(parts)-1))
				return
			}
			if parts[len(lines)] != "still here\n" {
				fail("last-line", fmt.Sprintf("the last line answered %q", parts[len(lines)]))
			}
			for i, l := range lines {
				if w, known := freshText[l]; known && parts[i+1] != w {
					fail("response", fmt.Sprintf("line %d (%q) answered %q, earlier in a fresh session %q", i+1, l, parts[i+1], w))
				}
				if i == 0 {
					freshText[l] = parts[1]
				}
			}
		})
		n := 300
		if c.Thorough {
			n = 2500
		}
		c.Rapid("rand-sessions", n, func(rt *rapid.T, s *Sub) {
			getFresh(s)
			k := rapid.IntRange(3, 60).Draw(rt, "len")
			idx := make([]int, k)
			for i := range idx {
				idx[i] = rapid.IntRange(0, len(c20Pool)-1).Draw(rt, "line")
			}
			c.c20Check(s, "rand-sessions", idx, rapid.Bool().Draw(rt, "finalNL"), fresh, false)
		})
	})
}
