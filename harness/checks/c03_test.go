package checks

import (
	"fmt"
	"strings"
	"testing"

	"pgregory.net/rapid"

	"verifharness/bn"
	"verifharness/model"
)

// C03 — names resolve through nested block scopes.

type c03Gen struct {
	pick   func(string, int) int
	uniq   int
	nLoop  int
	nFun   int
	budget int
	b      strings.Builder
	scopes []map[string]bool // static approximation of declared names
	funcs  []c03Fun
	dead   []c03Fun // functions whose declaring scope has ended
	jumps  bool     // random generation only: scopes are also left by থামো / চালিয়ে_যাও / ফেরত from inside nested blocks
	loops  []string // counters of the loops around the current position (inside the current function)
}

type c03Fun struct {
	name  string
	arity int
	depth int // static scope depth at which it was declared
}

var c03Vars = []string{"a", "b", "c"}

func indexOf(xs []string, x string) int {
	for i, y := range xs {
		if y == x {
			return i
		}
	}
	return 0
}

func (g *c03Gen) u() string { g.uniq++; return fmt.Sprint(100 + g.uniq) }

func (g *c03Gen) push() { g.scopes = append(g.scopes, map[string]bool{}) }
func (g *c03Gen) pop() {
	g.scopes = g.scopes[:len(g.scopes)-1]
	for len(g.funcs) > 0 && g.funcs[len(g.funcs)-1].depth > len(g.scopes) {
		g.dead = append(g.dead, g.funcs[len(g.funcs)-1])
		g.funcs = g.funcs[:len(g.funcs)-1]
	}
}

func (g *c03Gen) visible(n string) bool {
	for _, s := range g.scopes {
		if s[n] {
			return true
		}
	}
	return false
}

// nameFor picks a variable name; wantFresh: prefer one not declared in the
// current scope (for declarations), else prefer a visible one (for uses).
func (g *c03Gen) nameFor(decl bool) string {
	cands := []string{}
	cur := g.scopes[len(g.scopes)-1]
	for _, v := range c03Vars {
		if decl && !cur[v] || !decl && g.visible(v) {
			cands = append(cands, v)
		}
	}
	if len(cands) == 0 || g.pick("bias", 8) == 1 {
		return c03Vars[g.pick("name", len(c03Vars))]
	}
	return cands[g.pick("name", len(cands))]
}

func (g *c03Gen) block(ind string, depth int, inFunc bool, n int) {
	g.push()
	for i := 0; i < n; i++ {
		g.stmt(ind, depth, inFunc)
	}
	g.pop()
}

func (g *c03Gen) stmt(ind string, depth int, inFunc bool) {
	g.budget--
	choices := 11
	if depth <= 0 || g.budget <= 0 {
		choices = 4
	}
	w := func(format string, a ...interface{}) { g.b.WriteString(ind + fmt.Sprintf(format, a...) + "\n") }
	if g.jumps && (len(g.loops) > 0 || inFunc) && g.pick("jump", 6) == 0 {
		// a scope left by a jump: a block that declares a name of the colliding pool, uses it and jumps out; what
		// follows the loop (or the call) sees the bindings that were visible before
		jump := bn.KwReturn + " " + g.u() + ";"
		cond := fmt.Sprint(g.pick("truth", 2))
		if len(g.loops) > 0 && (!inFunc || g.pick("loopJump", 3) != 0) {
			jump = []string{bn.KwBreak + ";", bn.KwContinue + ";"}[g.pick("which", 2)]
			if g.pick("onPass", 2) == 0 {
				cond = g.loops[len(g.loops)-1] + " == 1"
			}
		}
		v := c03Vars[g.pick("name", len(c03Vars))]
		w("%s (%s) {", bn.KwIf, cond)
		if g.pick("deeper", 2) == 0 {
			w("  {")
			w("    %s %s = %s;", bn.KwVar, v, g.u())
			w("    %s %s;", bn.KwPrint, v)
			w("    %s", jump)
			w("  }")
		} else {
			w("  %s %s = %s;", bn.KwVar, v, g.u())
			w("  %s %s;", bn.KwPrint, v)
			w("  %s", jump)
		}
		w("}")
		w("%s %s;", bn.KwPrint, g.nameFor(false))
		return
	}
	switch g.pick("stmt", choices) {
	case 0:
		n := g.nameFor(true)
		if g.pick("declareTwo", 4) == 0 {
			// one ধরি declaring two names
			n2 := c03Vars[(indexOf(c03Vars, n)+1+g.pick("second", len(c03Vars)-1))%len(c03Vars)]
			w("%s %s = %s, %s = %s;", bn.KwVar, n, g.u(), n2, g.u())
			g.scopes[len(g.scopes)-1][n] = true
			g.scopes[len(g.scopes)-1][n2] = true
			return
		}
		switch g.pick("initform", 6) {
		case 0:
			w("%s %s;", bn.KwVar, n) // declared without a value: holds nil
		case 1:
			w("%s %s = %s;", bn.KwVar, n, []string{"nil", bn.KwFalse, "0", "\"\""}[g.pick("falsy", 4)])
		default:
			w("%s %s = %s;", bn.KwVar, n, g.u())
		}
		g.scopes[len(g.scopes)-1][n] = true
	case 1:
		w("%s = %s;", g.nameFor(false), g.u())
	case 2:
		w("%s %s;", bn.KwPrint, g.nameFor(false))
	case 3:
		if len(g.dead) > 0 && g.pick("callDead", 5) == 0 {
			// a function whose declaring scope has ended: its name must be gone (or re-declarable)
			f := g.dead[g.pick("dead", len(g.dead))]
			if g.pick("redeclare", 2) == 0 {
				w("%s %s = %s;", bn.KwVar, f.name, g.u())
				w("%s %s;", bn.KwPrint, f.name)
			} else {
				args := make([]string, f.arity)
				for i := range args {
					args[i] = g.u()
				}
				w("%s %s(%s);", bn.KwPrint, f.name, strings.Join(args, ", "))
			}
			return
		}
		if len(g.funcs) > 0 {
			f := g.funcs[g.pick("fun", len(g.funcs))]
			args := make([]string, f.arity)
			for i := range args {
				args[i] = g.u()
			}
			w("%s %s(%s);", bn.KwPrint, f.name, strings.Join(args, ", "))
		} else {
			w("%s %s;", bn.KwPrint, g.nameFor(false))
		}
	case 4:
		w("{")
		g.block(ind+"  ", depth-1, inFunc, 1+g.pick("n", 3))
		w("}")
	case 5:
		w("%s (%d) {", bn.KwIf, g.pick("truth", 2))
		g.block(ind+"  ", depth-1, inFunc, 1+g.pick("n", 2))
		if g.pick("else", 2) == 0 {
			w("} %s {", bn.KwElse)
			g.block(ind+"  ", depth-1, inFunc, 1+g.pick("n", 2))
		}
		w("}")
	case 6:
		g.nLoop++
		cn := fmt.Sprintf("w%d", g.nLoop)
		w("%s %s = 0;", bn.KwVar, cn)
		w("%s (%s < 2) {", bn.KwWhile, cn)
		g.b.WriteString(ind + "  " + cn + " = " + cn + " + 1;\n")
		g.loops = append(g.loops, cn)
		g.block(ind+"  ", depth-1, inFunc, 1+g.pick("n", 3))
		g.loops = g.loops[:len(g.loops)-1]
		w("}")
		if g.jumps {
			w("%s %s;", bn.KwPrint, g.nameFor(false))
		}
	case 7:
		// for loop whose variable comes from the colliding pool
		v := c03Vars[g.pick("name", len(c03Vars))]
		g.push() // the for statement's own scope
		g.scopes[len(g.scopes)-1][v] = true
		if g.pick("twoHeaderVars", 3) == 0 {
			// a header declaring two variables from the colliding pool
			v2 := c03Vars[(g.pick("name2", len(c03Vars)-1)+1+indexOf(c03Vars, v))%len(c03Vars)]
			g.scopes[len(g.scopes)-1][v2] = true
			w("%s (%s %s = 0, %s = %s; %s < 2; %s = %s + 1) {", bn.KwFor, bn.KwVar, v, v2, g.u(), v, v, v)
			g.b.WriteString(ind + "  " + bn.KwPrint + " " + v2 + ";\n")
			g.loops = append(g.loops, v)
			g.block(ind+"  ", depth-1, inFunc, 1+g.pick("n", 2))
			g.loops = g.loops[:len(g.loops)-1]
			w("}")
			g.pop()
			return
		}
		if g.pick("braced", 3) == 0 {
			w("%s (%s %s = 0; %s < 2; %s = %s + 1)", bn.KwFor, bn.KwVar, v, v, v, v)
			w("  %s %s;", bn.KwPrint, g.nameFor(false))
		} else {
			w("%s (%s %s = 0; %s < 2; %s = %s + 1) {", bn.KwFor, bn.KwVar, v, v, v, v)
			g.loops = append(g.loops, v)
			g.block(ind+"  ", depth-1, inFunc, 1+g.pick("n", 3))
			g.loops = g.loops[:len(g.loops)-1]
			w("}")
		}
		g.pop()
	case 8:
		g.nFun++
		name := fmt.Sprintf("f%d", g.nFun)
		collides := false
		if g.jumps && !g.scopes[len(g.scopes)-1]["input"] && g.pick("fnNamedInput", 6) == 0 {
			// "input" is an ordinary name (the built-in is spelled in Bangla)
			name, collides = "input", true
		} else if g.pick("fnNamedLikeVariable", 4) == 1 {
			// a function named like a variable of the colliding pool: it shadows an outer binding of any kind
			// (declaring it where the name is already bound in the same scope is left out: undocumented)
			if v := c03Vars[g.pick("name", len(c03Vars))]; !g.scopes[len(g.scopes)-1][v] {
				name, collides = v, true
			}
		}
		arity := g.pick("arity", 3)
		params := []string{}
		for i := 0; i < arity; i++ {
			p := c03Vars[(g.pick("param", len(c03Vars))+i)%len(c03Vars)]
			dup := false
			for _, q := range params {
				if q == p {
					dup = true
				}
			}
			if !dup {
				params = append(params, p)
			}
		}
		w("%s %s(%s) {", bn.KwFun, name, strings.Join(params, ", "))
		g.push()
		for _, p := range params {
			g.scopes[len(g.scopes)-1][p] = true
		}
		savedFuncs := len(g.funcs)
		savedLoops := g.loops
		g.loops = nil
		n := 1 + g.pick("n", 3)
		for i := 0; i < n; i++ {
			g.stmt(ind+"  ", depth-1, true)
		}
		g.loops = savedLoops
		if g.pick("ret", 2) == 0 {
			g.b.WriteString(ind + "  " + bn.KwReturn + " " + g.nameFor(false) + ";\n")
		}
		g.funcs = g.funcs[:savedFuncs]
		g.pop()
		w("}")
		if collides {
			g.scopes[len(g.scopes)-1][name] = true
			args := []string{}
			for i := 0; i < len(params); i++ {
				args = append(args, g.u())
			}
			w("%s %s(%s);", bn.KwPrint, name, strings.Join(args, ", "))
			return
		}
		g.funcs = append(g.funcs, c03Fun{name, len(params), len(g.scopes)})
	case 9:
		// a closure escaping the block that declared its variable
		g.nFun++
		name := fmt.Sprintf("f%d", g.nFun)
		holder := fmt.Sprintf("k%d", g.nFun)
		v := c03Vars[g.pick("name", len(c03Vars))]
		w("%s %s;", bn.KwVar, holder)
		w("{")
		w("  %s %s = %s;", bn.KwVar, v, g.u())
		w("  %s %s() { %s %s; %s = %s + 1; %s %s; }", bn.KwFun, name, bn.KwPrint, v, v, v, bn.KwReturn, v)
		w("  %s = %s;", holder, name)
		w("  %s = %s;", v, g.u())
		w("}")
		w("%s %s();", bn.KwPrint, holder)
		w("%s %s();", bn.KwPrint, holder)
	default:
		// callee must not see the caller's locals
		g.nFun++
		name := fmt.Sprintf("f%d", g.nFun)
		v := c03Vars[g.pick("name", len(c03Vars))]
		w("%s %s() { %s %s; }", bn.KwFun, name, bn.KwPrint, v)
		w("{")
		w("  %s %s = %s;", bn.KwVar, v, g.u())
		w("  %s();", name)
		w("}")
	}
}

func (g *c03Gen) program(depth, nTop int) string {
	g.push()
	// some globals so that most uses resolve
	for i, v := range c03Vars {
		if g.pick("global", 3) != 0 {
			g.b.WriteString(fmt.Sprintf("%s %s = %d;\n", bn.KwVar, v, 10+i))
			g.scopes[0][v] = true
		}
	}
	for i := 0; i < nTop; i++ {
		g.stmt("", depth, false)
	}
	for _, v := range c03Vars {
		if g.scopes[0][v] {
			g.b.WriteString(bn.KwPrint + " " + v + ";\n")
		}
	}
	return g.b.String()
}

func (c *Ctx) c03Program(s *Sub, sub, src string) {
	mc := c.runModelCase(s, src, "", model.Options{MaxSteps: 30000, Resolver: true}, judgeOpts{checkLine: true, checkKind: true})
	if mc.Res.Outcome == model.OverBudget {
		return
	}
	if mc.Res.Outcome == model.Unspecified && strings.Contains(mc.Res.Why, "static and dynamic") {
		c.Ev.Discard("static-vs-dynamic-resolution-differs")
	}
	nt := mc.Res.Tags["shadowed-use"] > 0 || mc.Res.ErrKind == model.EUndefined || mc.Res.ErrKind == model.ERedeclare
	labels := []string{"outcome-" + mc.Res.Outcome.String()}
	if mc.Res.Tags["shadowed-use"] > 0 {
		labels = append(labels, "shadowed-use")
	}
	if mc.Res.Outcome == model.RuntimeError {
		labels = append(labels, "error-"+mc.Res.ErrKind)
	}
	if mc.Res.Tags["call"] > 0 {
		labels = append(labels, "calls-a-function")
	}
	c.Ev.Case(sub, src, nt, labels...)
	if mc.Sig != "" {
		s.Violation(mc.replay("scope"))
	}
}

var c03Small = map[string]int{"declareTwo": 2, "second": 1, "callDead": 2, "dead": 1, "redeclare": 2, "twoHeaderVars": 2, "name2": 1, "initform": 3, "falsy": 2, "name": 2, "bias": 2, "n": 1, "truth": 2, "else": 2, "braced": 2, "arity": 2, "param": 2, "ret": 2, "global": 2, "fun": 1}

func TestC03(t *testing.T) {
	Main(t, "C03", func(c *Ctx) {
		c.OnReplay("scope", func(s *Sub, rp *Replay) { c.c03Program(s, "replay", rp.Source) })
		c.ReplayTier()

		budget, maxLeaves := 2, int64(60000)
		if c.Thorough {
			budget, maxLeaves = 3, 1500000
		}
		// the outermost scope holds the built-in functions, and its bindings are bindings like any other: an assignment
		// to such a name, from the top level or from inside functions and blocks, updates the binding every later read
		// and call sees, and a parameter of that name shadows it
		c.Sub("builtin-names-assigned", func(s *Sub) {
			P, F, R := bn.KwPrint, bn.KwFun, bn.KwReturn
			var k int64
			for _, b := range bn.Builtins {
				forms := []string{
					b + " = 5;\n" + P + " " + b + ";\n" + P + " " + b + " + 1;\n",
					F + " set() { " + b + " = 7; " + R + " " + b + "; }\n" + P + " set();\n" + P + " " + b + ";\n",
					"{ { " + b + " = [1, 2]; } }\n" + P + " " + b + "[1];\n",
					F + " shadow(" + b + ") { " + b + " = 2; " + R + " " + b + "; }\n" + P + " shadow(1);\n" + P + " " + b + " == " + b + ";\n",
					F + " mk() { " + F + " inner() { " + b + " = \"s\"; } " + R + " inner; }\nmk()();\n" + P + " " + b + ";\n",
					b + " = " + b + ";\n" + P + " " + b + " == " + b + ";\n",
					bn.KwVar + " keep = " + b + ";\n" + b + " = nil;\n" + P + " " + b + ";\n" + b + " = keep;\n" + P + " " + b + " == keep;\n",
					b + " = 1;\n" + b + "();\n" + P + " \"not reached\";\n",
				}
				for _, f := range forms {
					k++
					if c.Mine(k) {
						c.c03Program(s, "builtin-names-assigned", P+" \"start\";\n"+f+P+" \"end\";\n")
					}
				}
			}
			c.Ev.MarkExhaustive(fmt.Sprintf("every built-in name (%d) x 8 ways of assigning to it and reading it back", len(bn.Builtins)))
		})
		c.Sub("enum-programs", func(s *Sub) {
			saved := map[string]int{}
			for k, v := range c03Small {
				if old, ok := smallArity[k]; ok {
					saved[k] = old
				} else {
					saved[k] = -1
				}
				smallArity[k] = v
			}
			defer func() {
				for k, v := range saved {
					if v < 0 {
						delete(smallArity, k)
					} else {
						smallArity[k] = v
					}
				}
			}()
			var src string
			var total int64
			complete := walkDecisions(maxLeaves, func(pick func(string, int) int) {
				g := &c03Gen{budget: budget, pick: pick}
				src = g.program(2, 2)
			}, func(k int64) {
				total = k
				if c.Mine(k) {
					c.c03Program(s, "enum-programs", src)
				}
			})
			if complete {
				c.Ev.MarkExhaustive(fmt.Sprintf("every program of two top-level statements (nesting <= 2, <= %d constructs) over the reduced decision alphabet: %d programs", budget, total))
			} else {
				c.Ev.Note(fmt.Sprintf("enum-programs: decision-tree walk stopped at %d programs (not exhaustive)", total))
			}
		})
		n := 3000
		if c.Thorough {
			n = 40000
		}
		// names that coincide: parameters named like a built-in, like the function itself, like a sibling
		// function or like a global; the activation's binding wins for reads, assignments, calls and captures,
		// and the outer binding is untouched afterwards
		c.Sub("scale", func(s *Sub) {
			if c.Shard != 0 {
				return
			}
			c.stepOverride = 40000000
			defer func() { c.stepOverride = 0 }()
			for _, n := range c.scaleSizes([]int{7, 8, 9, 10, 15, 16, 17, 31, 32, 33, 63, 64, 65, 127, 128, 129, 255, 256, 257, 1000, 5000}, []int{20000, 70000}) {
				c.c03Program(s, "scale", scaleNames(n))
				// the same inside a function activation (parameters count as names of that scope)
				c.c03Program(s, "scale", bn.KwFun+" big(p0, p1) {\n"+scaleNames(n)+"}\nbig(1, 2);\n")
			}
			for _, d := range c.scaleSizes([]int{100, 500}, []int{1000, 2000}) {
				c.c03Program(s, "scale", scaleScopes(d))
			}
		})
		c.Rapid("coinciding-names", n/4, func(rt *rapid.T, s *Sub) {
			c.c03Program(s, "coinciding-names", genCoincidingNames(rt))
		})
		c.Rapid("rand-programs", n, func(rt *rapid.T, s *Sub) {
			g := &c03Gen{budget: rapid.IntRange(4, 40).Draw(rt, "budget"), jumps: rapid.Bool().Draw(rt, "jumps")}
			g.pick = func(label string, n int) int { return rapid.IntRange(0, n-1).Draw(rt, label) }
			src := g.program(rapid.IntRange(1, 5).Draw(rt, "depth"), rapid.IntRange(2, 8).Draw(rt, "top"))
			c.c03Program(s, "rand-programs", place(src, drawPlacement(rt)))
		})
	})
}
