package checks

import (
	"fmt"
	"strings"
	"testing"
	"time"

	"pgregory.net/rapid"

	"verifharness/bn"
	"verifharness/model"
)

// C14 — operands are evaluated once, left to right; logic short-circuits on
// truthiness.

type c14Val struct {
	text   string
	truthy bool
}

var c14Vals = []c14Val{
	{"nil", false}, {bn.KwFalse, false}, {bn.KwTrue, true}, {"0", false}, {"(-0)", false}, {"1", true}, {"((2 ** 1024) - (2 ** 1024))", true},
	{"\"\"", false}, {"\"x\"", true}, {"[]", true}, {"{}", true}, {"pf", true}, {bn.BLen, true}, {"(\"\" + \"\")", false}, {"2", true}, {"\"0\"", true}, {"[0]", true}, {"0.0", false}, {"0.5", true}, {"(-0.25)", true}, {"(2 ** 1024)", true}, {"0.000001", true},
	// nil however it comes about (appended: the positions above are referred to by number)
	{"bare()", false}, {"fell()", false}, {"unset", false},
}

var c14Few = []int{0, 3, 5, 8, 22} // nil, 0, 1, "x", the value of a call that ended in a bare return

const c14Prelude = "ফাংশন pf() { ফেরত 7; }\nফাংশন id2(a, b) { ফেরত b; }\nফাংশন id3(a, b, c) { ফেরত c; }\nধরি arr = [10, 20, 30];\nধরি obj = {k: 1};\nধরি x = 0;\n" + bn.KwFun + " bare() { " + bn.KwReturn + "; }\n" + bn.KwFun + " fell() { }\n" + bn.KwVar + " unset;\n"

func c14Probe(k int, v c14Val) string {
	return fmt.Sprintf("%s t%d() { %s \"t%d\"; %s %s; }\n", bn.KwFun, k, bn.KwPrint, k, bn.KwReturn, v.text)
}

func (c *Ctx) c14Program(s *Sub, sub, src string, nProbes int, enum bool, labels ...string) {
	mc := c.runModelCase(s, src, "", model.Options{MaxSteps: 20000}, judgeOpts{checkLine: true})
	if mc.Res.Outcome == model.OverBudget {
		return
	}
	nt := nProbes >= 2 || mc.Res.Tags["short-circuit"] > 0
	labels = append(labels, "outcome-"+mc.Res.Outcome.String())
	if mc.Res.Tags["short-circuit"] > 0 {
		labels = append(labels, "short-circuit")
	}
	if enum {
		c.Ev.EnumCase(sub, nt, func() string { return src }, labels...)
	} else {
		c.Ev.Case(sub, src, nt, labels...)
	}
	if mc.Sig != "" {
		s.Violation(mc.replay("order"))
	}
}

func TestC14(t *testing.T) {
	Main(t, "C14", func(c *Ctx) {
		c.OnReplay("order", func(s *Sub, rp *Replay) {
			if rp.Stdin == "" {
				c.c14Program(s, "replay", rp.Source, 2, false)
				return
			}
			mc := c.runModelCase(s, rp.Source, rp.Stdin, model.Options{MaxSteps: 20000}, judgeOpts{checkLine: true})
			if mc.Sig != "" {
				s.Violation(mc.replay("order"))
			}
		})
		c.ReplayTier()
		P := bn.KwPrint

		c.Sub("binary-contexts", func(s *Sub) {
			var k int64
			ops := append(append([]string{}, bn.BinOpList...), bn.KwOr, "||", bn.KwAnd, "&&")
			for _, op := range ops {
				for i, l := range c14Vals {
					for j, r := range c14Vals {
						k++
						if !c.Mine(k) {
							continue
						}
						_ = i
						_ = j
						src := c14Prelude + c14Probe(1, l) + c14Probe(2, r) + P + " t1() " + op + " t2();\n" + P + " \"end\";\n"
						c.c14Program(s, "binary-contexts", src, 2, true, "ctx-binary "+op)
					}
				}
			}
			c.Ev.MarkExhaustive(fmt.Sprintf("every binary and logical operator spelling (%d) x every ordered pair of %d probe values", len(ops), len(c14Vals)))
		})
		c.Sub("truthiness-contexts", func(s *Sub) {
			if c.Shard != 0 {
				return
			}
			for _, v := range c14Vals {
				ctxs := []string{
					bn.KwIf + " (t1()) " + P + " \"then\"; " + bn.KwElse + " " + P + " \"else\";\n",
					P + " !t1();\n", P + " !!t1();\n",
					bn.KwWhile + " (t1()) { " + P + " \"body\"; " + bn.KwBreak + "; }\n",
					bn.KwFor + " (; t1();) { " + P + " \"body\"; " + bn.KwBreak + "; }\n",
					bn.KwIf + " (t1() " + bn.KwOr + " " + bn.KwFalse + ") " + P + " \"then\"; " + bn.KwElse + " " + P + " \"else\";\n",
					bn.KwIf + " (t1() " + bn.KwAnd + " " + bn.KwTrue + ") " + P + " \"then\"; " + bn.KwElse + " " + P + " \"else\";\n",
					bn.KwIf + " (!t1()) " + P + " \"then\"; " + bn.KwElse + " " + P + " \"else\";\n",
				}
				for _, cx := range ctxs {
					src := c14Prelude + c14Probe(1, v) + cx + P + " \"end\";\n"
					c.c14Program(s, "truthiness-contexts", src, 1, true, "ctx-truthiness")
				}
			}
			c.Ev.MarkExhaustive(fmt.Sprintf("every condition / ! / logical context x every one of %d probe values", len(c14Vals)))
		})
		c.Sub("n-ary-contexts", func(s *Sub) {
			// contexts with three probes over a 4-value subset
			ctx3 := []string{
				P + " [t1(), t2(), t3()];\n",
				P + " {a: t1(), b: t2(), c: t3()};\n",
				"x = {a: t1(), b: t2(), a: t3()};\n" + P + " x.b;\n",
				"x = {a: t1(), a: t2(), a: t3()};\n" + P + " \"built\";\n",
				P + " [{k: t1()}, [t2()], {k: [t3()]}];\n",
				// operations that fail once their operands have been evaluated: every operand still runs, in order, first
				P + " id2(t1(), t2(), t3());\n",
				P + " pf(t1(), t2());\n" + P + " t3();\n",
				P + " " + bn.BClock + "(t1(), t2());\n" + P + " t3();\n",
				"pf(t1());\n",
				// a repeated property name whose last initialiser is a plain literal: the earlier ones still run
				"x = {a: t1(), b: t2(), a: 7};\n" + P + " x.a;\n" + P + " t3();\n",
				"x = {a: t1(), a: \"s\", b: t2(), a: nil};\n" + P + " x.b;\n",
				"x = {k: (obj.k = t1()), m: 1, k: 2};\n" + P + " obj.k;\n" + P + " x.k;\n",
				P + " id3(t1(), t2());\n" + P + " t3();\n",
				P + " 5(t1(), t2(), t3());\n",
				P + " t1()(t2(), t3());\n",
				P + " " + bn.BLen + "(t1(), t2());\n" + P + " t3();\n",
				P + " " + bn.BPush + "(t1());\n" + P + " t2();\n",
				P + " " + bn.BAbs + "(t1(), t2(), t3());\n",
				// the assigned value before the store, also when the store cannot be made: the name is declared nowhere
				"zz = t1();\n" + P + " t2();\n",
				P + " [t1(), zz = t2(), t3()];\n",
				"x = zz = t1() + t2();\n" + P + " t3();\n",
				"zz = (x = t1()) " + bn.KwOr + " t2();\n" + P + " x;\n",
				"{ " + bn.KwVar + " inner = 1; }\ninner = t1();\n" + P + " t2();\n",
				"(t1()).k = t2();\n" + P + " t3();\n",
				"nil.k = t1();\n" + P + " t2();\n",
				"(t1())[t2()] = t3();\n",
				P + " (t1())[t2()];\n" + P + " t3();\n",
				P + " (t1()).k;\n" + P + " t2();\n",
				"obj.k = id2(t1());\n" + P + " t2();\n",
				"x = {p: t1(), q: t2(), r: t3()};\n" + P + " x.p;\n" + P + " x.r;\n",
				P + " id3(t1(), t2(), t3());\n",
				bn.KwVar + " va = t1(), vb = t2(), vc = t3();\n" + P + " vc;\n",
				"arr[t1()] = t2();\n" + P + " arr;\n",
				P + " arr[t1()];\n" + P + " t2();\n" + P + " t3();\n",
				"obj.k = t1();\n" + P + " obj.k;\n" + P + " t2() + t3();\n",
				P + " t1() + t2() * t3();\n",
				// runs of operators of one level: each operator is applied as soon as its two operands are there, so a
				// failing application keeps the operands behind it from running
				P + " t1() - t2() + t3();\n",
				P + " t1() * t2() / t3();\n",
				P + " t1() << t2() >> t3();\n",
				P + " t1() < t2() < t3();\n",
				P + " t1() & t2() & t3();\n",
				P + " t1() | t2() | t3();\n",
				P + " t1() ** t2() ** t3();\n",
				P + " t1() % t2() * t3() + pf();\n",
				P + " t1() - t2() - t3() - id2(1, t1());\n",
				P + " (t1() " + bn.KwOr + " t2()) " + bn.KwAnd + " t3();\n",
				P + " t1() " + bn.KwOr + " t2() " + bn.KwAnd + " t3();\n",
				P + " t1() == t2() == t3();\n",
				P + " -t1() - -t2();\n" + P + " t3();\n",
				P + " id2(t1(), id2(t2(), t3()));\n",
				"x = t1();\n" + P + " x;\n" + "x = (x = t2()) " + bn.KwOr + " t3();\n" + P + " x;\n",
			}
			var k int64
			for _, cx := range ctx3 {
				for _, a := range c14Few {
					for _, b := range c14Few {
						for _, d := range c14Few {
							k++
							if !c.Mine(k) {
								continue
							}
							src := c14Prelude + c14Probe(1, c14Vals[a]) + c14Probe(2, c14Vals[b]) + c14Probe(3, c14Vals[d]) + cx + P + " \"end\";\n"
							c.c14Program(s, "n-ary-contexts", src, 3, true, "ctx-n-ary")
						}
					}
				}
			}
			// probes producing containers: array/index/value and object/value order in stores, callee before arguments
			special := []string{
				"ফাংশন ta() { দেখাও \"ta\"; ফেরত arr; }\n" + c14Probe(1, c14Vals[5]) + c14Probe(2, c14Vals[14]) + "ta()[t1()] = t2();\n" + P + " arr;\n",
				"ফাংশন ta() { দেখাও \"ta\"; ফেরত arr; }\n" + c14Probe(1, c14Vals[5]) + P + " ta()[t1()];\n",
				"ফাংশন to() { দেখাও \"to\"; ফেরত obj; }\n" + c14Probe(1, c14Vals[5]) + "to().k = t1();\n" + P + " obj;\n",
				"ফাংশন to() { দেখাও \"to\"; ফেরত obj; }\n" + P + " to().k;\n",
				"ফাংশন tf() { দেখাও \"tf\"; ফেরত id2; }\n" + c14Probe(1, c14Vals[5]) + c14Probe(2, c14Vals[14]) + P + " tf()(t1(), t2());\n",
				"ফাংশন tf() { দেখাও \"tf\"; ফেরত tf; }\n" + P + " tf()()() == tf;\n",
				c14Probe(1, c14Vals[5]) + P + " (x = t1()) + (x = x + 10) + x;\n" + P + " x;\n",
				c14Probe(1, c14Vals[5]) + "x = 5;\n" + P + " x + (x = 1) + x;\n",
				c14Probe(1, c14Vals[5]) + "arr[0] = arr[1] = t1();\n" + P + " arr;\n",
				c14Probe(1, c14Vals[5]) + c14Probe(2, c14Vals[14]) + P + " " + bn.BPush + "(arr, t1(), t2());\n" + P + " " + bn.BMax + "(t2(), t1());\n" + P + " " + bn.BPow + "(t2(), t1());\n",
			}
			if c.Shard == 0 {
				for _, sp := range special {
					c.c14Program(s, "n-ary-contexts", c14Prelude+sp+P+" \"end\";\n", 3, true, "ctx-special")
				}
			}
			c.Ev.MarkExhaustive(fmt.Sprintf("%d three-probe contexts x every triple over 4 probe values, and %d store/callee/assignment-order contexts", len(ctx3), len(special)))
		})
		n := 2000
		if c.Thorough {
			n = 30000
		}
		// chains of subscripts and property selections whose later parts change what the earlier parts have
		// already read: each bracket is applied before the next subscript expression runs, a failing access
		// stops the rest, and stores through chains hit the container that was read
		c.Rapid("selector-chains", n, func(rt *rapid.T, s *Sub) {
			V, F, R := bn.KwVar, bn.KwFun, bn.KwReturn
			var b strings.Builder
			b.WriteString(V + " grid = [[1, 2], [3, 4]];\n" + V + " cube = [[[5, 6], [7, 8]], [[9, 10], [11, 12]]];\n" + V + " tree = {a: [13, 14], b: {c: [15, 16]}, rows: [[17, 18], [19, 20]]};\n" + V + " x = 0;\n")
			b.WriteString(F + " p(t, v) { " + P + " t; " + R + " v; }\n")
			b.WriteString(F + " swap(v) { " + P + " \"swap\"; grid[0] = [100, 200]; grid[1] = [300, 400]; " + R + " v; }\n")
			b.WriteString(F + " cut(v) { " + P + " \"cut\"; cube[0] = [[500, 600], [700, 800]]; cube[1][0] = [900, 1000]; " + R + " v; }\n")
			b.WriteString(F + " regrow(v) { " + P + " \"regrow\"; tree.a = [1300, 1400]; tree.b = {c: [1500, 1600]}; tree.rows[0] = [1700, 1800]; tree.rows = [tree.rows[1], tree.rows[0]]; " + R + " v; }\n")
			b.WriteString(F + " whole() { " + P + " \"whole\"; grid = [[-1, -2], [-3, -4]]; cube = [grid, grid]; " + R + " 1; }\n")
			b.WriteString(F + " gg() { " + P + " \"gg\"; " + R + " grid; }\n" + F + " tt() { " + P + " \"tt\"; " + R + " tree; }\n")
			tags := 0
			idx := func() string {
				tags++
				switch rapid.IntRange(0, 11).Draw(rt, "idx") {
				case 0, 1:
					return fmt.Sprint(rapid.IntRange(0, 1).Draw(rt, "k"))
				case 2, 3:
					return fmt.Sprintf("p(\"i%d\", %d)", tags, rapid.IntRange(0, 1).Draw(rt, "k"))
				case 4:
					return fmt.Sprintf("swap(%d)", rapid.IntRange(0, 1).Draw(rt, "k"))
				case 5:
					return fmt.Sprintf("cut(%d)", rapid.IntRange(0, 1).Draw(rt, "k"))
				case 6:
					return fmt.Sprintf("regrow(%d)", rapid.IntRange(0, 1).Draw(rt, "k"))
				case 7:
					return "whole()"
				case 8:
					return "(x = x + 1)"
				case 9:
					return "x"
				case 10:
					return fmt.Sprintf("p(\"bad%d\", %s)", tags, rapid.SampledFrom([]string{"5", "-1", "\"s\"", "nil", "0.5", "[0]"}).Draw(rt, "bad"))
				default:
					return "grid[" + fmt.Sprint(rapid.IntRange(0, 1).Draw(rt, "k")) + "][0] - grid[" + fmt.Sprint(rapid.IntRange(0, 1).Draw(rt, "k2")) + "][0]"
				}
			}
			chain := func() string {
				base := rapid.SampledFrom([]string{"grid", "grid", "cube", "cube", "tree.a", "tree.b.c", "tree.rows", "gg()", "tt().rows", "tt().b.c", "([[21, 22], [23, 24]])", "([grid[0], grid[1]])", "({k: grid}).k"}).Draw(rt, "base")
				levels := 2
				switch {
				case strings.HasPrefix(base, "cube"):
					levels = 3
				case base == "tree.a" || strings.HasSuffix(base, ".c"):
					levels = 1
				}
				levels = rapid.IntRange(1, levels).Draw(rt, "levels")
				for i := 0; i < levels; i++ {
					base += "[" + idx() + "]"
				}
				return base
			}
			ns := rapid.IntRange(1, 4).Draw(rt, "statements")
			for i := 0; i < ns; i++ {
				switch rapid.IntRange(0, 6).Draw(rt, "use") {
				case 0, 1:
					b.WriteString(P + " " + chain() + ";\n")
				case 2:
					b.WriteString(P + " [" + chain() + ", " + chain() + "];\n")
				case 3:
					b.WriteString(P + " id2(" + chain() + ", " + chain() + ");\n")
				case 4:
					b.WriteString(chain() + " = " + rapid.SampledFrom([]string{"77", "p(\"val\", 78)", "swap(79)", "cut(80)"}).Draw(rt, "val") + ";\n")
				case 5:
					b.WriteString(P + " " + chain() + " + " + chain() + ";\n")
				default:
					b.WriteString("x = " + chain() + ";\n" + P + " x;\nx = 0;\n")
				}
				b.WriteString(P + " [grid, cube, tree.a, tree.b.c, tree.rows, x];\n")
			}
			b.WriteString(P + " \"end\";\n")
			c.c14Program(s, "selector-chains", place(c14Prelude[:strings.Index(c14Prelude, bn.KwVar+" x")]+b.String(), drawPlacement(rt)), 3, false, "selector-chains")
		})
		// a prompt written by ইনপুট is a side effect like a printed tag: it appears where reading order puts it among
		// the prints of the other operands, and each call takes the next line
		c.Sub("prompt-probes", func(s *Sub) {
			I := func(k int) string { return fmt.Sprintf("%s(\"p%d> \")", bn.BInput, k) }
			ctxs := []string{
				P + " t1() + " + I(2) + ";\n",
				P + " " + I(1) + " + t2();\n",
				P + " [t1(), " + I(2) + ", t3()];\n",
				P + " {a: " + I(1) + ", b: t2(), c: " + I(3) + "};\n",
				P + " " + I(1) + " " + bn.KwOr + " t2();\n",
				P + " t1() " + bn.KwAnd + " " + I(2) + ";\n",
				P + " id3(t1(), " + I(2) + ", t3());\n",
				P + " id2(" + I(1) + ", " + I(2) + ");\n",
				"x = " + I(1) + ";\n" + P + " t2();\n" + P + " x;\n",
				P + " \"shown first\";\n" + P + " " + I(1) + ";\n",
				P + " t1();\n" + P + " " + I(2) + " + \"|\" + " + I(3) + ";\n",
				bn.KwFor + " (" + bn.KwVar + " i = 0; i < 2; i = i + 1) { " + P + " t1(); " + P + " " + I(2) + "; }\n",
				"arr[t1()] = " + I(2) + ";\n" + P + " arr;\n",
				P + " " + bn.BLen + "([t1(), " + I(2) + "]);\n",
			}
			var k int64
			for _, cx := range ctxs {
				for _, a := range []int{0, 3, 5, 8} {
					k++
					if !c.Mine(k) {
						continue
					}
					src := c14Prelude + c14Probe(1, c14Vals[a]) + c14Probe(2, c14Vals[5]) + c14Probe(3, c14Vals[8]) + cx + P + " \"end\";\n"
					mc := c.runModelCase(s, src, "one\n two \nthree\nfour\n", model.Options{MaxSteps: 20000}, judgeOpts{checkLine: true})
					if mc.Res.Outcome == model.OverBudget {
						continue
					}
					c.Ev.EnumCase("prompt-probes", true, func() string { return src }, "ctx-prompt", "outcome-"+mc.Res.Outcome.String())
					if mc.Sig != "" {
						s.Violation(mc.replay("order"))
					}
					// and through the executable with its output in a pipe
					if k%3 == 0 && mc.Res.Outcome != model.Unspecified {
						cr := c.CLIScript(src, "one\n two \nthree\nfour\n", 30*time.Second)
						if ok, why := model.CompareStdout(mc.Res, cr.Stdout); !ok {
							s.Violation(Replay{Check: "order", Sig: "prompt-order-cli", Source: src, Stdin: "one\n two \nthree\nfour\n", Note: "through the executable: " + why, Observed: fmt.Sprintf("status=%d stdout=%q", cr.Status, clip(cr.Stdout, 400))})
						}
					}
				}
			}
			c.Ev.MarkExhaustive(fmt.Sprintf("%d contexts mixing printed tags and input prompts x 4 probe values", len(ctxs)))
		})
		c.Rapid("rand-nested", n, func(rt *rapid.T, s *Sub) {
			np := rapid.IntRange(2, 8).Draw(rt, "probes")
			var b strings.Builder
			b.WriteString(c14Prelude)
			for i := 1; i <= np; i++ {
				b.WriteString(c14Probe(i, rapid.SampledFrom(c14Vals).Draw(rt, "v")))
			}
			b.WriteString("ফাংশন bump() { x = x + 10; ফেরত 1; }\nফাংশন setx(v) { x = v; ফেরত v; }\nধরি yy = 5;\nফাংশন both() { x = x * 2; yy = yy + 1; ফেরত yy; }\n")
			next := 0
			var gen func(d int) string
			gen = func(d int) string {
				if d <= 0 || next >= np-1 && rapid.Bool().Draw(rt, "stop") {
					next++
					if next > np || rapid.IntRange(0, 3).Draw(rt, "stateful") == 0 {
						// bare reads of variables next to calls and assignments that change them
						return rapid.SampledFrom([]string{"1", "0", "\"s\"", "nil", "x", "x", "yy", "bump()", "setx(3)", "both()", "(x = x + 1)", "(yy = x)"}).Draw(rt, "lit")
					}
					return fmt.Sprintf("t%d()", next)
				}
				switch rapid.IntRange(0, 7).Draw(rt, "form") {
				case 0:
					return "(" + gen(d-1) + " " + rapid.SampledFrom(bn.BinOpList).Draw(rt, "op") + " " + gen(d-1) + ")"
				case 1:
					return "(" + gen(d-1) + " " + rapid.SampledFrom([]string{bn.KwOr, "||", bn.KwAnd, "&&"}).Draw(rt, "lop") + " " + gen(d-1) + ")"
				case 2:
					return "[" + gen(d-1) + ", " + gen(d-1) + "]"
				case 3:
					return "id2(" + gen(d-1) + ", " + gen(d-1) + ")"
				case 4:
					return "(" + rapid.SampledFrom(bn.UnOps).Draw(rt, "uop") + gen(d-1) + ")"
				case 5:
					return "{a: " + gen(d-1) + ", b: " + gen(d-1) + "}"
				case 6:
					return "(x = " + gen(d-1) + ")"
				default:
					return "arr[" + gen(d-1) + "]"
				}
			}
			e := gen(rapid.IntRange(1, 4).Draw(rt, "depth"))
			b.WriteString(P + " " + e + ";\n" + P + " [x, yy];\n" + P + " \"end\";\n")
			pl := drawPlacement(rt)
			c.c14Program(s, "rand-nested", place(b.String(), pl), np, false, "ctx-random", "placed-"+placementNames[pl])
		})
	})
}
