package checks

import (
	"fmt"
	"os"
	"path/filepath"
	"regexp"
	"strconv"
	"strings"
	"syscall"
	"testing"
	"time"

	"pgregory.net/rapid"

	"verifharness/bn"
	"verifharness/model"
	"verifharness/reflex"
	"verifharness/refparse"
	"verifharness/run"
)

// C19 — exit status and output streams classify every run correctly (real CLI only).

const c19Marker = "দেখাও \"SCRIPT-RAN\";\n"

// fifoWorksHere: a writer and a reader opened on a fresh named pipe meet and pass a few bytes within two seconds
// (a harness self-test, so that an odd scratch file system cannot look like a defect of the interpreter).
func fifoWorksHere(path string) bool {
	os.Remove(path)
	if syscall.Mkfifo(path, 0o644) != nil {
		return false
	}
	defer os.Remove(path)
	got := make(chan string, 1)
	go func() {
		f, err := os.OpenFile(path, os.O_WRONLY, 0)
		if err != nil {
			return
		}
		f.WriteString("ping")
		f.Close()
	}()
	go func() {
		b, err := os.ReadFile(path)
		if err == nil {
			got <- string(b)
		}
	}()
	select {
	case v := <-got:
		return v == "ping"
	case <-time.After(2 * time.Second):
		// release whichever side is still waiting
		if rf, err := os.OpenFile(path, os.O_RDWR|syscall.O_NONBLOCK, 0); err == nil {
			rf.Close()
		}
		return false
	}
}

var diagLineRe = regexp.MustCompile(`\[line (\d+)\]`)

func (c *Ctx) c19Run(args []string, stdin string) run.CLIResult {
	c.Ev.CLICross++
	return run.CLI(c.Bin, args, stdin, c.CLIDir(), 20*time.Second)
}

// c19Script runs a script file through the CLI and compares status, stdout and
// stderr with the reference front end + model.
func (c *Ctx) c19Script(s *Sub, sub, src, stdin string, labels ...string) {
	ref := reflex.Lex([]rune(src))
	rp := refparse.Parse(ref.Toks)
	if rp.OODVarBreak || rp.OODTrailingComma {
		c.Ev.Discard("out-of-domain")
		return
	}
	p := filepath.Join(c.CLIDir(), "s.bn")
	if err := os.WriteFile(p, []byte(src), 0o644); err != nil {
		s.Harness("%v", err)
	}
	cr := c.c19Run([]string{p}, stdin)
	fail := func(sig, msg, exp string) {
		s.Violation(Replay{Check: "script", Sig: sig, Source: src, Stdin: stdin, Note: msg, Expected: exp,
			Observed: fmt.Sprintf("status=%d timedOut=%v stdout=%q stderr=%q", cr.Status, cr.TimedOut, clip(cr.Stdout, 500), clip(cr.Stderr, 300))})
	}
	if len(ref.Diags) > 0 || !rp.OK {
		cls := "syntax-error"
		if len(ref.Diags) > 0 {
			cls = "lexical-error"
		}
		c.Ev.Case(sub, src+"\x00"+stdin, true, append(labels, cls)...)
		if cr.Status != 65 {
			fail("status-65", "a text with a lexical or syntax error must exit 65", "65")
		}
		if cr.Stdout != "" {
			fail("stdout-rejected", "a rejected text must leave stdout empty (diagnostics go to stderr, nothing runs)", "")
		}
		if strings.TrimSpace(cr.Stderr) == "" {
			fail("stderr-rejected", "a rejected text must produce a diagnostic on stderr", "")
		}
		// the line a diagnostic names lies within the text as the file holds it (the end of input is on line 1 + the
		// number of line breaks)
		if m := diagLineRe.FindStringSubmatch(cr.Stderr); m != nil {
			if n, _ := strconv.Atoi(m[1]); n < 1 || n > 1+strings.Count(src, "\n") {
				fail("diagnostic-line-outside-text", fmt.Sprintf("the first diagnostic names line %d, the text has %d line breaks", n, strings.Count(src, "\n")), "")
			}
		}
		return
	}
	opt := model.Options{MaxSteps: 30000}
	if stdin != "" {
		lines := strings.Split(stdin, "\n")
		if strings.HasSuffix(stdin, "\n") {
			lines = lines[:len(lines)-1]
		}
		opt.Stdin = lines
	}
	res := model.Run(rp.Prog, opt)
	if res.Outcome == model.OverBudget {
		c.Ev.Discard("model-over-budget")
		return
	}
	c.Ev.Case(sub, src+"\x00"+stdin, res.Outcome != model.OK || res.InputUsed > 0, append(labels, "outcome-"+res.Outcome.String())...)
	if cr.TimedOut {
		fail("timeout", "the process did not finish within 20 s", model.ExpectedText(res))
	}
	if cr.Status != 0 && cr.Status != 65 && cr.Status != 70 {
		fail("status-abnormal", "unexpected exit status", model.ExpectedText(res))
	}
	if ok, why := model.CompareStdout(res, cr.Stdout); !ok {
		fail("stdout", why, model.ExpectedText(res))
	}
	switch res.Outcome {
	case model.OK:
		if cr.Status != 0 || cr.Stderr != "" {
			fail("status-0", "a run without any error must exit 0 with empty stderr", model.ExpectedText(res))
		}
	case model.RuntimeError:
		if cr.Status != 70 {
			fail("status-70", "a valid program that hits a runtime error must exit 70", model.ExpectedText(res))
		}
		if strings.TrimSpace(cr.Stderr) == "" {
			fail("stderr-runtime", "a runtime error must be reported on stderr", model.ExpectedText(res))
		}
	}
}

func TestC19(t *testing.T) {
	Main(t, "C19", func(c *Ctx) {
		c.OnReplay("script", func(s *Sub, rp *Replay) { c.c19Script(s, "replay", rp.Source, rp.Stdin) })
		c.ReplayTier()
		P := bn.KwPrint

		cmdLines := func(s *Sub) {
			dir := c.CLIDir()
			write := func(name string) string {
				p := filepath.Join(dir, name)
				os.MkdirAll(filepath.Dir(p), 0o755)
				os.WriteFile(p, []byte(c19Marker), 0o644)
				return p
			}
			good := write("ok.bn")
			chk := func(name string, args []string, wantStatus func(int) bool, wantRan bool, why string) {
				cr := c.c19Run(args, "")
				c.Ev.Case("command-lines", strings.Join(args, " "), true, "cmdline")
				ran := strings.Contains(cr.Stdout, "SCRIPT-RAN")
				if !wantStatus(cr.Status) || ran != wantRan || (!wantRan && cr.Stdout+cr.Stderr == "") {
					s.Violation(Replay{Check: "cmdline", Sig: "cmdline-" + name, Source: strings.Join(args, " "), Note: why,
						Observed: fmt.Sprintf("status=%d stdout=%q stderr=%q", cr.Status, clip(cr.Stdout, 200), clip(cr.Stderr, 200))})
				}
			}
			is := func(n int) func(int) bool { return func(s int) bool { return s == n } }
			nonzero := func(s int) bool { return s != 0 }
			chk("run", []string{good}, is(0), true, "a .bn script must run and exit 0")
			chk("two-args", []string{good, good}, is(64), false, "more than one argument must exit 64 with a message and run nothing")
			chk("three-args", []string{good, "x", "y"}, is(64), false, "more than one argument must exit 64 with a message and run nothing")
			chk("two-args-second-bad", []string{good, "nonexistent.bn"}, is(64), false, "more than one argument must exit 64")
			for _, name := range []string{"x.BN", "x.txt", "x", "x.bn.txt", "x.bnx", "x.b", "xbn", "x.bn ", "x.Bn", "bn", "x..bn2"} {
				chk("ext-"+name, []string{write(name)}, is(64), false, "a script name not ending in .bn must exit 64 with a message and run nothing")
			}
			for _, name := range []string{".bn", "a b.bn", "স্ক্রিপ্ট.bn", "x.y.bn", "x.txt.bn", "sub dir/z.bn"} {
				chk("name-"+name, []string{write(name)}, is(0), true, "a script whose name ends in .bn must run")
			}
			// arguments are taken as they are: nothing is an option, nothing is swallowed (relative names; the
			// executable runs in the scratch directory)
			write("-dash.bn")
			write("--.bn")
			chk("dash-name", []string{"-dash.bn"}, is(0), true, "a script whose name begins with a dash and ends in .bn must run")
			chk("dashdash-name", []string{"--.bn"}, is(0), true, "a script named --.bn must run")
			chk("relative-name", []string{"ok.bn"}, is(0), true, "a relative script name must run")
			for _, a := range []string{"--", "-", "-h", "--help", "-x", "-version", "--version", "-bn", ""} {
				chk("lone-"+a, []string{a}, is(64), false, "a single argument not ending in .bn must exit 64 with a message and run nothing")
			}
			for _, args := range [][]string{{"--", "ok.bn"}, {"ok.bn", "--"}, {"-v", "ok.bn"}, {"-", "ok.bn"}, {"--help", "ok.bn"}, {"", "ok.bn"}, {"ok.bn", ""}, {"--", "--"}} {
				chk("pair-"+strings.Join(args, "+"), args, is(64), false, "two arguments must exit 64 with a message and run nothing, whatever they look like")
			}
			// every way in which reading the script can fail: a message, a non-zero status, nothing run
			write("plain.bn")
			os.Symlink("loop.bn", filepath.Join(dir, "loop.bn"))
			os.Symlink("nowhere.bn", filepath.Join(dir, "dangling.bn"))
			os.Symlink("ok.bn", filepath.Join(dir, "link.bn"))
			// a path is taken as the operating system takes it: ".." after a component that is missing, that is a plain
			// file, or that is a link elsewhere does not lead back to the script
			os.MkdirAll(filepath.Join(dir, "elsewhere", "deep"), 0o755)
			os.Symlink(filepath.Join("elsewhere", "deep"), filepath.Join(dir, "linkdir"))
			for _, a := range []string{"nodir/../ok.bn", "plain.bn/../ok.bn", "linkdir/../ok.bn", "nodir/../../" + filepath.Base(dir) + "/ok.bn", "./nodir/./../ok.bn", "ok.bn/../ok.bn", "ok.bn/.", "nodir//..//ok.bn"} {
				chk("dotdot-"+a[:min(len(a), 24)], []string{a}, nonzero, false, "a script path that the operating system cannot resolve must exit non-zero with a message and run nothing")
			}
			chk("dotdot-real", []string{"elsewhere/../ok.bn"}, is(0), true, "a script reached through an existing directory and .. must run")
			for _, a := range []string{"plain.bn/inner.bn", "loop.bn", "dangling.bn", strings.Repeat("a", 300) + ".bn", "nodir/x.bn", "ok.bn/", "/proc/self/mem.bn", "/dev/null/x.bn", "\x00.bn"} {
				chk("unreadable-"+a[:min(len(a), 24)], []string{a}, nonzero, false, "a script that cannot be read must exit non-zero with a message and run nothing")
			}
			chk("symlink", []string{"link.bn"}, is(0), true, "a readable script reached through a symbolic link must run")
			// a script that is not a regular file: a named pipe is read to its end like any other script
			for i, fc := range []struct {
				text   string
				status int
				ran    bool
			}{{c19Marker, 0, true}, {c19Marker + bn.KwPrint + " 1 +;\n", 65, false}, {c19Marker + "nope;\n", 70, true}, {strings.Repeat("// pad\n", 20000) + c19Marker, 0, true}} {
				name := fmt.Sprintf("fifo%d.bn", i)
				fp := filepath.Join(dir, name)
				os.Remove(fp)
				if err := syscall.Mkfifo(fp, 0o644); err != nil {
					c.Ev.Note("cannot create a named pipe here: " + err.Error())
					break
				}
				if i == 0 && !fifoWorksHere(filepath.Join(dir, "probe.fifo")) {
					c.Ev.Note("named pipes do not rendezvous on this file system: the named-pipe cases are skipped")
					break
				}
				wrote := make(chan struct{})
				go func(text string) {
					defer close(wrote)
					if f, err := os.OpenFile(fp, os.O_WRONLY, 0); err == nil {
						f.WriteString(text)
						f.Close()
					}
				}(fc.text)
				cr := c.c19Run([]string{name}, "")
				// release the writer if the interpreter never opened the pipe
				if rf, err := os.OpenFile(fp, os.O_RDONLY|syscall.O_NONBLOCK, 0); err == nil {
					select {
					case <-wrote:
					case <-time.After(5 * time.Second):
					}
					rf.Close()
				}
				c.Ev.Case("command-lines", "named pipe "+name, true, "cmdline")
				if ran := strings.Contains(cr.Stdout, "SCRIPT-RAN"); cr.TimedOut || cr.Status != fc.status || ran != fc.ran {
					s.Violation(Replay{Check: "cmdline", Sig: fmt.Sprintf("cmdline-named-pipe-%d", i), Source: name, Note: fmt.Sprintf("a script read from a named pipe must behave like the same text in a file (status %d)", fc.status),
						Observed: fmt.Sprintf("status=%d timedOut=%v stdout=%q stderr=%q", cr.Status, cr.TimedOut, clip(cr.Stdout, 200), clip(cr.Stderr, 200))})
				}
			}
			chk("missing", []string{filepath.Join(dir, "missing.bn")}, nonzero, false, "an unreadable file must exit non-zero with a message")
			os.MkdirAll(filepath.Join(dir, "d.bn"), 0o755)
			chk("directory", []string{filepath.Join(dir, "d.bn")}, nonzero, false, "a directory named like a script must exit non-zero with a message")
			chk("dir-slash", []string{filepath.Join(dir, "d.bn") + "/"}, nonzero, false, "a directory path must not run anything")
			// no argument: interactive mode, end of input ends it with status 0
			cr := c.c19Run(nil, "")
			if cr.Status != 0 {
				s.Violation(Replay{Check: "cmdline", Sig: "cmdline-repl-eof", Source: "(no arguments, empty stdin)", Note: "interactive mode must exit 0 at end of input", Observed: fmt.Sprintf("status=%d", cr.Status)})
			}
		}
		c.OnReplay("cmdline", func(s *Sub, rp *Replay) { cmdLines(s) })
		if c.replayOnly != "" {
			c.ReplayTier()
		}
		c.Sub("command-lines", func(s *Sub) {
			if c.Shard != 0 {
				return
			}
			cmdLines(s)
		})

		c.Sub("outcome-classes", func(s *Sub) {
			var k int64
			bodies := []string{}
			for _, f := range c06Faults {
				for i, p := range c06Positions {
					if i%4 == len(bodies)%4 {
						bodies = append(bodies, c06Prelude+fmt.Sprintf(p.text, f.expr)+c06Tail)
					}
				}
			}
			nGenerated := len(bodies)
			bodies = append(bodies,
				P+" 1;\n", P+" \"a\";\n"+P+" 2;", "", "\n\n", "// only a comment", P+" 1;\n#\n", P+" 1;\n\"open", P+" 1;\n/* open", P+" 1\n", P+" ;\n", "1 = 2;\n", P+" 1;\n}\n",
				P+" 1;\n"+bn.KwVar+" "+bn.BLen+" = 2;\n", P+" 1;\n"+strings.Repeat("9", 400)+";\n", "x;\n", P+" 1;\nx;\n"+P+" 2;\n", P+" 1/0;", bn.KwBreak+";", P+" \"ok\";\n"+bn.KwReturn+" 1;\n")
			for bi, b := range bodies {
				for _, tail := range []string{"", "\n", "\n\n", " ", "\r\n", "// trailing comment", "\t", "\r", "/* c */", ";", "\n// c", "\ufeff", "\x00"} {
					k++
					// the hand-written texts (empty file, comment only, …) with every ending in both tiers; a third of the generated ones in quick
					if !c.Mine(k) || (!c.Thorough && bi < nGenerated && k%3 != 0) {
						continue
					}
					c.c19Script(s, "outcome-classes", strings.TrimRight(b, "\n")+tail, "typed-line\nsecond\n", "class-matrix")
				}
			}
		})

		// which statement is allowed where decides between 65 and a run: every statement kind in every position
		c.Sub("statement-kinds-in-positions", func(s *Sub) {
			var k int64
			stmtPositionTexts(func(label, text string) {
				k++
				if c.Mine(k) {
					c.c19Script(s, "statement-kinds-in-positions", text, "", "statement-position")
				}
			})
		})

		c.Sub("input-matrix", func(s *Sub) {
			var k int64
			texts := []string{"alpha", "  padded  ", "\tTab\t", "", "১২", "two words", "  ", "x", " \t "}
			for calls := 0; calls <= 4; calls++ {
				for nLines := calls; nLines <= 4; nLines++ {
					for _, finalNL := range []bool{true, false} {
						for variant := 0; variant < 4; variant++ {
							k++
							if !c.Mine(k) {
								continue
							}
							var src strings.Builder
							for i := 0; i < calls; i++ {
								switch (variant + i) % 3 {
								case 0:
									fmt.Fprintf(&src, "%s v%d = %s();\n", bn.KwVar, i, bn.BInput)
								case 1:
									prompt := []string{fmt.Sprintf("P%d> ", i), "100% sure? ", "%s %d %v %%> ", "rate %", "%!(x)"}[(int(k)+i)%5]
									fmt.Fprintf(&src, "%s v%d = %s(\"%s\");\n", bn.KwVar, i, bn.BInput, prompt)
								default:
									fmt.Fprintf(&src, "%s \"before-%d\";\n%s v%d = %s(\"\");\n", P, i, bn.KwVar, i, bn.BInput)
								}
								fmt.Fprintf(&src, "%s \"<\" + v%d + \">\";\n", P, i)
							}
							src.WriteString(P + " \"done\";\n")
							var in strings.Builder
							for i := 0; i < nLines; i++ {
								in.WriteString(texts[(i+variant+int(k))%len(texts)])
								if i < nLines-1 || finalNL {
									in.WriteString("\n")
								}
							}
							stdin := in.String()
							if nLines > 0 && !finalNL && texts[(nLines-1+variant+int(k))%len(texts)] == "" && calls == nLines {
								continue // an empty unterminated last line is no line at all (end of input)
							}
							c.c19Script(s, "input-matrix", src.String(), stdin, fmt.Sprintf("input-calls-%d", calls))
						}
					}
				}
			}
			c.Ev.MarkExhaustive("0..4 ইনপুট calls (bare, with prompt, with empty prompt, interleaved with prints) x 0..4 stdin lines x with/without final newline x 4 text rotations")
		})

		// stdin lines around the sizes at which a buffered reader hands a line over in pieces
		c.Sub("long-stdin-lines", func(s *Sub) {
			var k int64
			src := fmt.Sprintf("%s a = %s();\n%s b = %s(\"p> \");\n%s \"<\" + b + \">\";\n%s c = %s();\n%s \"<\" + c + \">\";\n%s a == b;\n%s \"done\";\n", bn.KwVar, bn.BInput, bn.KwVar, bn.BInput, P, bn.KwVar, bn.BInput, P, P, P)
			for _, size := range []int{4093, 4094, 4095, 4096, 4097, 8191, 8192, 8193, 12288, 65535, 65536, 65537, 200000} {
				for _, term := range []string{"\n", "\r\n"} {
					for _, unit := range []string{"x", "ক", " y "} {
						for pos := 0; pos < 3; pos++ {
							k++
							if !c.Mine(k) {
								continue
							}
							long := strings.Repeat(unit, size/len(unit)) + strings.Repeat("z", size%len(unit))
							lines := []string{"first", "second", "third"}
							lines[pos] = long
							stdin := strings.Join(lines, term) + term + "fourth" + term
							c.c19Script(s, "long-stdin-lines", src, stdin, "long-line", fmt.Sprintf("line-bytes-%d", size))
						}
					}
				}
			}
			c.Ev.MarkExhaustive("13 line sizes around 4 KiB / 8 KiB / 64 KiB x LF and CRLF x three fill patterns x the long line first, second or third")
		})

		n := 300
		if c.Thorough {
			n = 3000
		}
		// programs of every semantic generator of the other checks (scopes, calls, arrays, objects, faults, operator
		// ladders, coinciding names, …) through the executable: status and streams classify each run
		c.Rapid("seed-programs", n/2, func(rt *rapid.T, s *Sub) {
			sp := drawSeed(rt, nil)
			if strings.Contains(sp.Src, bn.BClock) {
				return
			}
			c.c19Script(s, "seed-programs", sp.Src, sp.Stdin, "seed-"+strings.SplitN(sp.Kind, "/", 2)[0])
		})
		c.Rapid("rand-programs", n, func(rt *rapid.T, s *Sub) {
			g := &c05Gen{budget: rapid.IntRange(3, 14).Draw(rt, "budget")}
			g.pick = func(label string, n int) int { return rapid.IntRange(0, n-1).Draw(rt, label) }
			for i := 0; i < 2; i++ {
				g.stmt("", rapid.IntRange(1, 3).Draw(rt, "depth"), nil, false, 0, false, true)
			}
			lines := strings.Split(g.b.String(), "\n")
			var tagLines []int
			for i, l := range lines {
				if strings.Contains(l, P+" \"t") {
					tagLines = append(tagLines, i)
				}
			}
			if len(tagLines) > 0 {
				at := tagLines[rapid.IntRange(0, len(tagLines)-1).Draw(rt, "at")]
				ind := lines[at][:len(lines[at])-len(strings.TrimLeft(lines[at], " "))]
				switch rapid.IntRange(0, 4).Draw(rt, "plant") {
				case 0:
					lines[at] = ind + P + " " + rapid.SampledFrom(c06Faults).Draw(rt, "fault").expr + ";"
				case 1:
					lines[at] = ind + P + " \"<\" + " + bn.BInput + "(\"ask> \") + \">\";"
				case 2:
					lines[at] = ind + rapid.SampledFrom([]string{"#", P + " 1", "1 = 2;", "\"open", ")"}).Draw(rt, "syntax")
				}
			}
			src := c06Prelude + strings.Join(lines, "\n") + c06Tail
			c.c19Script(s, "rand-programs", src, "one\n two \nthree\nfour\nfive\nsix\n", "random")
		})
	})
}
