package checks

import (
	"fmt"
	"os"
	"path/filepath"
	"strings"
	"testing"
	"time"

	"pgregory.net/rapid"

	"verifharness/bn"
	"verifharness/run"
)

// C07 — no program can make the interpreter terminate abnormally.

func (c *Ctx) c07Program(s *Sub, sub, src, stdin string, nt, enum bool, labels ...string) run.Resp {
	r := c.W().Run(run.Req{Src: src, Stdin: stdin, Budget: 300000, Depth: 3000})
	labels = append(labels, "class-"+r.Class())
	if enum {
		c.Ev.EnumCase(sub, nt, func() string { return src }, labels...)
	} else {
		c.Ev.Case(sub, src, nt, labels...)
	}
	switch r.Class() {
	case run.Abnormal:
		s.Violation(Replay{Check: "crash", Sig: "abnormal-" + crashKind(r), Source: src, Stdin: stdin, Note: "the interpreter terminated abnormally: " + clip(r.Panic+r.CrashInfo, 300),
			Expected: "normal end or reported runtime error", Observed: r.Describe()})
	case run.Hung:
		s.Violation(Replay{Check: "crash", Sig: "hang", Source: src, Stdin: stdin, Note: "no answer within the watchdog limit although the step budget should have stopped the program", Observed: r.Describe()})
	case run.RtError:
		if strings.TrimSpace(r.Err) == "" {
			s.Violation(Replay{Check: "crash", Sig: "silent-error", Source: src, Stdin: stdin, Note: "runtime error flagged without a diagnostic", Observed: r.Describe()})
		}
	}
	return r
}

func crashKind(r run.Resp) string {
	t := r.Panic + r.CrashInfo
	switch {
	case strings.Contains(t, "stack overflow"):
		return "stack-overflow"
	case strings.Contains(t, "index out of range"), strings.Contains(t, "slice bounds"):
		return "index"
	case strings.Contains(t, "interface conversion"), strings.Contains(t, "uncomparable"), strings.Contains(t, "nil pointer"):
		return "type"
	}
	return "other"
}

var c07Values = []string{"nil", "bare()", "fell()", "unset", bn.KwTrue, "0", "1", "(-1)", "0.5", "1" + strings.Repeat("0", 308), "(2 ** 63)", "(2 ** 1024)", "((2 ** 1024) - (2 ** 1024))", "(1 << 63)", "(~(1 << 63))", "((1 << 62) | 1)", "(-0)", "(-(2 ** 63))", "4294967296",
	"\"\"", "\"abc\"", "\"0\"", "\"১\"", "[]", "[1, 2]", "[[1]]", "{}", "{a: 1}", "f", bn.BLen, bn.BInput, "arr", "obj"}

const c07Prelude = "ফাংশন f(a) { ফেরত a; }\nধরি arr = [1, 2, 3];\nধরি obj = {a: 1, b: [1]};\n" + bn.KwFun + " bare() { " + bn.KwReturn + "; }\n" + bn.KwFun + " fell() { }\n" + bn.KwVar + " unset;\n"

func TestC07(t *testing.T) {
	Main(t, "C07", func(c *Ctx) {
		c.OnReplay("crash", func(s *Sub, rp *Replay) { c.c07Program(s, "replay", rp.Source, rp.Stdin, true, false) })
		c.OnReplay("cli", func(s *Sub, rp *Replay) { c.c07CLI(s, rp.Source, rp.Note) })
		c.OnReplay("rawstdin", func(s *Sub, rp *Replay) {
			p := filepath.Join(c.CLIDir(), "raw.bn")
			os.WriteFile(p, []byte(rp.Source), 0o644)
			cr := run.CLI(c.Bin, []string{p}, rp.Stdin, c.CLIDir(), 30*time.Second)
			if cr.TimedOut || (cr.Status != 0 && cr.Status != 70) || strings.Contains(cr.Stderr, "panic:") || strings.Contains(cr.Stderr, "fatal error") {
				s.Violation(Replay{Check: "rawstdin", Sig: "cli-abnormal-raw-stdin", Source: rp.Source, Stdin: rp.Stdin, Note: rp.Note, Observed: fmt.Sprintf("status=%d stderr=%q", cr.Status, clip(cr.Stderr, 400))})
			}
		})
		c.OnReplay("interactive", func(s *Sub, rp *Replay) {
			out, status, timedOut := run.CLIMerged(c.Bin, nil, rp.Source, c.CLIDir(), 60*time.Second)
			if timedOut || status != 0 || strings.Contains(out, "panic:") || strings.Contains(out, "fatal error:") {
				s.Violation(Replay{Check: "interactive", Sig: "interactive-abnormal", Source: rp.Source, Note: rp.Note, Observed: fmt.Sprintf("status=%d output=%q", status, clip(out, 700))})
			}
		})
		c.ReplayTier()
		P := bn.KwPrint

		// open findings (excluded by construction, probed on every run)
		c.Probe("unbounded-recursion", func() bool {
			cr := c.CLIScript(bn.KwFun+" r(n) { "+bn.KwReturn+" r(n + 1); }\nr(0);\n", "", 120*time.Second)
			return cr.Status != 0 && cr.Status != 70 && strings.Contains(cr.Stderr, "stack overflow")
		})

		// values that contain themselves, built in every way and then printed, listed, compared, measured, copied:
		// whatever has a finite answer gives it, a print of the value itself is a runtime error (K13, fixed), nothing
		// ends abnormally
		c.Sub("self-containing-values", func(s *Sub) {
			V, F, R := bn.KwVar, bn.KwFun, bn.KwReturn
			builds := []string{
				V + " a = [1, 2];\na[0] = a;\n",
				V + " a = {k: 1};\na.me = a;\n",
				V + " a = [1];\na[0] = [a];\n",
				V + " a = [1];\n" + V + " b = [a];\na[0] = b;\n",
				V + " a = {k: 1};\na.list = [a];\n",
				V + " a = [{}];\na[0].up = a;\n",
				V + " a = [1];\n" + V + " b = {p: a};\n" + V + " c3 = [b];\na[0] = c3;\n",
				V + " a = [0, 0];\na[0] = a;\na[1] = a;\n",
				F + " tie(x) { x[0] = x; " + R + " x; }\n" + V + " a = tie([1, 2]);\n",
				V + " a = [1];\na = " + bn.BPush + "(a, a);\na[1][0] = a;\n",
				V + " a = {k: 1};\n" + F + " hold() { " + R + " a; }\na.f = hold;\na.g = hold();\n",
				// shared but finite
				V + " sh = [7];\n" + V + " a = [sh, sh, {p: sh}];\n",
				// a cycle that is cut again
				V + " a = [1, 2];\na[0] = a;\na[0] = 5;\n",
				V + " a = {k: 1};\na.me = a;\n" + bn.BDelKey + "(a, \"me\");\n",
			}
			uses := []string{
				P + " a;\n", P + " [a];\n", P + " {w: a};\n", P + " [1, [2, [a]]];\n", P + " " + bn.BLen + "(a);\n", P + " a == a;\n", P + " a[0];\n", P + " a[0][0];\n", P + " a.me.me.k;\n", P + " a.k;\n",
				P + " " + bn.BKeys + "(a);\n", P + " " + bn.BValues + "(a);\n", P + " " + bn.BPush + "(a, 3);\n", P + " " + bn.BLen + "(" + bn.BPush + "(a, a));\n", P + " " + bn.BRemove + "(a, 0);\n",
				F + " show(x) { " + P + " x; }\nshow(a);\n", F + " give() { " + R + " a; }\n" + P + " give();\n", P + " \"\" + a;\n", P + " !a;\n", P + " a " + bn.KwOr + " 1;\n", P + " " + bn.BMax + "(a);\n",
				V + " copy = a;\n" + P + " copy == a;\n" + P + " copy;\n", bn.KwIf + " (a) " + P + " \"truthy\";\n", bn.KwFor + " (" + V + " i = 0; i < 2; i = i + 1) { " + P + " a; }\n", P + "\n  a;\n",
			}
			var k int64
			for _, b := range builds {
				for _, u := range uses {
					k++
					if !c.Mine(k) {
						continue
					}
					c.c07Program(s, "self-containing-values", b+P+" \"built\";\n"+u+P+" \"end\";\n", "", true, true, "self-containing")
				}
			}
			c.Ev.MarkExhaustive(fmt.Sprintf("%d ways of building a value that contains itself (or shares, or no longer contains itself) x %d uses", len(builds), len(uses)))
		})
		// the interactive mode is input too: lines that are blank, that hold one stray character, one operator, one
		// keyword or built-in name alone, an open string or comment, a string ending in a backslash — each between
		// ordinary lines and as the unterminated last line.  No line ends the process abnormally.
		c.Sub("interactive-lines", func(s *Sub) {
			atoms := []string{" ", "  ", "\t", " \t ", "\r", " \r", "\v", "\f", "\u00a0", "\u3000", "\ufeff", ":", ":help", ": x", ";", ";;", "{", "}", "{}", "(", ")", "()", "[", "]", "[]", "\"", "\"\"", "\"\\", "\"\\\"", P + " \"ক\\", P + " \"a\\\\b\";", "\\", "\\n", "/*", "*/", "/* x */", "//", "// x", "/", "#", "@", "'", "'a'", ".", "..", "1.", ".5", "1..2", "1.2.3", "-", "--", "--1;", "1--1;", "---1;", "+", "++", "1++;", "=", "==", "===", "!", "!!", "!=", "&", "&&", "|", "||", "*", "**", "***", "<", "<<", "<<<", ">", ">>", ">>>", "<=", "=>", "=<", "?", "`", "~", "~~", "^", "%", "$", ",", ",,", "_", "__;", "0x1F;", "1e3;", "1_000;", "0b1;", "'", "\u0964", "\u09f3", "\U0001f600", "\u200d", "\u0300",
				bn.KwVar, bn.KwVar + " ;", bn.KwFun, bn.KwFun + " ()", bn.KwIf, bn.KwElse, bn.KwWhile, bn.KwFor, bn.KwFor + " (;;", bn.KwPrint, bn.KwReturn, bn.KwReturn + ";", bn.KwBreak, bn.KwContinue, bn.KwTrue, bn.KwFalse, "nil", bn.KwAnd, bn.KwOr, bn.BLen, bn.BLen + "(", bn.BInput, bn.BInput + "(", bn.BClock + "()", bn.BMax + "()", bn.BPush + "(1)",
				// lines whose value (echoed at the prompt) or operands are containers of unusual make: containing themselves, empty
				bn.KwVar + " a = [1]; a[0] = a;", bn.KwVar + " o = {}; o.o = o;", bn.KwVar + " a = [1]; a[0] = a; a;", bn.KwVar + " a = [1]; a[0] = a; " + P + " a;", bn.KwVar + " a = [1]; a[0] = a; [a];",
				"[] == [];", "[] != [];", bn.KwVar + " e = []; e == e;", "({}) == ({});", bn.KwVar + " e = []; e[0];", bn.BRemove + "([1], 0) == [];", "[[]] == [[]];", "[];", "({});", "[nil];"}
			var k int64
			const per = 12
			for from := 0; from < len(atoms); from += per {
				k++
				if !c.Mine(k) {
					continue
				}
				part := atoms[from:min(from+per, len(atoms))]
				var lines []string
				for i, a := range part {
					lines = append(lines, a, fmt.Sprintf("%d + 1000;", i))
				}
				for _, finalNL := range []bool{true, false} {
					ls := lines
					if !finalNL {
						ls = lines[:len(lines)-1] // the last atom is the unterminated last line
					}
					in := strings.Join(ls, "\n")
					if finalNL {
						in += "\n"
					}
					out, status, timedOut := run.CLIMerged(c.Bin, nil, in, c.CLIDir(), 60*time.Second)
					c.Ev.CLICross++
					c.Ev.EnumCase("interactive-lines", true, func() string { return fmt.Sprintf("finalNL=%v: %q", finalNL, ls) }, "interactive")
					bad := ""
					switch {
					case timedOut:
						bad = "the session did not end within 60 s"
					case strings.Contains(out, "panic:") || strings.Contains(out, "fatal error:") || strings.Contains(out, "goroutine "):
						bad = "the process ended with a Go panic"
					case status != 0:
						bad = fmt.Sprintf("the session ended with status %d", status)
					default:
						for i := range part {
							if 2*i+1 < len(ls) && !strings.Contains(out, fmt.Sprintf(">> %d\n", i+1000)) {
								bad = fmt.Sprintf("the ordinary line after %q was not answered", part[i])
								break
							}
						}
					}
					if bad != "" {
						s.Violation(Replay{Check: "interactive", Sig: "interactive-abnormal", Source: in, Note: bad, Observed: fmt.Sprintf("status=%d output=%q", status, clip(out, 700))})
					}
				}
			}
			c.Ev.MarkExhaustive(fmt.Sprintf("%d hostile one-atom lines, each between ordinary lines and as the unterminated last line of a session", len(atoms)))
		})
		// names that are bound nowhere, of every make — near a visible name, near a built-in, with code points that
		// normalisation rewrites, one code point long, very long — read, called, assigned, indexed: a runtime error
		c.Sub("undefined-names", func(s *Sub) {
			names := []string{"ব\u09dfস", "ব\u09af\u09bcস", "ব\u09dc", "গা\u09dd\u09bf", "ক\u09cbণ", "ক\u09c7\u09beণ", "caf\u00e9s", "cafe\u0301s", bn.BLen + "ন", bn.BLen[:len(bn.BLen)-3], bn.BInput + "_", "arrr", "ar", "obk", "x", "q", "\u09df", "\u09df\u09df\u09df\u09df",
				strings.Repeat("ন\u09be\u09ae_", 80), strings.Repeat("\u09dc", 40), "_", "__", "A\u030a", "\u212b", "f1", "ff"}
			forms := []string{P + " %s;", "%s();", "%s = 1;", P + " arr[%s];", P + " %s.k;", P + " [1, %s];", "%s.k = 2;", P + " f(%s);", bn.KwIf + " (%s) " + P + " 1;", "%s[0] = 1;"}
			prelude := c07Prelude + bn.KwVar + " ব\u09afস = 1;\n" + bn.KwVar + " ক\u09cbন = 2;\n" + bn.KwVar + " cafes = 3;\n" + bn.KwVar + " obj2 = {};\n"
			var k int64
			for _, n := range names {
				for _, f := range forms {
					k++
					if !c.Mine(k) {
						continue
					}
					c.c07Program(s, "undefined-names", prelude+P+" \"before\";\n"+fmt.Sprintf(f, n)+"\n"+P+" \"after\";\n", "", true, true, "undefined-name")
				}
			}
			c.Ev.MarkExhaustive(fmt.Sprintf("%d unbound names x %d uses", len(names), len(forms)))
		})
		c.Sub("operator-matrix", func(s *Sub) {
			var k int64
			for _, op := range bn.BinOpList {
				for _, l := range c02Producers {
					for _, r := range c02Producers {
						k++
						if !c.Mine(k) {
							continue
						}
						c.c07Program(s, "operator-matrix", c02Prelude+P+" "+l.text+" "+op+" "+r.text+";\n", "", !(l.nice && r.nice), true, "matrix-operator")
					}
				}
			}
			for _, op := range append(append([]string{}, bn.UnOps...), "!!", "-~", "~-") {
				for _, r := range c02Producers {
					k++
					if c.Mine(k) {
						c.c07Program(s, "operator-matrix", c02Prelude+P+" "+op+r.text+";\n", "", true, true, "matrix-operator")
					}
				}
			}
			c.Ev.MarkExhaustive("every binary operator x every ordered pair of 48 operand producers; unary operators and pairs of them x every producer")
		})
		c.Sub("builtin-matrix", func(s *Sub) {
			var k int64
			for _, b := range bn.Builtins {
				combos := [][]string{{}}
				for _, a := range c17Args {
					combos = append(combos, []string{a.text}, []string{a.text, a.text, a.text}, []string{"arr", a.text}, []string{"obj", a.text}, []string{a.text, "0"})
					for _, d := range c17Args {
						combos = append(combos, []string{a.text, d.text})
					}
				}
				for _, args := range combos {
					k++
					if !c.Mine(k) {
						continue
					}
					c.c07Program(s, "builtin-matrix", c17Prelude+c07Prelude[strings.Index(c07Prelude, "\n")+1:]+P+" "+b+"("+strings.Join(args, ", ")+");\n", "in1\nin2\n", true, true, "matrix-builtin")
				}
			}
			c.Ev.MarkExhaustive("every built-in x 0..2 arguments over every combination of 37 argument producers plus array/object-first and 3-argument forms")
		})
		c.Sub("access-matrix", func(s *Sub) {
			var k int64
			forms := []string{P + " %[1]s[%[2]s];", "%[1]s[%[2]s] = 1;", "%[1]s[%[2]s] = %[1]s;" + " " + P + " 1;", P + " %[1]s.k;", "%[1]s.k = %[2]s;", P + " %[1]s();", P + " %[1]s(%[2]s);", P + " %[1]s(%[2]s, %[2]s);",
				P + " %[1]s[%[2]s][%[2]s];", P + " %[1]s.a.b;", P + " %[1]s[%[2]s].k;", P + " %[1]s(%[2]s)(%[2]s);", P + " " + bn.BRemove + "(%[1]s, %[2]s);", P + " " + bn.BPush + "(%[1]s, %[2]s)[%[2]s];",
				bn.KwIf + " (%[1]s) " + P + " %[2]s; " + bn.KwElse + " " + P + " !%[2]s;", bn.KwFor + " (" + bn.KwVar + " i = %[1]s; i < %[2]s; i = i + 1) { " + bn.KwBreak + "; }", P + " [%[1]s, %[2]s];", P + " {p: %[1]s, q: %[2]s};",
				P + " \"s\" + %[1]s + %[2]s;", P + " %[1]s == %[2]s;"}
			for _, f := range forms {
				for _, v := range c07Values {
					for _, i := range c07Values {
						k++
						if !c.Mine(k) {
							continue
						}
						src := c07Prelude + fmt.Sprintf(f, v, i) + "\n" + P + " \"end\";\n"
						c.c07Program(s, "access-matrix", src, "in1\n", true, true, "matrix-access")
					}
				}
			}
			c.Ev.MarkExhaustive(fmt.Sprintf("%d index/property/call/statement forms x every ordered pair of %d values", len(forms), len(c07Values)))
		})
		// faults whose diagnostic quotes program text (a string, a name, a key) of every length and script:
		// the diagnostic is written, whatever its size in bytes or characters
		c.Sub("long-text-in-diagnostics", func(s *Sub) {
			var k int64
			P := bn.KwPrint
			units := []string{"a", "ক", "ক\u09be", "é", "\U0001f600", "ab ", "য\u09bc"}
			for _, n := range []int{1, 10, 50, 56, 57, 60, 63, 64, 65, 66, 67, 70, 85, 86, 100, 127, 128, 129, 150, 190, 199, 200, 201, 255, 256, 257, 300, 511, 512, 1000, 1024, 4096, 5000, 65536} {
				for ui, u := range units {
					k++
					if !c.Mine(k) {
						continue
					}
					text := strings.Repeat(u, n/len([]rune(u))+1)
					text = string([]rune(text)[:n])
					ident := strings.Repeat([]string{"a", "ক", "ব_"}[ui%3], n)
					ident = string([]rune(ident)[:n])
					q := "\"" + text + "\""
					faults := []string{P + " -" + q + ";", P + " ~" + q + ";", P + " " + q + " - 1;", P + " 1 * " + q + ";", P + " " + q + " < 1;", P + " " + q + " & 1;", P + " " + q + "();", P + " " + q + "[0];", P + " " + q + ".k;",
						bn.BDelKey + "(obj, " + q + ");", P + " arr[" + q + "];", P + " " + bn.BLen + "(" + q + ");", P + " " + bn.BAbs + "(" + q + ");", P + " " + bn.BKeys + "(" + q + ");", P + " " + bn.BSqrt + "(" + q + ", 1);",
						P + " " + ident + ";", ident + " = 1;", P + " obj." + ident + ";", P + " obj." + ident + ".x;", ident + "();", bn.KwVar + " " + ident + " = 1; " + bn.KwVar + " " + ident + " = 2;",
						bn.KwFun + " " + ident + "(p) { } " + ident + "();", "f(" + q + ", " + q + ");", P + " {" + ident + ": 1}.nope;"}
					for _, f := range faults {
						c.c07Program(s, "long-text-in-diagnostics", c07Prelude+P+" \"before\";\n"+f+"\n", "", true, true, fmt.Sprintf("text-%d", n))
					}
				}
			}
			c.Ev.MarkExhaustive("24 faulting statements that quote program text x 34 text lengths (1..65536 characters) x 7 character units (ASCII, Bangla with and without marks, Latin-1, astral, blanks)")
		})
		c.Sub("string-coercions", func(s *Sub) {
			// a one-character string for every code point of the Bangla block (and a few other digit-like or
			// unusual characters), alone and after a digit, pushed through every place that may read a string as a number
			var k int64
			chars := []rune{}
			for r := rune(0x0980); r <= 0x09FF; r++ {
				chars = append(chars, r)
			}
			chars = append(chars, '0', '9', 'x', ' ', '.', '-', '+', 'e', '_', 0x0966, 0x0660, 0xFF11, 0x00B2, 0x2160, 0x3007, 0x1D7CE, 0x200D, 0xFEFF, 0x0301)
			forms := []string{P + " arr[%[1]s];", "arr[%[1]s] = 1;", P + " " + bn.BRemove + "(arr, %[1]s);", P + " %[1]s - 1;", P + " 2 * %[1]s;", P + " %[1]s < 1;", P + " %[1]s | 1;", P + " ~%[1]s;", P + " -%[1]s;", P + " 1 << %[1]s;",
				P + " " + bn.BAbs + "(%[1]s);", P + " " + bn.BMin + "(1, %[1]s);", P + " " + bn.BPow + "(%[1]s, 2);", P + " " + bn.BRound + "(%[1]s);", P + " %[1]s ** 2;", P + " %[1]s % 3;"}
			for _, r := range chars {
				if r == '"' {
					continue
				}
				for _, txt := range []string{string(r), "1" + string(r), string(r) + "২"} {
					k++
					if !c.Mine(k) {
						continue
					}
					var b strings.Builder
					b.WriteString(c07Prelude)
					for _, f := range forms {
						b.WriteString(fmt.Sprintf(f, "\""+txt+"\"") + "\n")
					}
					// each statement fails or succeeds on its own: run them one program per form so that none hides the next
					for _, f := range forms {
						c.c07Program(s, "string-coercions", c07Prelude+fmt.Sprintf(f, "\""+txt+"\"")+"\n", "", true, true, "string-coercion")
					}
				}
			}
			c.Ev.MarkExhaustive(fmt.Sprintf("every code point of the Bangla block and %d other digit-like characters as a one- or two-character string x %d coercing forms", 19, len(forms)))
		})
		c.Sub("raw-stdin-bytes", func(s *Sub) {
			// ইনপুট returns whatever bytes arrive on stdin, also bytes that are not valid UTF-8; only the real CLI can be fed
			// such bytes (the batch protocol is JSON).  Each value is pushed through every coercing context.
			var k int64
			inputs := []string{"\xe0", "\xe0\xa7", "12\xe0", "১২\xe0\xa7", "\xe0\xa7\xa7\xe0", "\x80", "\xbf\xbf", "\xc0\x80", "\xff", "\xfe\xff", "\xf0\x9f", "\xf0\x9f\x98", "\xed\xa0\x80", "\xf4\x90\x80\x80",
				"a\x00b", "\x00", "5\x00", "\xe0\xa7\xa6", "\xe0\xa7\xb4", "1\xe0\xa7\xa7\xe0\xa7", "3.\xe0", "-\xe0\xa7", "\xc2", "\xe2\x82", "0x1\xff", "1e\xe0"}
			forms := []string{"v - 1", "v * 2", "v < 1", "v | 1", "~v", "-v", "1 << v", "arr[v]", bn.BRemove + "(arr, v)", bn.BAbs + "(v)", bn.BMin + "(1, v)", bn.BPow + "(v, 2)", "v + 1", "v == v", "[v]", "{k: v}", bn.BLen + "(v)", "\"<\" + v + \">\"", "obj[v]", bn.BDelKey + "(obj, v)"}
			for _, in := range inputs {
				for _, f := range forms {
					k++
					if !c.Mine(k) {
						continue
					}
					src := c07Prelude + bn.KwVar + " v = " + bn.BInput + "();\n" + P + " \"read\";\n" + P + " " + f + ";\n" + P + " \"end\";\n"
					p := filepath.Join(c.CLIDir(), "raw.bn")
					os.WriteFile(p, []byte(src), 0o644)
					cr := run.CLI(c.Bin, []string{p}, in+"\n", c.CLIDir(), 30*time.Second)
					c.Ev.CLICross++
					c.Ev.EnumCase("raw-stdin-bytes", true, func() string { return fmt.Sprintf("stdin=%q %s", in, f) }, "cli-raw-stdin")
					if cr.TimedOut || (cr.Status != 0 && cr.Status != 70) || strings.Contains(cr.Stderr, "goroutine ") || strings.Contains(cr.Stderr, "panic:") || strings.Contains(cr.Stderr, "fatal error") {
						s.Violation(Replay{Check: "rawstdin", Sig: "cli-abnormal-raw-stdin", Source: src, Stdin: in + "\n", Note: fmt.Sprintf("stdin bytes %q used as %s", in, f), Expected: "exit status 0 or 70 without a host-runtime banner",
							Observed: fmt.Sprintf("status=%d timedOut=%v stderr=%q", cr.Status, cr.TimedOut, clip(cr.Stderr, 400))})
					}
				}
			}
			c.Ev.MarkExhaustive(fmt.Sprintf("%d stdin byte strings that are not valid UTF-8 (truncated, lone continuation, overlong, surrogate, out of range, NUL) x %d uses of the value read", len(inputs), len(forms)))
		})
		// script files of every small shape through the real executable: empty, one byte of every value, two-
		// and three-byte heads of the usual signatures, only blanks / newlines / a comment, with and without a
		// final newline.  Any exit status other than 0, 65 or 70, or a Go trace, is abnormal.
		c.Sub("file-shapes", func(s *Sub) {
			var k int64
			var files []string
			files = append(files, "", "\n", "\r\n", " ", "\t", "//", "// c", "/**/", "/* c */\n", ";", "1", "1;", "\"", "\"a\"", "\xef", "\xef\xbb", "\xef\xbb\xbf", "\xef\xbb\xbf\n", "\xef\xbb\xbf"+bn.KwPrint+" 1;", "\xff\xfe", "\xfe\xff", "\x00", "\x00\x00\x00", "#!", "#!/usr/bin/borno\n"+bn.KwPrint+" 1;\n", "\x1a", "\x04")
			for b := 0; b < 256; b++ {
				files = append(files, string([]byte{byte(b)}), bn.KwPrint+" 1;\n"+string([]byte{byte(b)}))
			}
			for _, f := range files {
				k++
				if !c.Mine(k) {
					continue
				}
				cr := c.CLIScript(f, "", 60*time.Second)
				c.Ev.EnumCase("file-shapes", true, func() string { return fmt.Sprintf("%q", f) }, "file-shape")
				if cr.TimedOut || (cr.Status != 0 && cr.Status != 65 && cr.Status != 70) || strings.Contains(cr.Stderr, "goroutine ") || strings.Contains(cr.Stderr, "panic:") || strings.Contains(cr.Stderr, "fatal error") {
					s.Violation(Replay{Check: "cli", Sig: "cli-abnormal", Source: f, Note: "file-shapes", Expected: "exit status 0, 65 or 70 without a host-runtime banner",
						Observed: fmt.Sprintf("status=%d timedOut=%v stderr=%q", cr.Status, cr.TimedOut, clip(cr.Stderr, 400))})
				}
			}
			c.Ev.MarkExhaustive(fmt.Sprintf("%d script files: empty, every single byte alone and behind a statement, signature heads, blank- and comment-only files", len(files)))
		})
		c.Sub("deep-nesting", func(s *Sub) {
			if c.Shard != 0 {
				return
			}
			for _, d := range []int{200, 2000, 10000} {
				progs := []string{
					P + " " + strings.Repeat("(", d) + "1" + strings.Repeat(")", d) + ";",
					P + " " + strings.Repeat("[", d) + strings.Repeat("]", d) + ";",
					strings.Repeat("{", d) + P + " 1;" + strings.Repeat("}", d),
					P + " " + strings.Repeat("-", d) + "1;",
					P + " " + strings.Repeat("!", d) + "1;",
					bn.KwFun + " g() { " + bn.KwReturn + " g; }\n" + P + " g" + strings.Repeat("()", d) + " == g;",
					bn.KwVar + " x = " + strings.Repeat("[", d) + "7" + strings.Repeat("]", d) + ";\n" + P + " x" + strings.Repeat("[0]", d) + ";",
					P + " " + strings.Repeat("1 + ", d) + "1;",
					P + " " + strings.Repeat("1 - (", d) + "1" + strings.Repeat(")", d) + ";",
					bn.KwVar + " o = " + strings.Repeat("{k: ", d) + "1" + strings.Repeat("}", d) + ";\n" + P + " o" + strings.Repeat(".k", d) + ";",
					strings.Repeat(bn.KwIf+" (1) ", d) + P + " 1;",
					bn.KwFun + " down(n) { " + bn.KwIf + " (n == 0) " + bn.KwReturn + " 0; " + bn.KwReturn + " 1 + down(n - 1); }\n" + P + " down(" + fmt.Sprint(d/4) + ");",
				}
				for _, p := range progs {
					c.c07CLI(s, p, fmt.Sprintf("depth %d", d))
				}
			}
		})
		n := 3000
		if c.Thorough {
			n = 40000
		}
		c.Rapid("rand-wild-programs", n, func(rt *rapid.T, s *Sub) {
			g := &synGen{rt: rt, scalarStores: rapid.Bool().Draw(rt, "scalarStores")} // otherwise containers are stored into containers, themselves included
			prog := g.program(rapid.IntRange(1, 4).Draw(rt, "depth"), 6)
			src := c07Prelude + bn.ProgramText(prog, bn.Minimal)
			c.c07Program(s, "rand-wild-programs", src, "in1\nin2\nin3\n", true, false, "wild")
		})
		examples := shippedExamples()
		c.Rapid("rand-semantic-programs", n/2, func(rt *rapid.T, s *Sub) {
			seed := drawSeed(rt, examples)
			c.c07Program(s, "rand-semantic-programs", seed.Src, seed.Stdin, true, false, "seed-"+seed.Kind)
		})
	})
}

// c07CLI runs a program through the real CLI: exit status 0 or 70, no Go panic banner.
func (c *Ctx) c07CLI(s *Sub, src, what string) {
	cr := c.CLIScript(src, "", 120*time.Second)
	c.Ev.Case("deep-nesting", what+"\x00"+clip(src, 80), true, "cli-deep")
	if cr.TimedOut || (cr.Status != 0 && cr.Status != 70) || strings.Contains(cr.Stderr, "goroutine ") || strings.Contains(cr.Stderr, "panic:") || strings.Contains(cr.Stderr, "fatal error") {
		s.Violation(Replay{Check: "cli", Sig: "cli-abnormal", Source: src, Note: what, Expected: "exit status 0 or 70 without a host-runtime banner",
			Observed: fmt.Sprintf("status=%d timedOut=%v stderr=%q", cr.Status, cr.TimedOut, clip(cr.Stderr, 400))})
	}
}
