// Package reflex is the reference lexer: a transcription of properties C09/C10
// (longest match over an explicit token table), written without reference to
// the implementation's scanner.
package reflex

import (
	"math"
	"math/big"
	"unicode"

	"verifharness/bn"
)

// DiagKind classifies lexical diagnostics.
type DiagKind int

const (
	DStray DiagKind = iota
	DUntermString
	DUntermComment
	DNumberRange
)

// Diag is one expected lexical diagnostic; its line must lie in [LineLo, LineHi].
type Diag struct {
	Kind           DiagKind
	Pos, End       int
	LineLo, LineHi int
}

// Result of lexing a text.
type Result struct {
	Toks  []bn.Tok // ends with exactly one EOF token
	Diags []Diag
	// Gaps between tokens are classified for the partition invariant.
	Comments [][2]int // [pos,end) of complete comments
}

// operators, longest first is not needed: the matcher takes the longest match.
var operators = []struct {
	text string
	kind bn.TokKind
}{
	{"(", bn.TLParen}, {")", bn.TRParen}, {"{", bn.TLBrace}, {"}", bn.TRBrace}, {"[", bn.TLBracket}, {"]", bn.TRBracket},
	{",", bn.TComma}, {".", bn.TDot}, {"-", bn.TMinus}, {"+", bn.TPlus}, {";", bn.TSemi}, {":", bn.TColon},
	{"/", bn.TSlash}, {"*", bn.TStar}, {"&", bn.TAmp}, {"|", bn.TPipe}, {"^", bn.TCaret}, {"**", bn.TStarStar},
	{"~", bn.TTilde}, {"%", bn.TPercent}, {"!", bn.TBang}, {"!=", bn.TBangEq}, {"=", bn.TEq}, {"==", bn.TEqEq},
	{">", bn.TGt}, {">=", bn.TGe}, {"<<", bn.TShl}, {"<", bn.TLt}, {"<=", bn.TLe}, {">>", bn.TShr},
	{"&&", bn.TAndAnd}, {"||", bn.TOrOr},
}

// IsBlank: the four blank characters.
func IsBlank(r rune) bool { return r == ' ' || r == '\t' || r == '\r' || r == '\n' }

// DigitValue returns 0..9 for the twenty digits of the two scripts, else -1.
func DigitValue(r rune) int {
	if r >= '0' && r <= '9' {
		return int(r - '0')
	}
	if r >= 0x09E6 && r <= 0x09EF {
		return int(r - 0x09E6)
	}
	return -1
}

func isIdentStart(r rune) bool { return r == '_' || unicode.IsLetter(r) || unicode.IsMark(r) }
func isIdentPart(r rune) bool  { return isIdentStart(r) || DigitValue(r) >= 0 }

func hasPrefix(src []rune, at int, s string) bool {
	rs := []rune(s)
	if at+len(rs) > len(src) {
		return false
	}
	for i, r := range rs {
		if src[at+i] != r {
			return false
		}
	}
	return true
}

var pow10 = [...]float64{1, 1e1, 1e2, 1e3, 1e4, 1e5, 1e6, 1e7, 1e8, 1e9, 1e10, 1e11, 1e12, 1e13, 1e14, 1e15, 1e16, 1e17, 1e18, 1e19, 1e20, 1e21, 1e22}

// NumberValue computes the double nearest to the exact decimal value of a
// literal given as digit values (intDigits '.' fracDigits).  ok=false means the
// value is too large for a double.
func NumberValue(intDigits, fracDigits []int) (v float64, ok bool) {
	// strip leading zeros for the fast path test
	sig := 0
	started := false
	var mant uint64
	for _, d := range intDigits {
		if d != 0 {
			started = true
		}
		if started {
			sig++
		}
		if sig <= 19 {
			mant = mant*10 + uint64(d)
		}
	}
	for _, d := range fracDigits {
		if d != 0 {
			started = true
		}
		if started {
			sig++
		}
		if sig <= 19 {
			mant = mant*10 + uint64(d)
		}
	}
	if sig <= 15 && len(fracDigits) <= 22 {
		// mant < 10^15 < 2^53 and 10^k exact: one correctly rounded division
		return float64(mant) / pow10[len(fracDigits)], true
	}
	num := new(big.Int)
	ten := big.NewInt(10)
	for _, d := range intDigits {
		num.Mul(num, ten)
		num.Add(num, big.NewInt(int64(d)))
	}
	den := big.NewInt(1)
	for _, d := range fracDigits {
		num.Mul(num, ten)
		num.Add(num, big.NewInt(int64(d)))
		den.Mul(den, ten)
	}
	r := new(big.Rat).SetFrac(num, den)
	f, _ := r.Float64()
	if math.IsInf(f, 0) {
		return 0, false
	}
	return f, true
}

// Lex tokenises src.
func Lex(src []rune) *Result {
	res := &Result{}
	line := 1 // 1 + newlines before current position
	countNL := func(a, b int) int {
		n := 0
		for i := a; i < b; i++ {
			if src[i] == '\n' {
				n++
			}
		}
		return n
	}
	i := 0
	for i < len(src) {
		r := src[i]
		if IsBlank(r) {
			if r == '\n' {
				line++
			}
			i++
			continue
		}
		// comments
		if hasPrefix(src, i, "//") {
			j := i + 2
			for j < len(src) && src[j] != '\n' {
				j++
			}
			res.Comments = append(res.Comments, [2]int{i, j})
			i = j
			continue
		}
		if hasPrefix(src, i, "/*") {
			j := i + 2
			closed := false
			for j < len(src) {
				if hasPrefix(src, j, "*/") {
					j += 2
					closed = true
					break
				}
				j++
			}
			nl := countNL(i, j)
			if closed {
				res.Comments = append(res.Comments, [2]int{i, j})
			} else {
				res.Diags = append(res.Diags, Diag{Kind: DUntermComment, Pos: i, End: j, LineLo: line, LineHi: line + nl})
			}
			line += nl
			i = j
			continue
		}
		// string
		if r == '"' {
			j := i + 1
			for j < len(src) && src[j] != '"' {
				j++
			}
			if j >= len(src) {
				nl := countNL(i, j)
				res.Diags = append(res.Diags, Diag{Kind: DUntermString, Pos: i, End: j, LineLo: line, LineHi: line + nl})
				line += nl
				i = j
				continue
			}
			nl := countNL(i, j)
			line += nl
			res.Toks = append(res.Toks, bn.Tok{Kind: bn.TString, Text: string(src[i : j+1]), Str: string(src[i+1 : j]), Line: line, Pos: i, End: j + 1})
			i = j + 1
			continue
		}
		// number
		if DigitValue(r) >= 0 {
			j := i
			var id, fd []int
			for j < len(src) && DigitValue(src[j]) >= 0 {
				id = append(id, DigitValue(src[j]))
				j++
			}
			if j+1 < len(src) && src[j] == '.' && DigitValue(src[j+1]) >= 0 {
				j++
				for j < len(src) && DigitValue(src[j]) >= 0 {
					fd = append(fd, DigitValue(src[j]))
					j++
				}
			}
			v, ok := NumberValue(id, fd)
			if ok {
				res.Toks = append(res.Toks, bn.Tok{Kind: bn.TNumber, Text: string(src[i:j]), Num: v, Line: line, Pos: i, End: j})
			} else {
				res.Diags = append(res.Diags, Diag{Kind: DNumberRange, Pos: i, End: j, LineLo: line, LineHi: line})
			}
			i = j
			continue
		}
		// identifier / keyword
		if isIdentStart(r) {
			j := i + 1
			for j < len(src) && isIdentPart(src[j]) {
				j++
			}
			text := string(src[i:j])
			kind := bn.TIdent
			if k, ok := bn.Keywords[text]; ok {
				kind = k
			}
			res.Toks = append(res.Toks, bn.Tok{Kind: kind, Text: text, Line: line, Pos: i, End: j})
			i = j
			continue
		}
		// operators: longest match
		best, bestKind := 0, bn.TEOF
		for _, op := range operators {
			if len(op.text) > best && hasPrefix(src, i, op.text) {
				best, bestKind = len(op.text), op.kind
			}
		}
		if best > 0 {
			res.Toks = append(res.Toks, bn.Tok{Kind: bestKind, Text: string(src[i : i+best]), Line: line, Pos: i, End: i + best})
			i += best
			continue
		}
		res.Diags = append(res.Diags, Diag{Kind: DStray, Pos: i, End: i + 1, LineLo: line, LineHi: line})
		i++
	}
	res.Toks = append(res.Toks, bn.Tok{Kind: bn.TEOF, Text: "", Line: line, Pos: len(src), End: len(src)})
	return res
}
