package main

// rules states, per property, how cases are generated and what makes one
// non-trivial / distinct (the "rule" key of the evidence).
var rules = map[string]string{}
