package main

// rules states, per property, how cases are generated and what makes one
// non-trivial / distinct (the "rule" key of the evidence).
var rules = map[string]string{
	"C01": "cases: enumerated operator adjacencies, statement-fragment sequences and accepted token sequences (distinct by construction) + rapid random trees (distinct by hash of the text). Non-trivial: the reference tree has two operators of different ladder levels in parent/child position, an assignment chain, a postfix chain >= 2, or an if nested under an if…else.",
	"C02": "cases: operator x producer matrix (distinct by construction) + rapid expressions (distinct by hash). Non-trivial: not (both operands small positive integers and a clean result) — mixed kinds, boundary magnitudes, an expected error, or an equality law.",
	"C03": "cases: decision-tree walk + rapid programs (distinct by hash of the text). Non-trivial: a read/assign happens while two live scopes bind that name, or the program ends in an undefined-name / redeclaration error.",
	"C04": "cases: matrices, templates, decision-tree walk, rapid skeletons and closure histories (distinct by hash). Non-trivial: a return placed at nesting depth >= 1 or propagated through a loop, recursion depth >= 3, >= 2 closure instances with interleaved calls, or an arity/callee-matrix case.",
	"C05": "cases: decision-tree walk + rapid skeletons (distinct by hash). Non-trivial: a break/continue whose innermost loop is nested in another construct and separated from it by an if/block, an else arm taken, or a stray signal.",
	"C06": "cases: fault x position product + rapid planted faults (distinct by hash). Non-trivial: the fault sits inside at least one enclosing construct (not top level) and the model predicts a runtime error.",
	"C07": "cases: matrices (distinct by construction) + rapid programs (distinct by hash). Non-trivial: the program applies an operator, index, property, call or built-in to a non-number or boundary magnitude (all matrix cases except nice x nice operands; every generated program).",
	"C08": "cases: fragment strings and viable-prefix extensions (distinct by construction) + rapid edited programs (distinct by hash). Non-trivial: >= 3 tokens and either rejected with the error not at the first token or accepted with >= 2 statements.",
	"C09": "cases: enumerated strings (distinct by construction) + rapid texts (distinct by hash). Non-trivial: >= 2 tokens, or a comment, string, line break or lexical error.",
	"C10": "cases: enumerated code points and literals (distinct by construction) + rapid literals (distinct by hash). Non-trivial: a digit or Bangla-block code point; a literal with a fraction or mixed scripts; every rapid literal (long, halfway, subnormal, threshold).",
	"C11": "cases: histories compiled to programs (distinct by hash). Non-trivial: >= 2 names alias one array when a write/এড/রিমুভ happens, or two এড on the same source, or a final fault.",
	"C12": "cases: histories compiled to programs (distinct by hash). Non-trivial: an object with >= 2 keys is written or deleted through one of >= 2 aliases, a literal with >= 2 keys, or a final fault.",
	"C13": "cases: programs x repetitions; a case is one program (distinct by hash). Non-trivial: the program builds, lists or prints an object with >= 2 keys or has >= 2 side-effecting initialisers.",
	"C14": "cases: context x probe-value product (distinct by construction) + rapid nestings (distinct by hash). Non-trivial: >= 2 probes, or a skipped probe.",
	"C15": "cases: enumerated boundary values and code points (distinct by construction) + rapid doubles/strings (distinct by hash). Non-trivial: a number that is not an integer below 1000, or a string that is not ASCII-only.",
	"C16": "cases: one per (context, value, producer) — the program with that producer, compared against the literal producer's program (distinct by construction; all non-trivial: the two producers are syntactically different).",
	"C17": "cases: built-in x arity x kinds matrix, permutations (distinct by construction) + rapid doubles (distinct by hash). Non-trivial: a non-integer or boundary argument, or a misuse case.",
	"C18": "cases: (seed, transformed) pairs (distinct by hash of the transformed text). Non-trivial: the transformed text differs from the seed and the seed prints something or fails.",
	"C19": "cases: CLI invocations (distinct by hash of command line / script + stdin). Non-trivial: any case other than a clean program without input.",
	"C20": "cases: sessions (enumerated: distinct by construction; random: by hash). Non-trivial: a failing line precedes a non-failing, non-empty one.",
}
