// Command driver builds the real CLI (with the verif hooks) and the checks test
// binary from /repo's current working tree, runs one property's check in one or
// more shard processes, merges their statistics into the evidence file and
// maps the result to the exit-code contract:
//
//	0  the property held on everything explored (KNOWN-FINDING lines possible)
//	1  at least one violation that the known-findings file does not list
//	   (one line "VIOLATION property=<id> replay=<path>" each)
//	2  harness trouble / inconclusive (build failure, deadline, worker death)
package main

import (
	"bufio"
	"bytes"
	"encoding/json"
	"fmt"
	"os"
	"os/exec"
	"path/filepath"
	"sort"
	"strconv"
	"strings"
	"sync"
	"time"

	"verifharness/ev"
)

type spec struct {
	quickShards, thoroughShards int
	quickDeadline, thoroughDeadline time.Duration
	rule     string
	assume   []string
}

var commonAssume = []string{
	"Go standard library (unicode tables, math, math/big, strconv for reading numerals back) and golang.org/x/text/unicode/norm are correct",
	"the harness's reference lexer/parser/evaluator (written from the property statements and grammer.txt) state the intended behaviour; where the properties are silent they assert nothing",
	"the verif build-tag hooks (batch mode calling the unmodified run() of main.go; step/depth budget) do not change program behaviour below the budget",
}

var specs = map[string]spec{}

func fatal(code int, format string, a ...interface{}) {
	fmt.Fprintf(os.Stderr, "check: "+format+"\n", a...)
	os.Exit(code)
}

func main() {
	if len(os.Args) < 3 {
		fatal(2, "usage: driver <ID> <quick|thorough> [--replay <file>]")
	}
	id, tier := os.Args[1], os.Args[2]
	replay := ""
	for i := 3; i < len(os.Args); i++ {
		if os.Args[i] == "--replay" && i+1 < len(os.Args) {
			replay, _ = filepath.Abs(os.Args[i+1])
			i++
		}
	}
	if tier != "quick" && tier != "thorough" {
		fatal(2, "tier must be quick or thorough")
	}
	root := os.Getenv("VERIF_ROOT")
	if root == "" {
		root = "/verif"
	}
	repo := os.Getenv("VERIF_REPO")
	if repo == "" {
		repo = "/repo"
	}
	seed, _ := strconv.ParseUint(os.Getenv("VERIF_SEED"), 10, 64)
	if seed == 0 {
		seed = 1
	}
	start := time.Now()

	tmpBase := os.Getenv("VERIF_TMP")
	if tmpBase == "" {
		tmpBase = os.TempDir()
	}
	scratch, err := os.MkdirTemp(tmpBase, "verif-"+id+"-")
	if err != nil {
		fatal(2, "mktemp: %v", err)
	}
	keep := os.Getenv("VERIF_KEEP") != ""
	defer func() {
		if !keep {
			os.RemoveAll(scratch)
		}
	}()
	exit := func(code int) {
		if !keep {
			os.RemoveAll(scratch)
		}
		os.Exit(code)
	}

	goEnv := append(os.Environ(), "GOPROXY=off", "GOSUMDB=off", "GOTOOLCHAIN=local")
	// 1. the real CLI, from /repo's working tree, hooks on
	bin := filepath.Join(scratch, "borno")
	{
		cmd := exec.Command("go", "build", "-tags", "verif", "-o", bin, ".")
		cmd.Dir = repo
		cmd.Env = append(goEnv, "GOFLAGS=-mod=readonly")
		if out, err := cmd.CombinedOutput(); err != nil {
			fmt.Fprintf(os.Stderr, "%s", out)
			fmt.Println("INCONCLUSIVE: cannot build /repo with -tags verif")
			exit(2)
		}
	}
	// 2. the checks binary (imports /repo's packages through the replace directive)
	testBin := filepath.Join(scratch, "checks.test")
	{
		cmd := exec.Command("go", "test", "-c", "-tags", "verif", "-o", testBin, "./checks")
		cmd.Dir = filepath.Join(root, "harness")
		cmd.Env = append(goEnv, "GOFLAGS=-mod=mod")
		if out, err := cmd.CombinedOutput(); err != nil {
			fmt.Fprintf(os.Stderr, "%s", out)
			fmt.Println("INCONCLUSIVE: cannot build the harness against /repo")
			exit(2)
		}
	}

	shards := 4
	deadline := 12 * time.Minute
	if tier == "thorough" {
		shards = 16
		deadline = 90 * time.Minute
	}
	if v, err := strconv.Atoi(os.Getenv("VERIF_SHARDS")); err == nil && v > 0 {
		shards = v
	}
	if v, err := time.ParseDuration(os.Getenv("VERIF_DEADLINE")); err == nil {
		deadline = v
	}
	if replay != "" {
		shards = 1
	}

	type shardRes struct {
		out      []byte
		err      error
		timedOut bool
	}
	results := make([]shardRes, shards)
	var wg sync.WaitGroup
	for i := 0; i < shards; i++ {
		wg.Add(1)
		go func(i int) {
			defer wg.Done()
			cmd := exec.Command(testBin, "-test.run", "^Test"+id+"$", "-test.timeout", "0", "-test.v")
			cmd.Dir = scratch
			cmd.Env = append(os.Environ(),
				"VERIF_ID="+id, "VERIF_TIER="+tier, "VERIF_SEED="+strconv.FormatUint(seed, 10),
				"VERIF_SHARD="+strconv.Itoa(i), "VERIF_NSHARDS="+strconv.Itoa(shards),
				"VERIF_SCRATCH="+scratch, "VERIF_BIN="+bin, "VERIF_ROOT="+root, "VERIF_REPLAY="+replay, "VERIF_REPO="+repo,
				"VERIF_SOFT_DEADLINE="+(deadline*8/10).String(),
				"GOMAXPROCS=2")
			var buf bytes.Buffer
			cmd.Stdout, cmd.Stderr = &buf, &buf
			if err := cmd.Start(); err != nil {
				results[i] = shardRes{nil, err, false}
				return
			}
			done := make(chan error, 1)
			go func() { done <- cmd.Wait() }()
			select {
			case err := <-done:
				results[i] = shardRes{buf.Bytes(), err, false}
			case <-time.After(deadline):
				cmd.Process.Kill()
				<-done
				results[i] = shardRes{buf.Bytes(), fmt.Errorf("deadline"), true}
			}
		}(i)
	}
	wg.Wait()

	// 3. collect
	merged := ev.New()
	harnessTrouble := []string{}
	anyFail := false
	for i, r := range results {
		logPath := filepath.Join(scratch, fmt.Sprintf("shard-%d.log", i))
		os.WriteFile(logPath, r.out, 0o644)
		sc := bufio.NewScanner(bytes.NewReader(r.out))
		sc.Buffer(make([]byte, 1<<20), 1<<24)
		for sc.Scan() {
			ln := sc.Text()
			if strings.HasPrefix(ln, "KNOWN-FINDING:") || strings.HasPrefix(ln, "NOTE:") {
				fmt.Println(ln)
			}
		}
		if r.timedOut {
			harnessTrouble = append(harnessTrouble, fmt.Sprintf("shard %d hit the %v deadline", i, deadline))
		} else if r.err != nil {
			anyFail = true
		}
		c, err := ev.Load(filepath.Join(scratch, fmt.Sprintf("ev-%d.json", i)), filepath.Join(scratch, fmt.Sprintf("ev-%d.hash", i)))
		if err != nil {
			harnessTrouble = append(harnessTrouble, fmt.Sprintf("shard %d wrote no statistics (%v)", i, err))
			continue
		}
		merged.Merge(c)
	}
	if hs, _ := filepath.Glob(filepath.Join(scratch, "harness-*.txt")); len(hs) > 0 {
		for _, h := range hs {
			b, _ := os.ReadFile(h)
			harnessTrouble = append(harnessTrouble, strings.TrimSpace(string(b)))
		}
	}

	// 4. violations
	viols, _ := filepath.Glob(filepath.Join(scratch, "viol-*.json"))
	sort.Strings(viols)
	type vrec struct {
		path string
		rp   map[string]interface{}
	}
	seenSig := map[string]bool{}
	nViol := 0
	for _, v := range viols {
		b, err := os.ReadFile(v)
		if err != nil {
			continue
		}
		var rp map[string]interface{}
		if json.Unmarshal(b, &rp) != nil {
			continue
		}
		sig := fmt.Sprint(rp["check"]) + "/" + fmt.Sprint(rp["sig"])
		if seenSig[sig] {
			continue
		}
		seenSig[sig] = true
		nViol++
		dstDir := filepath.Join(root, "found", id)
		os.MkdirAll(dstDir, 0o755)
		dst := filepath.Join(dstDir, fmt.Sprintf("%s-%016x.json", sanitize(sig), ev.Hash(string(b))))
		os.WriteFile(dst, b, 0o644)
		fmt.Printf("VIOLATION property=%s replay=%s\n", id, dst)
		if note, ok := rp["note"].(string); ok && note != "" {
			fmt.Printf("  check=%v sig=%v: %s\n", rp["check"], rp["sig"], clip(note, 300))
		} else {
			fmt.Printf("  check=%v sig=%v\n", rp["check"], rp["sig"])
		}
	}
	if anyFail && nViol == 0 && len(harnessTrouble) == 0 {
		// a shard failed without recording a violation: harness trouble
		for i, r := range results {
			if r.err != nil {
				harnessTrouble = append(harnessTrouble, fmt.Sprintf("shard %d failed without a recorded violation:\n%s", i, tail(string(r.out), 3000)))
				break
			}
		}
	}

	// 4b. native coverage-guided fuzzing (thorough tier of C07, C08, C09)
	if target, ok := fuzzTargets[id]; ok && tier == "thorough" && replay == "" && nViol == 0 {
		execs, crashText, trouble := runNativeFuzz(root, scratch, goEnv, target)
		merged.FuzzExecs += execs
		merged.Note(fmt.Sprintf("native go fuzzing of %s: %d executions", target, execs))
		if trouble != "" {
			harnessTrouble = append(harnessTrouble, trouble)
		}
		if crashText != nil {
			nViol++
			rp := map[string]interface{}{"property": id, "check": fuzzReplayCheck[id], "sig": "native-fuzz", "source": *crashText, "note": "found by native coverage-guided fuzzing (" + target + ")", "expected": "", "observed": "", "seed": seed}
			b, _ := json.MarshalIndent(rp, "", " ")
			dstDir := filepath.Join(root, "found", id)
			os.MkdirAll(dstDir, 0o755)
			dst := filepath.Join(dstDir, fmt.Sprintf("native-fuzz-%016x.json", ev.Hash(*crashText)))
			os.WriteFile(dst, b, 0o644)
			fmt.Printf("VIOLATION property=%s replay=%s\n  found by native fuzzing: %q\n", id, dst, clip(*crashText, 200))
		}
	}

	// 5. evidence
	if replay == "" {
		writeEvidence(root, id, tier, seed, merged, nViol, time.Since(start).Seconds(), shards, harnessTrouble)
	}

	fmt.Printf("check %s %s: evaluations=%d distinct_nontrivial=%d violations=%d rapid=%d/%d wall=%.1fs\n", id, tier, merged.Evaluations, merged.DistinctNT(), nViol, merged.RapidPassed, merged.RapidAsked, time.Since(start).Seconds())
	if nViol > 0 {
		if keep {
			fmt.Println("scratch kept at", scratch)
		}
		exit(1)
	}
	if len(harnessTrouble) > 0 {
		for _, h := range harnessTrouble {
			fmt.Println("INCONCLUSIVE:", h)
		}
		if keep {
			fmt.Println("scratch kept at", scratch)
		}
		exit(2)
	}
	exit(0)
}

var fuzzTargets = map[string]string{"C07": "FuzzC07Interp", "C08": "FuzzC08Front", "C09": "FuzzC09Lex"}
var fuzzReplayCheck = map[string]string{"C07": "crash", "C08": "text", "C09": "lex"}

// runNativeFuzz runs `go test -fuzz` for one target under a time budget.  It
// returns the number of executions, the crashing input (if any) and a
// description of harness trouble (if any).
func runNativeFuzz(root, scratch string, goEnv []string, target string) (int64, *string, string) {
	fuzztime := os.Getenv("VERIF_FUZZTIME")
	if fuzztime == "" {
		fuzztime = "120s"
	}
	dir := filepath.Join(root, "harness")
	corpus := filepath.Join(dir, "checks", "testdata", "fuzz", target)
	before := map[string]bool{}
	if es, err := os.ReadDir(corpus); err == nil {
		for _, e := range es {
			before[e.Name()] = true
		}
	}
	cmd := exec.Command("go", "test", "-tags", "verif", "-run", "^$", "-fuzz", "^"+target+"$", "-fuzztime", fuzztime, "./checks", "-test.fuzzcachedir", filepath.Join(scratch, "fuzzcache"))
	cmd.Dir = dir
	cmd.Env = append(goEnv, "GOFLAGS=-mod=mod")
	out, err := cmd.CombinedOutput()
	os.WriteFile(filepath.Join(scratch, "fuzz.log"), out, 0o644)
	var execs int64
	for _, ln := range strings.Split(string(out), "\n") {
		if i := strings.Index(ln, "execs: "); i >= 0 {
			var n int64
			fmt.Sscanf(ln[i+len("execs: "):], "%d", &n)
			if n > execs {
				execs = n
			}
		}
	}
	if err == nil {
		return execs, nil, ""
	}
	// a crasher is written to testdata/fuzz/<target>/<hash>; move it out of the tree
	var crash *string
	if es, rerr := os.ReadDir(corpus); rerr == nil {
		for _, e := range es {
			if before[e.Name()] {
				continue
			}
			p := filepath.Join(corpus, e.Name())
			b, _ := os.ReadFile(p)
			os.Remove(p)
			lines := strings.SplitN(string(b), "\n", 3)
			if len(lines) >= 2 && strings.HasPrefix(lines[1], "string(") {
				lit := strings.TrimSuffix(strings.TrimPrefix(strings.TrimSpace(lines[1]), "string("), ")")
				if v, uerr := strconv.Unquote(lit); uerr == nil {
					crash = &v
				}
			}
		}
		if rest, _ := os.ReadDir(corpus); len(rest) == 0 {
			os.Remove(corpus)
		}
	}
	if crash != nil {
		return execs, crash, ""
	}
	return execs, nil, "native fuzzing failed without a crasher file:\n" + tail(string(out), 1500)
}

func sanitize(s string) string {
	return strings.Map(func(r rune) rune {
		if r >= 'a' && r <= 'z' || r >= 'A' && r <= 'Z' || r >= '0' && r <= '9' || r == '-' || r == '_' {
			return r
		}
		return '_'
	}, s)
}

func clip(s string, n int) string {
	if len(s) > n {
		return s[:n] + "…"
	}
	return s
}

func tail(s string, n int) string {
	if len(s) > n {
		return "…" + s[len(s)-n:]
	}
	return s
}

func writeEvidence(root, id, tier string, seed uint64, c *ev.Collector, nViol int, wall float64, shards int, trouble []string) {
	c.TrimSamples(12)
	samples := []interface{}{}
	for _, s := range c.Samples {
		samples = append(samples, map[string]string{"subcheck": s.Sub, "case": s.Case})
	}
	if len(samples) == 0 {
		samples = append(samples, "no case executed")
	}
	rule := rules[id]
	cov := map[string]interface{}{
		"evaluations":             c.Evaluations,
		"distinct_nontrivial":     c.DistinctNT(),
		"rule":                    rule,
		"samples":                 samples,
		"exhaustive":              len(c.Exhaustive) > 0 && c.RapidAsked == 0,
		"exhaustive_subspaces":    c.Exhaustive,
		"class_histogram":         c.Classes,
		"subcheck_cases":          c.SubChecks,
		"discards":                c.Discards,
		"excluded_known_findings": c.Excluded,
		"cli_crosschecks":         c.CLICross,
		"rapid_cases_requested":   c.RapidAsked,
		"rapid_cases_passed":      c.RapidPassed,
		"fuzz_execs":              c.FuzzExecs,
		"shards":                  shards,
		"notes":                   c.Notes,
		"inconclusive":            trouble,
	}
	evd := map[string]interface{}{
		"property_id": id,
		"tier":        tier,
		"seed":        seed,
		"level":       "exploration",
		"coverage":    cov,
		"assumptions": commonAssume,
		"wall_s":      wall,
		"violations":  nViol,
	}
	b, _ := json.MarshalIndent(evd, "", " ")
	os.MkdirAll(filepath.Join(root, "evidence"), 0o755)
	os.WriteFile(filepath.Join(root, "evidence", id+".json"), append(b, '\n'), 0o644)
}
