// adhoc: run the reference front end and the reference evaluator on Borno
// files and, when -bin is given, the real executable too; print both and the
// verdict of the output comparator.  A development aid, not a registered check.
package main

import (
	"flag"
	"fmt"
	"os"
	"os/exec"
	"strings"

	"verifharness/model"
	"verifharness/reflex"
	"verifharness/refparse"
)

func main() {
	bin := flag.String("bin", "", "borno executable")
	stdin := flag.String("stdin", "", "stdin text")
	flag.Parse()
	for _, f := range flag.Args() {
		src, err := os.ReadFile(f)
		if err != nil {
			fmt.Println(err)
			continue
		}
		fmt.Printf("=== %s\n", f)
		lx := reflex.Lex([]rune(string(src)))
		if len(lx.Diags) > 0 {
			fmt.Printf("reference lexer: %d diagnostics, first: %+v\n", len(lx.Diags), lx.Diags[0])
		}
		var res *model.Result
		if len(lx.Diags) == 0 {
			rp := refparse.Parse(lx.Toks)
			if !rp.OK {
				fmt.Printf("reference parser: rejected (%+v)\n", rp)
			} else {
				opt := model.Options{MaxSteps: 2000000}
				if *stdin != "" {
					opt.Stdin = strings.Split(strings.TrimSuffix(*stdin, "\n"), "\n")
				}
				res = model.Run(rp.Prog, opt)
				fmt.Printf("model: outcome=%s kind=%s line=%d why=%q\nexpected output:\n%s\n", res.Outcome, res.ErrKind, res.ErrLine, res.Why, model.ExpectedText(res))
			}
		}
		if *bin != "" {
			cmd := exec.Command(*bin, f)
			cmd.Stdin = strings.NewReader(*stdin)
			var so, se strings.Builder
			cmd.Stdout, cmd.Stderr = &so, &se
			err := cmd.Run()
			fmt.Printf("real: err=%v\nstdout:\n%s\nstderr:\n%s\n", err, so.String(), se.String())
			if res != nil && (res.Outcome == model.OK || res.Outcome == model.RuntimeError) {
				ok, why := model.CompareStdout(res, so.String())
				fmt.Printf("comparator: ok=%v %s\n", ok, why)
			}
		}
	}
}
