package model

import (
	"math"
	"math/big"
	"strings"

	"verifharness/bn"
)

func (in *interp) call(e *bn.Call, env *Env) Value {
	callee := in.eval(e.Callee, env)
	switch callee.K {
	case KOpaque:
		in.unspecified("calling an undetermined value")
	case KFun:
		f := callee.F
		// every argument is evaluated, left to right, before the call is attempted (C14): a wrong count is
		// found when the call is made
		args := make([]Value, len(e.Args))
		for i, a := range e.Args {
			args[i] = in.eval(a, env)
		}
		if len(e.Args) != len(f.Decl.Params) {
			panic(rtErr{kind: EArity, line: e.Line, counts: [2]int{len(f.Decl.Params), len(e.Args)}})
		}
		return in.invoke(f, args)
	case KBuiltin:
		return in.builtin(callee.Bi, e, env)
	}
	for _, a := range e.Args {
		in.eval(a, env)
	}
	in.fail(ENotCallable, e.Line, "")
	return NilV()
}

func (in *interp) invoke(f *Closure, args []Value) Value {
	in.depth++
	if in.depth > in.res.MaxDepth {
		in.res.MaxDepth = in.depth
	}
	if in.depth > in.opt.MaxDepth {
		panic(overBudget{"call depth"})
	}
	defer func() { in.depth-- }()
	act := in.newEnv(f.Env)
	// the function can refer to itself by name inside its body
	self := Value{K: KFun, F: f}
	act.Vars[f.Decl.Name] = &self
	act.SelfName = f.Decl.Name
	for _, p := range f.Decl.Params {
		if p == f.Decl.Name {
			act.SelfName = "" // a parameter of that name simply shadows it
		}
	}
	for i, p := range f.Decl.Params {
		v := args[i]
		act.Vars[p] = &v
	}
	in.loops = append(in.loops, 0)
	defer func() { in.loops = in.loops[:len(in.loops)-1] }()
	in.tag("call")
	if in.depth >= 3 {
		in.tag("recursion-depth-3")
	}
	for _, s := range f.Decl.Body {
		if v, ok := s.(*bn.Var); ok && v.Name == f.Decl.Name {
			in.unspecified("a local declaration named like the enclosing function")
		}
		sig := in.exec(s, act)
		if sig == sigReturn {
			return in.retVal
		}
		if sig != sigNone {
			// a break/continue that no loop of this activation encloses is as stray as one at top level
			in.fail(EStray, in.ctlLine, in.ctlWord)
		}
	}
	return NilV()
}

// builtin arities: fixed counts are enforced before the arguments are evaluated.
var fixedArity = map[string]int{
	bn.BClock: 0, bn.BLen: 1, bn.BRemove: 2, bn.BDelKey: 2, bn.BKeys: 1, bn.BValues: 1,
	bn.BAbs: 1, bn.BSqrt: 1, bn.BPow: 2, bn.BSin: 1, bn.BCos: 1, bn.BTan: 1, bn.BRound: 1,
}

func (in *interp) builtin(name string, e *bn.Call, env *Env) Value {
	line := e.Line
	n := len(e.Args)
	bad := false // wrong number of arguments
	if want, ok := fixedArity[name]; ok {
		bad = n != want
	} else {
		switch name {
		case bn.BPush:
			bad = n < 2
		case bn.BMin, bn.BMax:
			bad = n < 1
		case bn.BInput:
			bad = n > 1
		}
	}
	args := make([]Value, n)
	for i, a := range e.Args {
		args[i] = in.eval(a, env)
	}
	if bad {
		// wrong count (found once the arguments have been evaluated): the diagnostic kind may be the generic
		// arity one or the built-in's own
		panic(rtErr{kind: EBuiltin, line: line, name: "count"})
	}
	in.tag("builtin")
	for _, a := range args {
		if a.K == KOpaque {
			in.unspecified("built-in applied to an undetermined value")
		}
	}
	failB := func() { in.fail(EBuiltin, line, "") }
	numArg := func(v Value) float64 {
		switch v.K {
		case KNum:
			if v.Approx {
				in.unspecified("built-in on a value known only approximately")
			}
			if v.IsInt {
				if v.I > 1<<53 || v.I < -(1<<53) {
					in.unspecified("an integer beyond 2^53 entering a math built-in")
				}
				return float64(v.I)
			}
			return v.N
		case KStr:
			if v.Fuzzy || NumericLooking(v.S) {
				in.unspecified("numeric-looking string passed to a math built-in")
			}
		}
		failB()
		return 0
	}
	switch name {
	case bn.BClock:
		return OpaqueV()
	case bn.BLen:
		if args[0].K != KArr {
			failB()
		}
		return NumV(float64(len(args[0].A.Elems)))
	case bn.BPush:
		if args[0].K != KArr {
			failB()
		}
		in.nextID++
		arr := &Array{ID: in.nextID, OrderFree: args[0].A.OrderFree}
		arr.Elems = append(append([]Value{}, args[0].A.Elems...), args[1:]...)
		in.tag("push")
		return Value{K: KArr, A: arr}
	case bn.BRemove:
		if args[0].K != KArr {
			failB()
		}
		src := args[0].A
		idx := func() (k int) {
			defer func() {
				if r := recover(); r != nil {
					if re, ok := r.(rtErr); ok {
						re.kind = EBuiltin
						panic(re)
					}
					panic(r)
				}
			}()
			return in.index(args[1], len(src.Elems), line)
		}()
		if src.OrderFree && len(src.Elems) > 1 {
			in.unspecified("removing by position from a listing whose order is not determined")
		}
		in.nextID++
		arr := &Array{ID: in.nextID}
		arr.Elems = append(append([]Value{}, src.Elems[:idx]...), src.Elems[idx+1:]...)
		in.tag("remove")
		return Value{K: KArr, A: arr}
	case bn.BDelKey:
		if args[0].K != KObj || args[1].K != KStr {
			failB()
		}
		if args[1].Fuzzy {
			in.unspecified("key with an unpinned number rendering")
		}
		if _, ok := args[0].O.M[args[1].S]; !ok {
			failB()
		}
		delete(args[0].O.M, args[1].S)
		in.tag("delete-key")
		return OpaqueV()
	case bn.BKeys, bn.BValues:
		if args[0].K != KObj {
			failB()
		}
		in.nextID++
		arr := &Array{ID: in.nextID, OrderFree: true}
		keys := sortedKeys(args[0].O.M)
		for _, k := range keys {
			if name == bn.BKeys {
				arr.Elems = append(arr.Elems, StrV(k))
			} else {
				arr.Elems = append(arr.Elems, args[0].O.M[k])
			}
		}
		in.tag("listing")
		return Value{K: KArr, A: arr}
	case bn.BAbs:
		return NumV(math.Float64frombits(math.Float64bits(numArg(args[0])) &^ (1 << 63)))
	case bn.BSqrt:
		return NumV(ExactSqrt(numArg(args[0])))
	case bn.BRound:
		return NumV(ExactRound(numArg(args[0])))
	case bn.BPow:
		a, b := numArg(args[0]), numArg(args[1])
		v, exact := ExactPow(a, b)
		return Value{K: KNum, N: v, Approx: !exact}
	case bn.BSin:
		return Value{K: KNum, N: math.Sin(numArg(args[0])), Approx: true}
	case bn.BCos:
		return Value{K: KNum, N: math.Cos(numArg(args[0])), Approx: true}
	case bn.BTan:
		return Value{K: KNum, N: math.Tan(numArg(args[0])), Approx: true}
	case bn.BMin, bn.BMax:
		list := args
		if n == 1 && args[0].K == KArr {
			if args[0].A.OrderFree {
				// order does not matter for min/max
			}
			list = args[0].A.Elems
		}
		if len(list) == 0 {
			failB()
		}
		var best float64
		for i, v := range list {
			if v.K == KOpaque {
				in.unspecified("min/max of an undetermined value")
			}
			f := numArg(v)
			if math.IsNaN(f) {
				in.unspecified("min/max with NaN")
			}
			if i == 0 {
				best = f
				continue
			}
			if f == 0 && best == 0 && math.Signbit(f) != math.Signbit(best) {
				in.unspecified("min/max of zeros of different sign")
			}
			if name == bn.BMin && f < best || name == bn.BMax && f > best {
				best = f
			}
		}
		return NumV(best)
	case bn.BInput:
		if n == 1 {
			if args[0].K != KStr {
				failB()
			}
			if args[0].Fuzzy {
				in.res.Out = append(in.res.Out, Rec{Kind: RAny})
				in.unspecified("prompt with an unpinned number rendering")
			}
			in.res.Out = append(in.res.Out, Rec{Kind: RPrompt, Text: args[0].S})
		}
		if len(in.stdin) == 0 {
			in.unspecified("ইনপুট at end of input")
		}
		ln := in.stdin[0]
		in.stdin = in.stdin[1:]
		in.res.InputUsed++
		in.tag("input")
		return StrV(strings.Trim(ln, " \t\r"))
	}
	panic("model: builtin " + name)
}

func sortedKeys(m map[string]Value) []string {
	keys := make([]string, 0, len(m))
	for k := range m {
		keys = append(keys, k)
	}
	// insertion sort (small)
	for i := 1; i < len(keys); i++ {
		for j := i; j > 0 && keys[j] < keys[j-1]; j-- {
			keys[j], keys[j-1] = keys[j-1], keys[j]
		}
	}
	return keys
}

// ExactRound rounds half away from zero, computed over exact rationals.
func ExactRound(x float64) float64 {
	if math.IsNaN(x) || math.IsInf(x, 0) || x == 0 {
		return x
	}
	if math.Abs(x) >= 1<<52 {
		return x // already integral
	}
	r := new(big.Rat).SetFloat64(x)
	neg := r.Sign() < 0
	if neg {
		r.Neg(r)
	}
	r.Add(r, big.NewRat(1, 2))
	fl := new(big.Int).Quo(r.Num(), r.Denom()) // floor for non-negative
	f, _ := new(big.Float).SetInt(fl).Float64()
	if neg {
		f = -f
		if f == 0 {
			f = math.Copysign(0, -1)
		}
	}
	return f
}

// ExactSqrt returns the correctly rounded square root, verified with big.Float
// against the neighbours of the candidate.
func ExactSqrt(x float64) float64 {
	if math.IsNaN(x) || x < 0 {
		return math.NaN()
	}
	if x == 0 || math.IsInf(x, 1) {
		return x
	}
	c := math.Sqrt(x)
	bx := new(big.Float).SetPrec(200).SetFloat64(x)
	// choose among c-1ulp, c, c+1ulp the one whose square is nearest to x,
	// i.e. the one for which x lies between the squares of the midpoints
	best := c
	for _, cand := range []float64{math.Nextafter(c, 0), c, math.Nextafter(c, math.Inf(1))} {
		lo := new(big.Float).SetPrec(200).SetFloat64(cand)
		loN := new(big.Float).SetPrec(200).SetFloat64(math.Nextafter(cand, 0))
		hiN := new(big.Float).SetPrec(200).SetFloat64(math.Nextafter(cand, math.Inf(1)))
		mLo := new(big.Float).SetPrec(200).Add(lo, loN)
		mLo.Quo(mLo, big.NewFloat(2))
		mHi := new(big.Float).SetPrec(200).Add(lo, hiN)
		mHi.Quo(mHi, big.NewFloat(2))
		sLo := new(big.Float).SetPrec(400).Mul(mLo, mLo)
		sHi := new(big.Float).SetPrec(400).Mul(mHi, mHi)
		if sLo.Cmp(bx) <= 0 && bx.Cmp(sHi) <= 0 {
			best = cand
			break
		}
	}
	return best
}
