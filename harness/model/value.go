// Package model is the reference evaluator: Borno's semantics as the
// properties state them (scopes C03, calls/closures C04, control flow C05,
// first error stops everything C06, operators C02, evaluation order C14,
// arrays C11, objects C12, math built-ins C17, input C19).  It is three-valued:
// where the properties are silent it stops with outcome Unspecified and the
// comparison asserts nothing beyond that point.
package model

import (
	"fmt"
	"math"
	"sort"
	"strings"

	"golang.org/x/text/unicode/norm"

	"verifharness/bn"
)

type Kind int

const (
	KNil Kind = iota
	KBool
	KNum
	KStr
	KArr
	KObj
	KFun
	KBuiltin
	KOpaque // a value the properties do not determine (e.g. clock, return of কি_রিমুভ)
)

func (k Kind) String() string {
	return [...]string{"nil", "bool", "number", "string", "array", "object", "function", "builtin", "opaque"}[k]
}

// Value is a runtime value of the model.
type Value struct {
	K Kind
	B bool
	N float64
	// IsInt: the number is the exact 64-bit result of a bitwise operator.
	IsInt bool
	I     int64
	// Approx: the number is known only to within Ulps units in the last place
	// (pow, sin, cos, tan).
	Approx bool
	S      string
	// Fuzzy: the string contains a number rendering whose spelling the
	// properties do not pin.
	Fuzzy bool
	A     *Array
	O     *Object
	F     *Closure
	Bi    string
}

type Array struct {
	Elems []Value
	// OrderFree: a key/value listing whose order the properties leave open.
	OrderFree bool
	ID        int
}

type Object struct {
	M  map[string]Value
	ID int
}

type Closure struct {
	Decl *bn.Func
	Env  *Env
	ID   int
}

func NilV() Value            { return Value{K: KNil} }
func BoolV(b bool) Value     { return Value{K: KBool, B: b} }
func NumV(f float64) Value   { return Value{K: KNum, N: f} }
func IntV(i int64) Value     { return Value{K: KNum, N: float64(i), IsInt: true, I: i} }
func StrV(s string) Value    { return Value{K: KStr, S: s} }
func OpaqueV() Value         { return Value{K: KOpaque} }

// Truthy: nil, false, 0 and the empty string are falsy; everything else —
// including empty arrays and objects, functions and NaN — is truthy.
func Truthy(v Value) bool {
	switch v.K {
	case KNil:
		return false
	case KBool:
		return v.B
	case KNum:
		if v.IsInt {
			return v.I != 0
		}
		return v.N != 0 // NaN != 0 is true
	case KStr:
		return v.S != ""
	}
	return true
}

// SmallInt reports whether the number is an integer of magnitude below one
// million (whose printed text C15 pins exactly) and returns that text.
func SmallInt(v Value) (string, bool) {
	if v.K != KNum || v.Approx {
		return "", false
	}
	f := v.N
	if v.IsInt {
		f = float64(v.I)
	}
	if f != math.Trunc(f) || math.Abs(f) >= 1e6 {
		return "", false
	}
	if f == 0 && math.Signbit(f) {
		return "", false // -0: sign spelling not pinned
	}
	return fmt.Sprintf("%d", int64(f)), true
}

// Env is one scope.
type Env struct {
	Vars   map[string]*Value
	Parent *Env
	ID     int
	// SelfName: for a call activation, the name under which the function can refer to itself
	SelfName string
}

func (e *Env) lookup(name string) (*Value, *Env) {
	for s := e; s != nil; s = s.Parent {
		if v, ok := s.Vars[name]; ok {
			return v, s
		}
	}
	return nil, nil
}

// RecKind of an expected output record.
type RecKind int

const (
	RText      RecKind = iota // exact text + newline
	RPrompt                   // exact text, no newline
	RNumber                   // a numeral that reads back to Num (tolerance Ulps; exact integer when IsInt)
	RContainer                // tolerant token sequence / multiset
	RAny                      // one line whose content is not asserted
)

// Rec is one expected piece of stdout.
type Rec struct {
	Kind   RecKind
	Text   string
	Num    Value
	Tokens []string // flattened scalar renderings of a container
	Bag    bool     // compare Tokens as a multiset (objects / order-free listings inside)
}

// Flatten renders a container value into the sequence of its scalar tokens.
// ok=false if it contains something whose rendering is not comparable
// (functions, opaque values, fuzzy strings, self reference).
func Flatten(v Value) (toks []string, bag bool, ok bool) {
	ok = true
	seen := map[interface{}]bool{}
	var rec func(v Value)
	rec = func(v Value) {
		switch v.K {
		case KNil:
			toks = append(toks, "nil")
		case KBool:
			if v.B {
				toks = append(toks, "true")
			} else {
				toks = append(toks, "false")
			}
		case KNum:
			if t, small := SmallInt(v); small {
				toks = append(toks, t)
			} else if v.Approx {
				ok = false
			} else if v.IsInt {
				toks = append(toks, fmt.Sprintf("#i%d", v.I))
			} else {
				toks = append(toks, fmt.Sprintf("#f%x", math.Float64bits(v.N)))
			}
		case KStr:
			if v.Fuzzy || v.S == "" || strings.ContainsAny(v.S, " \t\n[]{}(),:") {
				ok = false
			}
			toks = append(toks, norm.NFC.String(v.S))
		case KArr:
			if seen[v.A] {
				ok = false
				return
			}
			seen[v.A] = true
			if v.A.OrderFree && len(v.A.Elems) > 1 {
				bag = true
			}
			for _, e := range v.A.Elems {
				rec(e)
			}
			delete(seen, v.A)
		case KObj:
			if seen[v.O] {
				ok = false
				return
			}
			seen[v.O] = true
			if len(v.O.M) > 1 {
				bag = true
			}
			keys := make([]string, 0, len(v.O.M))
			for k := range v.O.M {
				keys = append(keys, k)
			}
			sort.Strings(keys)
			for _, k := range keys {
				toks = append(toks, norm.NFC.String(k))
				rec(v.O.M[k])
			}
			delete(seen, v.O)
		default:
			ok = false
		}
	}
	rec(v)
	return
}
