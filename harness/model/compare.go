package model

import (
	"fmt"
	"math"
	"math/big"
	"sort"
	"strconv"
	"strings"
)

// ulpDist is the distance in units in the last place between two finite doubles.
func ulpDist(a, b float64) uint64 {
	ia, ib := int64(math.Float64bits(a)), int64(math.Float64bits(b))
	if ia < 0 {
		ia = math.MinInt64 - ia
	}
	if ib < 0 {
		ib = math.MinInt64 - ib
	}
	d := ia - ib
	if d < 0 {
		d = -d
	}
	return uint64(d)
}

// NumberMatches reports whether the printed text denotes the expected number.
func NumberMatches(text string, want Value) bool {
	text = strings.TrimSpace(text)
	if want.IsInt {
		if want.I > 1<<53 || want.I < -(1<<53) {
			if r, ok := new(big.Rat).SetString(text); ok && r.IsInt() && r.Num().Cmp(big.NewInt(want.I)) == 0 {
				return true
			}
			// an integer that a double holds exactly may also be written as a
			// numeral that reads back to that double
			f := float64(want.I)
			if new(big.Float).SetInt64(want.I).Cmp(new(big.Float).SetFloat64(f)) != 0 {
				return false
			}
		}
		want = NumV(float64(want.I))
	}
	if math.IsNaN(want.N) || math.IsInf(want.N, 0) {
		// the spelling of non-finite values is not asserted, but the text must
		// not denote a finite number, and a recognisable non-finite spelling
		// must be of the right class
		if text == "" {
			return false
		}
		got, err := strconv.ParseFloat(text, 64)
		if err != nil {
			return true
		}
		if math.IsNaN(want.N) {
			return math.IsNaN(got)
		}
		return math.IsInf(got, 0) && math.Signbit(got) == math.Signbit(want.N)
	}
	got, err := strconv.ParseFloat(text, 64)
	if err != nil {
		return false
	}
	if want.Approx {
		if math.IsNaN(got) || math.IsInf(got, 0) {
			return false
		}
		return ulpDist(got, want.N) <= 1 || (got == 0 && want.N == 0)
	}
	if got == 0 && want.N == 0 {
		return true // sign of a printed zero is not asserted here
	}
	return math.Float64bits(got) == math.Float64bits(want.N)
}

func normContainer(line string) []string {
	line = strings.ReplaceAll(line, "map[", " ")
	line = strings.Map(func(r rune) rune {
		switch r {
		case '[', ']', '{', '}', '(', ')', ',', ':':
			return ' '
		}
		return r
	}, line)
	f := strings.Fields(line)
	for i, t := range f {
		if t == "<nil>" {
			f[i] = "nil"
		}
	}
	return f
}

func tokenMatches(want, got string) bool {
	if strings.HasPrefix(want, "#i") {
		if i, err := strconv.ParseInt(want[2:], 10, 64); err == nil {
			return NumberMatches(got, IntV(i))
		}
	}
	if strings.HasPrefix(want, "#f") {
		if b, err := strconv.ParseUint(want[2:], 16, 64); err == nil {
			return NumberMatches(got, NumV(math.Float64frombits(b)))
		}
	}
	return want == got
}

func containerMatches(rec Rec, line string) bool {
	got := normContainer(line)
	want := append([]string{}, rec.Tokens...)
	if len(got) != len(want) {
		return false
	}
	if rec.Bag {
		// numbers rendered differently would break sorting; compare greedily
		used := make([]bool, len(got))
		for _, w := range want {
			found := false
			for j, g := range got {
				if !used[j] && tokenMatches(w, g) {
					used[j] = true
					found = true
					break
				}
			}
			if !found {
				return false
			}
		}
		return true
	}
	for i := range want {
		if !tokenMatches(want[i], got[i]) {
			return false
		}
	}
	return true
}

// RecText renders an expected record for messages.
func RecText(r Rec) string {
	switch r.Kind {
	case RText:
		return r.Text
	case RPrompt:
		return "<prompt " + r.Text + ">"
	case RNumber:
		if r.Num.IsInt {
			return fmt.Sprintf("<number %d>", r.Num.I)
		}
		if r.Num.Approx {
			return fmt.Sprintf("<number ≈%v>", r.Num.N)
		}
		return fmt.Sprintf("<number %v>", r.Num.N)
	case RContainer:
		t := append([]string{}, r.Tokens...)
		if r.Bag {
			sort.Strings(t)
			return "<container (any order) " + strings.Join(t, " ") + ">"
		}
		return "<container " + strings.Join(t, " ") + ">"
	}
	return "<any line>"
}

// ExpectedText renders the whole expected output for messages.
func ExpectedText(res *Result) string {
	var b strings.Builder
	for _, r := range res.Out {
		b.WriteString(RecText(r))
		if r.Kind != RPrompt {
			b.WriteByte('\n')
		}
	}
	switch res.Outcome {
	case RuntimeError:
		fmt.Fprintf(&b, "<runtime error: %s %s line %d; nothing after>", res.ErrKind, res.ErrName, res.ErrLine)
	case Unspecified:
		fmt.Fprintf(&b, "<unspecified from here: %s>", res.Why)
	case OverBudget:
		fmt.Fprintf(&b, "<model over budget: %s>", res.Why)
	}
	return b.String()
}

// CompareStdout matches actual stdout against the expected records.  When the
// model's outcome is OK or RuntimeError the whole stdout must be consumed;
// otherwise only the prefix the model determined is compared.
func CompareStdout(res *Result, stdout string) (bool, string) {
	rest := stdout
	for i, r := range res.Out {
		switch r.Kind {
		case RText:
			want := r.Text + "\n"
			if !strings.HasPrefix(rest, want) {
				return false, fmt.Sprintf("output record %d: expected %q, stdout continues with %q", i, r.Text, clip(rest, 80))
			}
			rest = rest[len(want):]
		case RPrompt:
			if !strings.HasPrefix(rest, r.Text) {
				return false, fmt.Sprintf("output record %d: expected prompt %q, stdout continues with %q", i, r.Text, clip(rest, 80))
			}
			rest = rest[len(r.Text):]
		default:
			j := strings.IndexByte(rest, '\n')
			if j < 0 {
				return false, fmt.Sprintf("output record %d (%s): stdout ends early with %q", i, RecText(r), clip(rest, 80))
			}
			line := rest[:j]
			rest = rest[j+1:]
			switch r.Kind {
			case RNumber:
				if !NumberMatches(line, r.Num) {
					return false, fmt.Sprintf("output record %d: expected %s, got %q", i, RecText(r), line)
				}
			case RContainer:
				if !containerMatches(r, line) {
					return false, fmt.Sprintf("output record %d: expected %s, got %q", i, RecText(r), line)
				}
			}
		}
	}
	if (res.Outcome == OK || res.Outcome == RuntimeError) && rest != "" {
		return false, fmt.Sprintf("stdout has extra output %q after everything the program should print", clip(rest, 120))
	}
	return true, ""
}

func clip(s string, n int) string {
	if len(s) > n {
		return s[:n] + "…"
	}
	return s
}
