package model

import (
	"fmt"
	"math"
	"math/big"
	"strconv"
	"strings"
	"unicode"

	"golang.org/x/text/unicode/norm"

	"verifharness/bn"
	"verifharness/reflex"
)

// Outcome of a model run.
type Outcome int

const (
	OK Outcome = iota
	RuntimeError
	Unspecified // the properties do not determine what happens next
	OverBudget  // the model gave up (step / depth budget)
)

func (o Outcome) String() string {
	return [...]string{"ok", "runtime-error", "unspecified", "over-budget"}[o]
}

// Error kinds (C06 kind classes).
const (
	EUndefined   = "undefined-name"
	ERedeclare   = "redeclaration"
	EType        = "type-mismatch"
	EZeroDiv     = "zero-divisor"
	EIndex       = "bad-index"
	ENotArray    = "not-an-array"
	EProperty    = "missing-property"
	ENotObject   = "not-an-object"
	ENotCallable = "non-callable"
	EArity       = "arity"
	EBuiltin     = "failing-builtin"
	EStray       = "stray-control"
	ENegShift    = "negative-shift"
	ECyclicPrint = "self-containing-print"
)

// Result is what the model predicts.
type Result struct {
	Out       []Rec
	Outcome   Outcome
	ErrKind   string
	ErrLine   int
	ErrName   string // the name the diagnostic must mention (undefined/redeclared name, missing property) or the stray keyword
	ErrCounts [2]int // arity: expected, given
	Why       string // for Unspecified / OverBudget
	Steps     int64
	MaxDepth  int
	Tags      map[string]int // events of interest (non-triviality rules, known-finding signatures)
	InputUsed int            // number of stdin lines consumed
}

type rtErr struct {
	kind, name string
	line       int
	counts     [2]int
}
type unspec struct{ why string }
type overBudget struct{ why string }

type signal int

const (
	sigNone signal = iota
	sigBreak
	sigContinue
	sigReturn
)

// Options of a run.
type Options struct {
	Stdin     []string // lines available to ইনপুট
	MaxSteps  int64
	MaxDepth  int
	Resolver  bool // track static/dynamic resolution divergence (C03 domain rule)
}

type interp struct {
	res      *Result
	opt      Options
	globals  *Env
	nextID   int
	depth    int
	loops    []int // loop nesting per activation (for stray break/continue inside functions)
	closures []*Closure
	stdin    []string
	retVal   Value
	ctlLine  int
	ctlWord  string
}

func (in *interp) tag(t string) { in.res.Tags[t]++ }

func (in *interp) fail(kind string, line int, name string) {
	panic(rtErr{kind: kind, line: line, name: name})
}
func (in *interp) unspecified(why string) { panic(unspec{why}) }

func (in *interp) newEnv(parent *Env) *Env {
	in.nextID++
	return &Env{Vars: map[string]*Value{}, Parent: parent, ID: in.nextID}
}

// Run evaluates a program.
func Run(prog []bn.Stmt, opt Options) (res *Result) {
	if opt.MaxSteps == 0 {
		opt.MaxSteps = 200000
	}
	if opt.MaxDepth == 0 {
		opt.MaxDepth = 1500
	}
	res = &Result{Tags: map[string]int{}}
	in := &interp{res: res, opt: opt, stdin: opt.Stdin}
	in.globals = in.newEnv(nil)
	for _, b := range bn.Builtins {
		v := Value{K: KBuiltin, Bi: b}
		in.globals.Vars[b] = &v
	}
	env := in.newEnv(in.globals)
	in.loops = []int{0}
	defer func() {
		if r := recover(); r != nil {
			switch e := r.(type) {
			case rtErr:
				res.Outcome, res.ErrKind, res.ErrLine, res.ErrName, res.ErrCounts = RuntimeError, e.kind, e.line, e.name, e.counts
			case unspec:
				res.Outcome, res.Why = Unspecified, e.why
			case overBudget:
				res.Outcome, res.Why = OverBudget, e.why
			default:
				panic(r)
			}
		}
	}()
	for _, s := range prog {
		sig := in.exec(s, env)
		switch sig {
		case sigBreak, sigContinue, sigReturn:
			in.fail(EStray, in.ctlLine, in.ctlWord)
		}
	}
	return res
}

// shadowTag records a use of a name that two live scopes of the chain bind.
func (in *interp) shadowTag(name string, env *Env) {
	n := 0
	for s := env; s != nil; s = s.Parent {
		if _, ok := s.Vars[name]; ok {
			n++
		}
	}
	if n >= 2 {
		in.tag("shadowed-use")
	}
}

func (in *interp) step() {
	in.res.Steps++
	if in.res.Steps > in.opt.MaxSteps {
		panic(overBudget{"steps"})
	}
}

// mentions reports whether the function body mentions identifier name.
func mentions(f *bn.Func, name string) bool {
	found := false
	var ve func(e bn.Expr)
	var vs func(s bn.Stmt)
	ve = func(e bn.Expr) {
		if e == nil || found {
			return
		}
		switch x := e.(type) {
		case *bn.Ident:
			if x.Name == name {
				found = true
			}
		case *bn.Group:
			ve(x.E)
		case *bn.Unary:
			ve(x.R)
		case *bn.Binary:
			ve(x.L)
			ve(x.R)
		case *bn.Logical:
			ve(x.L)
			ve(x.R)
		case *bn.Assign:
			if x.Name == name {
				found = true
			}
			ve(x.V)
		case *bn.IndexSet:
			ve(x.A)
			ve(x.I)
			ve(x.V)
		case *bn.PropSet:
			ve(x.O)
			ve(x.V)
		case *bn.Call:
			ve(x.Callee)
			for _, a := range x.Args {
				ve(a)
			}
		case *bn.Index:
			ve(x.A)
			ve(x.I)
		case *bn.Prop:
			ve(x.O)
		case *bn.ArrayLit:
			for _, a := range x.Elems {
				ve(a)
			}
		case *bn.ObjLit:
			for _, a := range x.Vals {
				ve(a)
			}
		}
	}
	vs = func(s bn.Stmt) {
		if s == nil || found {
			return
		}
		switch x := s.(type) {
		case *bn.ExprStmt:
			ve(x.E)
		case *bn.Print:
			ve(x.E)
		case *bn.Var:
			ve(x.Init)
		case *bn.VarList:
			for _, d := range x.Decls {
				ve(d.Init)
			}
		case *bn.Block:
			for _, y := range x.Stmts {
				vs(y)
			}
		case *bn.If:
			ve(x.C)
			vs(x.Then)
			vs(x.Else)
		case *bn.While:
			ve(x.C)
			vs(x.Body)
		case *bn.For:
			vs(x.Init)
			ve(x.Cond)
			ve(x.Incr)
			vs(x.Body)
		case *bn.Func:
			for _, y := range x.Body {
				vs(y)
			}
		case *bn.Return:
			ve(x.V)
		}
	}
	for _, s := range f.Body {
		vs(s)
	}
	return found
}

// declareCheck implements the domain rule of C03: declaring a name in a scope
// after a closure that mentions that name was created under that scope.
func (in *interp) declareCheck(name string, env *Env) {
	if !in.opt.Resolver {
		return
	}
	// the carve-out concerns a closure that would read the name from an ENCLOSING scope: if no scope around
	// env binds the name there is nothing for the two resolutions to disagree about
	outer := false
	for s := env.Parent; s != nil; s = s.Parent {
		if _, ok := s.Vars[name]; ok {
			outer = true
			break
		}
	}
	if !outer {
		return
	}
	for _, c := range in.closures {
		for s := c.Env; s != nil; s = s.Parent {
			if s == env {
				if mentions(c.Decl, name) {
					in.unspecified("static and dynamic resolution of '" + name + "' may differ (declared after a closure mentioning it was created)")
				}
				break
			}
		}
	}
}

func (in *interp) declare(name string, v Value, env *Env, line int) {
	if _, exists := env.Vars[name]; exists {
		in.fail(ERedeclare, line, name)
	}
	in.declareCheck(name, env)
	vv := v
	env.Vars[name] = &vv
}

func (in *interp) exec(s bn.Stmt, env *Env) signal {
	in.step()
	switch s := s.(type) {
	case *bn.ExprStmt:
		in.eval(s.E, env)
	case *bn.Print:
		v := in.eval(s.E, env)
		if (v.K == KArr || v.K == KObj) && in.selfContains(v) {
			// a value that reaches itself has no finite text: a runtime error on the line of the print keyword (K13)
			in.res.Tags["self-containing-print"]++
			in.fail(ECyclicPrint, s.Line, "")
		}
		in.print(v)
	case *bn.Var:
		v := NilV()
		if s.Init != nil {
			v = in.eval(s.Init, env)
		}
		in.declare(s.Name, v, env, s.Line)
	case *bn.VarList:
		for _, d := range s.Decls {
			in.exec(d, env)
		}
	case *bn.Block:
		inner := in.newEnv(env)
		for _, x := range s.Stmts {
			if sig := in.exec(x, inner); sig != sigNone {
				return sig
			}
		}
	case *bn.If:
		c := in.eval(s.C, env)
		in.needTruth(c)
		if Truthy(c) {
			in.tag("if-then")
			return in.exec(s.Then, env)
		} else if s.Else != nil {
			in.tag("if-else")
			return in.exec(s.Else, env)
		}
	case *bn.While:
		in.loops[len(in.loops)-1]++
		defer func() { in.loops[len(in.loops)-1]-- }()
		for {
			c := in.eval(s.C, env)
			in.needTruth(c)
			if !Truthy(c) {
				break
			}
			sig := in.exec(s.Body, env)
			if sig == sigBreak {
				in.tag("break")
				break
			}
			if sig == sigContinue {
				in.tag("continue")
			}
			if sig == sigReturn {
				in.tag("return-through-while")
				return sig
			}
		}
	case *bn.For:
		in.loops[len(in.loops)-1]++
		defer func() { in.loops[len(in.loops)-1]-- }()
		scope := in.newEnv(env)
		if s.Init != nil {
			in.exec(s.Init, scope)
		}
		for {
			if s.Cond != nil {
				c := in.eval(s.Cond, scope)
				in.needTruth(c)
				if !Truthy(c) {
					break
				}
			}
			sig := in.exec(s.Body, scope)
			if sig == sigBreak {
				in.tag("break")
				break
			}
			if sig == sigContinue {
				in.tag("continue")
			}
			if sig == sigReturn {
				in.tag("return-through-for")
				return sig
			}
			if s.Incr != nil {
				in.eval(s.Incr, scope)
			}
		}
	case *bn.Func:
		if _, exists := env.Vars[s.Name]; exists {
			in.unspecified("redeclaring the name '" + s.Name + "' with a function declaration")
		}
		in.declareCheck(s.Name, env)
		in.nextID++
		c := &Closure{Decl: s, Env: env, ID: in.nextID}
		in.closures = append(in.closures, c)
		v := Value{K: KFun, F: c}
		env.Vars[s.Name] = &v
	case *bn.Return:
		v := NilV()
		if s.V != nil {
			v = in.eval(s.V, env)
		}
		in.retVal = v
		in.ctlLine, in.ctlWord = s.Line, "return"
		return sigReturn
	case *bn.Break:
		in.ctlLine, in.ctlWord = s.Line, "break"
		return sigBreak
	case *bn.Continue:
		in.ctlLine, in.ctlWord = s.Line, "continue"
		return sigContinue
	default:
		panic(fmt.Sprintf("model: unknown statement %T", s))
	}
	return sigNone
}

// needTruth: truthiness of an opaque value is unknown.
func (in *interp) needTruth(v Value) {
	if v.K == KOpaque {
		in.unspecified("truthiness of an undetermined value")
	}
}

func (in *interp) print(v Value) {
	switch v.K {
	case KNil:
		in.res.Out = append(in.res.Out, Rec{Kind: RText, Text: "nil"})
	case KBool:
		t := "false"
		if v.B {
			t = "true"
		}
		in.res.Out = append(in.res.Out, Rec{Kind: RText, Text: t})
	case KNum:
		if t, ok := SmallInt(v); ok {
			in.res.Out = append(in.res.Out, Rec{Kind: RText, Text: t})
		} else {
			in.res.Out = append(in.res.Out, Rec{Kind: RNumber, Num: v})
		}
	case KStr:
		if v.Fuzzy {
			in.res.Out = append(in.res.Out, Rec{Kind: RAny})
		} else {
			in.res.Out = append(in.res.Out, Rec{Kind: RText, Text: norm.NFC.String(v.S)})
		}
	case KArr, KObj:
		toks, bag, ok := Flatten(v)
		if !ok {
			in.res.Out = append(in.res.Out, Rec{Kind: RAny})
		} else {
			in.res.Out = append(in.res.Out, Rec{Kind: RContainer, Tokens: toks, Bag: bag})
		}
	default:
		// functions, built-ins, opaque: rendering not asserted (one line)
		in.res.Out = append(in.res.Out, Rec{Kind: RAny})
	}
}

func (in *interp) selfContains(v Value) bool {
	seen := map[interface{}]bool{}
	var rec func(v Value) bool
	rec = func(v Value) bool {
		switch v.K {
		case KArr:
			if seen[v.A] {
				return true
			}
			seen[v.A] = true
			for _, e := range v.A.Elems {
				if rec(e) {
					return true
				}
			}
			delete(seen, v.A)
		case KObj:
			if seen[v.O] {
				return true
			}
			seen[v.O] = true
			for _, e := range v.O.M {
				if rec(e) {
					return true
				}
			}
			delete(seen, v.O)
		}
		return false
	}
	return rec(v)
}

// Pure reports whether evaluating e can have no side effect and cannot fail in
// a way that matters for ordering (no calls, no assignments).
func Pure(e bn.Expr) bool {
	switch x := e.(type) {
	case nil:
		return true
	case *bn.Lit, *bn.Ident:
		return true
	case *bn.Group:
		return Pure(x.E)
	case *bn.ArrayLit:
		for _, a := range x.Elems {
			if !Pure(a) {
				return false
			}
		}
		return true
	case *bn.ObjLit:
		for _, a := range x.Vals {
			if !Pure(a) {
				return false
			}
		}
		return true
	}
	return false
}

func (in *interp) eval(e bn.Expr, env *Env) Value {
	in.step()
	switch e := e.(type) {
	case *bn.Lit:
		switch e.Kind {
		case bn.LNil:
			return NilV()
		case bn.LTrue:
			return BoolV(true)
		case bn.LFalse:
			return BoolV(false)
		case bn.LNum:
			return NumV(e.Num)
		default:
			return StrV(e.Str)
		}
	case *bn.Ident:
		v, _ := env.lookup(e.Name)
		if v == nil {
			in.fail(EUndefined, e.Line, e.Name)
		}
		in.shadowTag(e.Name, env)
		return *v
	case *bn.Group:
		return in.eval(e.E, env)
	case *bn.Unary:
		r := in.eval(e.R, env)
		return in.unary(e.Op, r, e.Line)
	case *bn.Binary:
		l := in.eval(e.L, env)
		r := in.eval(e.R, env)
		return in.binary(e.Op, l, r, e.Line)
	case *bn.Logical:
		l := in.eval(e.L, env)
		in.needTruth(l)
		if e.Op == "or" {
			if Truthy(l) {
				in.tag("short-circuit")
				return l
			}
		} else if !Truthy(l) {
			in.tag("short-circuit")
			return l
		}
		return in.eval(e.R, env)
	case *bn.Assign:
		v := in.eval(e.V, env)
		slot, holder := env.lookup(e.Name)
		if slot == nil {
			in.fail(EUndefined, e.Line, e.Name)
		}
		if holder != nil && holder.SelfName == e.Name {
			// whether a function's own name is a variable of each activation or of the declaring scope is not documented
			in.unspecified("assignment to the enclosing function's own name")
		}
		in.shadowTag(e.Name, env)
		*slot = v
		return v
	case *bn.IndexSet:
		a := in.eval(e.A, env)
		i := in.eval(e.I, env)
		v := in.eval(e.V, env)
		arr := in.needArray(a, e.Line)
		idx := in.index(i, len(arr.Elems), e.Line)
		if arr.OrderFree && len(arr.Elems) > 1 {
			in.unspecified("indexing a listing whose order is not determined")
		}
		arr.Elems[idx] = v
		in.tag("index-store")
		return v
	case *bn.PropSet:
		o := in.eval(e.O, env)
		if o.K != KObj {
			if o.K == KOpaque {
				in.unspecified("property store on an undetermined value")
			}
			// the assigned value is evaluated before the store is attempted (C14)
			in.eval(e.V, env)
			in.fail(ENotObject, e.Line, "")
		}
		v := in.eval(e.V, env)
		o.O.M[e.Name] = v
		in.tag("prop-store")
		return v
	case *bn.Call:
		return in.call(e, env)
	case *bn.Index:
		a := in.eval(e.A, env)
		i := in.eval(e.I, env)
		arr := in.needArray(a, e.Line)
		idx := in.index(i, len(arr.Elems), e.Line)
		if arr.OrderFree && len(arr.Elems) > 1 {
			in.unspecified("indexing a listing whose order is not determined")
		}
		return arr.Elems[idx]
	case *bn.Prop:
		o := in.eval(e.O, env)
		if o.K == KOpaque {
			in.unspecified("property of an undetermined value")
		}
		if o.K != KObj {
			in.fail(ENotObject, e.Line, "")
		}
		v, ok := o.O.M[e.Name]
		if !ok {
			in.fail(EProperty, e.Line, e.Name)
		}
		return v
	case *bn.ArrayLit:
		in.nextID++
		arr := &Array{ID: in.nextID}
		for _, x := range e.Elems {
			arr.Elems = append(arr.Elems, in.eval(x, env))
		}
		return Value{K: KArr, A: arr}
	case *bn.ObjLit:
		in.nextID++
		obj := &Object{M: map[string]Value{}, ID: in.nextID}
		for i, k := range e.Keys {
			// every initialiser runs, in source order (C13); which of the initialisers of a repeated name
			// gives the property its value is pinned nowhere: the value is undetermined
			v := in.eval(e.Vals[i], env)
			if _, dup := obj.M[k]; dup {
				in.tag("repeated-property-name")
				v = OpaqueV()
			}
			obj.M[k] = v
		}
		return Value{K: KObj, O: obj}
	}
	panic(fmt.Sprintf("model: unknown expression %T", e))
}

func (in *interp) needArray(a Value, line int) *Array {
	if a.K == KOpaque {
		in.unspecified("indexing an undetermined value")
	}
	if a.K != KArr {
		in.fail(ENotArray, line, "")
	}
	return a.A
}

// NumericLooking: a string the implementation is allowed (but not required)
// to coerce: contains a digit of either script or spells inf/nan.
func NumericLooking(s string) bool {
	for _, r := range s {
		if reflex.DigitValue(r) >= 0 || unicode.IsDigit(r) {
			return true
		}
	}
	l := strings.ToLower(strings.TrimSpace(s))
	l = strings.TrimLeft(l, "+-")
	return strings.HasPrefix(l, "inf") || strings.HasPrefix(l, "nan")
}

// NumericReading gives the number a string denotes if an implementation chooses
// to coerce it (Bangla digits transliterated, then the usual float syntax).
func NumericReading(s string) (float64, bool) {
	var b strings.Builder
	for _, r := range s {
		if d := reflex.DigitValue(r); d >= 0 {
			b.WriteByte(byte('0' + d))
		} else {
			b.WriteRune(r)
		}
	}
	f, err := strconv.ParseFloat(b.String(), 64)
	return f, err == nil
}

// index validates an index value against a length.
func (in *interp) index(i Value, n int, line int) int {
	switch i.K {
	case KOpaque:
		in.unspecified("index is an undetermined value")
	case KStr:
		if i.Fuzzy {
			in.unspecified("string with an unpinned number rendering used as an index")
		}
		if f, ok := NumericReading(i.S); ok {
			// read as a string it is not a number, read as its number it must still be a valid index:
			// both readings agree on an error unless the number is an integer in range
			if math.IsNaN(f) || math.IsInf(f, 0) || f != math.Trunc(f) || f < 0 || f >= float64(n) {
				in.fail(EIndex, line, "")
			}
			in.unspecified("numeric-looking string used as an index")
		}
		if NumericLooking(i.S) {
			in.unspecified("numeric-looking string used as an index")
		}
		in.fail(EIndex, line, "")
	case KNum:
		if i.Approx {
			in.unspecified("index known only approximately")
		}
		var k int64
		if i.IsInt {
			k = i.I
		} else {
			if math.IsNaN(i.N) || math.IsInf(i.N, 0) || i.N != math.Trunc(i.N) {
				in.fail(EIndex, line, "")
			}
			if math.Abs(i.N) >= 1<<62 {
				in.fail(EIndex, line, "")
			}
			k = int64(i.N)
		}
		if k < 0 || k >= int64(n) {
			in.fail(EIndex, line, "")
		}
		return int(k)
	}
	in.fail(EIndex, line, "")
	return 0
}

// ---- operators ----

func (in *interp) num(v Value, line int) float64 {
	switch v.K {
	case KNum:
		if v.Approx {
			in.unspecified("arithmetic on a value known only approximately")
		}
		if v.IsInt {
			if v.I > 1<<53 || v.I < -(1<<53) {
				in.unspecified("an integer beyond 2^53 entering floating arithmetic")
			}
			return float64(v.I)
		}
		return v.N
	case KStr:
		if v.Fuzzy || NumericLooking(v.S) {
			in.unspecified("numeric-looking string under a numeric operator")
		}
	case KOpaque:
		in.unspecified("numeric operator on an undetermined value")
	}
	in.fail(EType, line, "")
	return 0
}

// int64 operand of a bitwise operator.
func (in *interp) integer(v Value, line int) int64 {
	switch v.K {
	case KNum:
		if v.Approx {
			in.unspecified("bitwise operator on a value known only approximately")
		}
		if v.IsInt {
			return v.I
		}
		if math.IsNaN(v.N) || math.IsInf(v.N, 0) || v.N != math.Trunc(v.N) {
			in.fail(EType, line, "")
		}
		if v.N >= 9223372036854775808.0 || v.N < -9223372036854775808.0 {
			in.unspecified("integral operand outside the 64-bit range under a bitwise operator")
		}
		return int64(v.N)
	case KStr:
		if v.Fuzzy {
			in.unspecified("string with an unpinned number rendering under a bitwise operator")
		}
		if f, ok := NumericReading(v.S); ok {
			// as a string it is unsupported, as its number it must be integral: both readings fail otherwise
			if math.IsNaN(f) || math.IsInf(f, 0) || f != math.Trunc(f) {
				in.fail(EType, line, "")
			}
			in.unspecified("numeric-looking string under a bitwise operator")
		}
		if NumericLooking(v.S) {
			in.unspecified("numeric-looking string under a bitwise operator")
		}
	case KOpaque:
		in.unspecified("bitwise operator on an undetermined value")
	}
	in.fail(EType, line, "")
	return 0
}

func (in *interp) unary(op string, r Value, line int) Value {
	switch op {
	case "!":
		in.needTruth(r)
		return BoolV(!Truthy(r))
	case "-":
		if r.K == KNum && r.IsInt {
			if r.I == math.MinInt64 {
				in.unspecified("negating the smallest 64-bit integer")
			}
			if r.I > 1<<53 || r.I < -(1<<53) {
				in.unspecified("negating an integer beyond 2^53")
			}
			return NumV(-float64(r.I))
		}
		return NumV(-in.num(r, line))
	case "~":
		return IntV(^in.integer(r, line))
	}
	panic("model: unary " + op)
}

// ExactMod computes x - y*trunc(x/y) exactly for finite x, y != 0.
func ExactMod(x, y float64) float64 {
	if math.IsNaN(x) || math.IsNaN(y) || math.IsInf(x, 0) {
		return math.NaN()
	}
	if math.IsInf(y, 0) {
		return x
	}
	rx, ry := new(big.Rat).SetFloat64(x), new(big.Rat).SetFloat64(y)
	q := new(big.Rat).Quo(rx, ry)
	// trunc toward zero
	t := new(big.Int).Quo(q.Num(), q.Denom())
	r := new(big.Rat).Sub(rx, new(big.Rat).Mul(ry, new(big.Rat).SetInt(t)))
	f, _ := r.Float64()
	if f == 0 && math.Signbit(x) {
		return math.Copysign(0, -1)
	}
	return f
}

// ExactPow returns (value, exact): integer powers are computed with big.Int and
// are exact when the result is representable as a double (or overflows to
// infinity); otherwise the platform pow (accurate to about one unit in the
// last place) is used.
func ExactPow(x, y float64) (float64, bool) {
	if x == 0 || y == 0 || x == 1 {
		return math.Pow(x, y), true // fixed by IEEE 754 (signed zeros, x**0 = 1, 1**y = 1)
	}
	if x == math.Trunc(x) && y == math.Trunc(y) && y >= 0 && y <= 4096 && math.Abs(x) <= 1<<53 && !math.IsInf(x, 0) {
		b := new(big.Int)
		new(big.Float).SetFloat64(x).Int(b)
		r := new(big.Int).Exp(b, big.NewInt(int64(y)), nil)
		bf := new(big.Float).SetPrec(uint(r.BitLen() + 8)).SetInt(r)
		f, acc := bf.Float64()
		if math.IsInf(f, 0) {
			return f, true
		}
		if acc == big.Exact {
			return f, true
		}
	}
	return math.Pow(x, y), false
}

func (in *interp) strOf(v Value) (string, bool, bool) {
	// returns text, fuzzy, ok
	switch v.K {
	case KStr:
		return v.S, v.Fuzzy, true
	case KNum:
		if t, ok := SmallInt(v); ok {
			return t, false, true
		}
		return "?", true, true
	}
	return "", false, false
}

func (in *interp) binary(op string, l, r Value, line int) Value {
	if l.K == KOpaque || r.K == KOpaque {
		in.unspecified("operator on an undetermined value")
	}
	switch op {
	case "+":
		if l.K == KNum && r.K == KNum {
			return NumV(in.num(l, line) + in.num(r, line))
		}
		if (l.K == KStr || l.K == KNum) && (r.K == KStr || r.K == KNum) {
			ls, lf, _ := in.strOf(l)
			rs, rf, _ := in.strOf(r)
			in.tag("concat")
			return Value{K: KStr, S: ls + rs, Fuzzy: lf || rf}
		}
		in.fail(EType, line, "")
	case "-":
		return NumV(in.num(l, line) - in.num(r, line))
	case "*":
		return NumV(in.num(l, line) * in.num(r, line))
	case "/":
		a, b := in.num(l, line), in.num(r, line)
		if b == 0 {
			in.fail(EZeroDiv, line, "")
		}
		return NumV(a / b)
	case "%":
		a, b := in.num(l, line), in.num(r, line)
		if b == 0 {
			in.fail(EZeroDiv, line, "")
		}
		return NumV(ExactMod(a, b))
	case "**":
		a, b := in.num(l, line), in.num(r, line)
		v, exact := ExactPow(a, b)
		return Value{K: KNum, N: v, Approx: !exact}
	case "<", "<=", ">", ">=":
		a, b := in.num(l, line), in.num(r, line)
		switch op {
		case "<":
			return BoolV(a < b)
		case "<=":
			return BoolV(a <= b)
		case ">":
			return BoolV(a > b)
		}
		return BoolV(a >= b)
	case "==", "!=":
		eq := in.equal(l, r)
		if op == "!=" {
			eq = !eq
		}
		return BoolV(eq)
	case "&", "|", "^", "<<", ">>":
		a, b := in.integer(l, line), in.integer(r, line)
		switch op {
		case "&":
			return IntV(a & b)
		case "|":
			return IntV(a | b)
		case "^":
			return IntV(a ^ b)
		case "<<":
			if b < 0 {
				in.fail(ENegShift, line, "")
			}
			if b >= 64 {
				return IntV(0)
			}
			return IntV(a << uint(b))
		default:
			if b < 0 {
				in.fail(ENegShift, line, "")
			}
			if b >= 64 {
				if a < 0 {
					return IntV(-1)
				}
				return IntV(0)
			}
			return IntV(a >> uint(b))
		}
	}
	panic("model: binary " + op)
}

func (in *interp) equal(l, r Value) bool {
	if l.K != r.K {
		return false
	}
	switch l.K {
	case KNil:
		return true
	case KBool:
		return l.B == r.B
	case KNum:
		if l.Approx || r.Approx {
			in.unspecified("equality on a value known only approximately")
		}
		if l.IsInt && r.IsInt {
			return l.I == r.I
		}
		if l.IsInt || r.IsInt {
			// compare an exact integer with a double by numeric value
			i, f := l.I, r.N
			if r.IsInt {
				i, f = r.I, l.N
			}
			if math.IsNaN(f) || math.IsInf(f, 0) || f != math.Trunc(f) {
				return false
			}
			bf := new(big.Float).SetFloat64(f)
			bi := new(big.Float).SetInt64(i)
			return bf.Cmp(bi) == 0
		}
		return l.N == r.N
	case KStr:
		if l.Fuzzy || r.Fuzzy {
			in.unspecified("equality on a string whose number rendering is not pinned")
		}
		return l.S == r.S
	case KArr:
		if l.A == r.A {
			return true
		}
		in.unspecified("equality of two different arrays")
	case KObj:
		if l.O == r.O {
			return true
		}
		in.unspecified("equality of two different objects")
	case KFun:
		if l.F == r.F {
			return true
		}
		in.unspecified("equality of two different function values")
	case KBuiltin:
		return l.Bi == r.Bi
	}
	return false
}
