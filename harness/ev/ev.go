// Package ev collects what a check actually covered and writes it in the
// evidence schema.  Counts are measured: distinct non-trivial cases are counted
// through a set of 64-bit hashes of the case text (random tiers) or by
// construction (enumerated tiers never repeat a case).
package ev

import (
	"encoding/binary"
	"encoding/json"
	"hash/fnv"
	"os"
	"sort"
)

// Collector accumulates statistics for one shard of one check run.
type Collector struct {
	Evaluations int64            `json:"evaluations"`
	EnumNT      int64            `json:"enum_nontrivial"` // distinct by construction
	Classes     map[string]int64 `json:"classes"`
	Discards    map[string]int64 `json:"discards"`
	Excluded    map[string]int64 `json:"excluded_known_findings"`
	Exhaustive  []string         `json:"exhaustive_subspaces"`
	SubChecks   map[string]int64 `json:"subcheck_cases"`
	CLICross    int64            `json:"cli_crosschecks"`
	RapidAsked  int64            `json:"rapid_cases_requested"`
	RapidPassed int64            `json:"rapid_cases_passed"`
	FuzzExecs   int64            `json:"fuzz_execs"`
	Violations  int64            `json:"violations"`
	Notes       []string         `json:"notes"`
	Samples     []Sample         `json:"samples"`

	nt map[uint64]struct{}
}

// Sample is one actual case.
type Sample struct {
	Sub  string `json:"subcheck"`
	Case string `json:"case"`
	h    uint64
}

func New() *Collector {
	return &Collector{Classes: map[string]int64{}, Discards: map[string]int64{}, Excluded: map[string]int64{}, SubChecks: map[string]int64{}, nt: map[uint64]struct{}{}}
}

func Hash(s string) uint64 {
	h := fnv.New64a()
	h.Write([]byte(s))
	return h.Sum64()
}

const maxSamples = 14

func (c *Collector) sample(sub, text string, h uint64) {
	if len(text) > 600 {
		text = text[:600] + "…"
	}
	// keep one early sample per subcheck plus those with the smallest hashes
	seen := false
	for _, s := range c.Samples {
		if s.Sub == sub {
			seen = true
			break
		}
	}
	if !seen {
		c.Samples = append(c.Samples, Sample{sub, text, 0})
		return
	}
	if len(c.Samples) < maxSamples {
		c.Samples = append(c.Samples, Sample{sub, text, h})
		return
	}
	// replace the largest-hash sample if ours is smaller
	mi := -1
	for i, s := range c.Samples {
		if s.h != 0 && (mi < 0 || s.h > c.Samples[mi].h) {
			mi = i
		}
	}
	if mi >= 0 && h < c.Samples[mi].h {
		c.Samples[mi] = Sample{sub, text, h}
	}
}

// Case records one executed case of a random tier.
func (c *Collector) Case(sub, text string, nontrivial bool, classes ...string) {
	c.Evaluations++
	c.SubChecks[sub]++
	h := Hash(sub + "\x00" + text)
	if nontrivial {
		c.nt[h] = struct{}{}
	}
	for _, k := range classes {
		c.Classes[k]++
	}
	if nontrivial || c.Evaluations < 3 {
		c.sample(sub, text, h|1)
	}
}

// EnumCase records one executed case of an enumerated tier (distinct by
// construction, so no hash is stored; text is only used for sampling and may be
// produced lazily).
func (c *Collector) EnumCase(sub string, nontrivial bool, text func() string, classes ...string) {
	c.Evaluations++
	c.SubChecks[sub]++
	if nontrivial {
		c.EnumNT++
	}
	for _, k := range classes {
		c.Classes[k]++
	}
	n := c.SubChecks[sub]
	if nontrivial && (n < 4 || n%9973 == 0) {
		t := text()
		c.sample(sub, t, Hash(t)|1)
	}
}

func (c *Collector) Discard(reason string)  { c.Discards[reason]++ }
func (c *Collector) Exclude(key string)     { c.Excluded[key]++ }
func (c *Collector) Class(k string)         { c.Classes[k]++ }
func (c *Collector) Note(s string)          { c.Notes = append(c.Notes, s) }
func (c *Collector) MarkExhaustive(s string) { c.Exhaustive = append(c.Exhaustive, s) }

// Save writes the shard statistics and the hash set.
func (c *Collector) Save(jsonPath, hashPath string) error {
	b, err := json.Marshal(c)
	if err != nil {
		return err
	}
	if err := os.WriteFile(jsonPath, b, 0o644); err != nil {
		return err
	}
	hb := make([]byte, 0, 8*len(c.nt))
	for h := range c.nt {
		hb = binary.LittleEndian.AppendUint64(hb, h)
	}
	return os.WriteFile(hashPath, hb, 0o644)
}

// Load reads a saved shard.
func Load(jsonPath, hashPath string) (*Collector, error) {
	c := New()
	b, err := os.ReadFile(jsonPath)
	if err != nil {
		return nil, err
	}
	if err := json.Unmarshal(b, c); err != nil {
		return nil, err
	}
	hb, err := os.ReadFile(hashPath)
	if err == nil {
		for i := 0; i+8 <= len(hb); i += 8 {
			c.nt[binary.LittleEndian.Uint64(hb[i:])] = struct{}{}
		}
	}
	if c.Classes == nil {
		c.Classes = map[string]int64{}
	}
	return c, nil
}

// Merge adds o into c.
func (c *Collector) Merge(o *Collector) {
	c.Evaluations += o.Evaluations
	c.EnumNT += o.EnumNT
	addMap(c.Classes, o.Classes)
	addMap(c.Discards, o.Discards)
	addMap(c.Excluded, o.Excluded)
	addMap(c.SubChecks, o.SubChecks)
	c.CLICross += o.CLICross
	c.RapidAsked += o.RapidAsked
	c.RapidPassed += o.RapidPassed
	c.FuzzExecs += o.FuzzExecs
	c.Violations += o.Violations
	for _, s := range o.Exhaustive {
		dup := false
		for _, t := range c.Exhaustive {
			if s == t {
				dup = true
			}
		}
		if !dup {
			c.Exhaustive = append(c.Exhaustive, s)
		}
	}
	for _, s := range o.Notes {
		dup := false
		for _, t := range c.Notes {
			if s == t {
				dup = true
			}
		}
		if !dup {
			c.Notes = append(c.Notes, s)
		}
	}
	for h := range o.nt {
		c.nt[h] = struct{}{}
	}
	c.Samples = append(c.Samples, o.Samples...)
}

func addMap(a, b map[string]int64) {
	for k, v := range b {
		a[k] += v
	}
}

// DistinctNT is the measured number of distinct non-trivial cases.
func (c *Collector) DistinctNT() int64 { return c.EnumNT + int64(len(c.nt)) }

// TrimSamples keeps at most n samples, spread over subchecks.
func (c *Collector) TrimSamples(n int) {
	sort.SliceStable(c.Samples, func(i, j int) bool { return c.Samples[i].Sub < c.Samples[j].Sub })
	if len(c.Samples) <= n {
		return
	}
	bySub := map[string][]Sample{}
	var order []string
	for _, s := range c.Samples {
		if _, ok := bySub[s.Sub]; !ok {
			order = append(order, s.Sub)
		}
		bySub[s.Sub] = append(bySub[s.Sub], s)
	}
	var out []Sample
	for round := 0; len(out) < n; round++ {
		added := false
		for _, k := range order {
			if round < len(bySub[k]) && len(out) < n {
				out = append(out, bySub[k][round])
				added = true
			}
		}
		if !added {
			break
		}
	}
	c.Samples = out
}
