// Package refparse is the reference recogniser and tree builder for the
// grammar published in grammer.txt, with exactly the readings property C08
// lists.  It is table-driven precedence climbing and reports either a tree or
// the index of the first token at which the input stops being a prefix of any
// valid program.
package refparse

import (
	"verifharness/bn"
)

// Result of parsing a token sequence.
type Result struct {
	OK   bool
	Prog []bn.Stmt
	// ErrTok is the index of the first non-viable token when !OK.
	ErrTok int
	// ErrAssignTarget: the failure is an `=` after a non-assignable left side
	// (the diagnostic may name any line from that `=` to the end of the text).
	ErrAssignTarget bool
	// ErrParamLimit: the failure is the comma behind the 255th parameter (ErrTok).
	ErrParamLimit bool
	// ErrReserved: a built-in name used as declared variable/function name.
	ErrReserved bool
	// OODVarBreak: a `ধরি` declaration touches a line break (outside the domain
	// of the accept/reject clause).
	OODVarBreak bool
	// OODTrailingComma: an object literal has a trailing comma.
	OODTrailingComma bool
	// MaxDepth is the deepest nesting of recursive productions reached.
	MaxDepth int
}

type parseError struct{}

type parser struct {
	toks   []bn.Tok
	pos    int
	res    *Result
	depth  int
	failed bool
}

// binary/logical operator levels by token kind
var binLevel = map[bn.TokKind]int{
	bn.TOrOr: bn.LvOr, bn.TAndAnd: bn.LvAnd, bn.TPipe: bn.LvBitOr, bn.TCaret: bn.LvBitXor, bn.TAmp: bn.LvBitAnd,
	bn.TBangEq: bn.LvEq, bn.TEqEq: bn.LvEq, bn.TGt: bn.LvCmp, bn.TGe: bn.LvCmp, bn.TLt: bn.LvCmp, bn.TLe: bn.LvCmp,
	bn.TShr: bn.LvShift, bn.TShl: bn.LvShift, bn.TMinus: bn.LvTerm, bn.TPlus: bn.LvTerm,
	bn.TSlash: bn.LvFactor, bn.TStar: bn.LvFactor, bn.TPercent: bn.LvFactor, bn.TStarStar: bn.LvPower,
}

// Parse parses a token list that ends with TEOF.
func Parse(toks []bn.Tok) *Result {
	res := &Result{}
	p := &parser{toks: toks, res: res}
	func() {
		defer func() {
			if r := recover(); r != nil {
				if _, ok := r.(parseError); !ok {
					panic(r)
				}
			}
		}()
		var prog []bn.Stmt
		for p.peek().Kind != bn.TEOF {
			prog = append(prog, p.declaration())
		}
		res.Prog = prog
		res.OK = true
	}()
	return res
}

func (p *parser) peek() bn.Tok { return p.toks[p.pos] }
func (p *parser) advance() bn.Tok {
	t := p.toks[p.pos]
	if t.Kind != bn.TEOF {
		p.pos++
	}
	return t
}
func (p *parser) fail() {
	p.failed = true
	p.res.OK = false
	p.res.ErrTok = p.pos
	panic(parseError{})
}
func (p *parser) expect(k bn.TokKind) bn.Tok {
	if p.peek().Kind != k {
		p.fail()
	}
	return p.advance()
}
func (p *parser) accept(k bn.TokKind) bool {
	if p.peek().Kind == k {
		p.advance()
		return true
	}
	return false
}
func (p *parser) enter() {
	p.depth++
	if p.depth > p.res.MaxDepth {
		p.res.MaxDepth = p.depth
	}
}
func (p *parser) leave() { p.depth-- }

func (p *parser) declaration() bn.Stmt {
	switch p.peek().Kind {
	case bn.TFun:
		return p.funDecl()
	case bn.TVar:
		return p.varDecl()
	}
	return p.statement()
}

func (p *parser) funDecl() bn.Stmt {
	p.advance()
	name := p.expect(bn.TIdent)
	if bn.IsBuiltin(name.Text) {
		p.pos--
		p.res.ErrReserved = true
		p.fail()
	}
	p.expect(bn.TLParen)
	var params []string
	if p.peek().Kind != bn.TRParen {
		for {
			params = append(params, p.expect(bn.TIdent).Text)
			if p.peek().Kind == bn.TComma && len(params) >= 255 {
				// at most 255 parameters: the comma behind the 255th is the first token that no valid program continues
				p.res.ErrParamLimit = true
				p.fail()
			}
			if !p.accept(bn.TComma) {
				break
			}
		}
	}
	p.expect(bn.TRParen)
	p.expect(bn.TLBrace)
	body := p.blockBody()
	return &bn.Func{Name: name.Text, Params: params, Body: body, Line: name.Line}
}

// blockBody parses declaration* "}" (the "{" is already consumed).
func (p *parser) blockBody() []bn.Stmt {
	p.enter()
	defer p.leave()
	stmts := []bn.Stmt{}
	for p.peek().Kind != bn.TRBrace && p.peek().Kind != bn.TEOF {
		stmts = append(stmts, p.declaration())
	}
	p.expect(bn.TRBrace)
	return stmts
}

func (p *parser) varDecl() bn.Stmt {
	start := p.pos
	// any failure or completion inside this declaration checks whether the
	// declaration touched a line break
	defer func() {
		end := p.pos
		if p.failed {
			end = p.res.ErrTok + 1
		}
		if end > len(p.toks) {
			end = len(p.toks)
		}
		for i := start + 1; i < end; i++ {
			if p.toks[i].Line != p.toks[i-1].Line {
				p.res.OODVarBreak = true
			}
		}
	}()
	p.advance() // ধরি
	var decls []*bn.Var
	for {
		name := p.expect(bn.TIdent)
		if bn.IsBuiltin(name.Text) {
			p.pos--
			p.res.ErrReserved = true
			p.fail()
		}
		v := &bn.Var{Name: name.Text, Line: name.Line}
		if p.accept(bn.TEq) {
			v.Init = p.expression()
		}
		decls = append(decls, v)
		if !p.accept(bn.TComma) {
			break
		}
	}
	p.expect(bn.TSemi)
	if len(decls) == 1 {
		return decls[0]
	}
	return &bn.VarList{Decls: decls}
}

func (p *parser) statement() bn.Stmt {
	p.enter()
	defer p.leave()
	t := p.peek()
	switch t.Kind {
	case bn.TIf:
		p.advance()
		p.expect(bn.TLParen)
		c := p.expression()
		p.expect(bn.TRParen)
		th := p.statement()
		var el bn.Stmt
		if p.accept(bn.TElse) {
			el = p.statement()
		}
		return &bn.If{C: c, Then: th, Else: el}
	case bn.TWhile:
		p.advance()
		p.expect(bn.TLParen)
		c := p.expression()
		p.expect(bn.TRParen)
		return &bn.While{C: c, Body: p.statement()}
	case bn.TFor:
		p.advance()
		p.expect(bn.TLParen)
		f := &bn.For{}
		switch p.peek().Kind {
		case bn.TSemi:
			p.advance()
		case bn.TVar:
			f.Init = p.varDecl()
		default:
			e := p.expression()
			p.expect(bn.TSemi)
			f.Init = &bn.ExprStmt{E: e}
		}
		if p.peek().Kind != bn.TSemi {
			f.Cond = p.expression()
		}
		p.expect(bn.TSemi)
		if p.peek().Kind != bn.TRParen {
			f.Incr = p.expression()
		}
		p.expect(bn.TRParen)
		f.Body = p.statement()
		return f
	case bn.TPrint:
		p.advance()
		e := p.expression()
		p.expect(bn.TSemi)
		return &bn.Print{E: e, Line: t.Line}
	case bn.TReturn:
		p.advance()
		r := &bn.Return{Line: t.Line}
		if p.peek().Kind != bn.TSemi {
			r.V = p.expression()
		}
		p.expect(bn.TSemi)
		return r
	case bn.TBreak:
		p.advance()
		p.expect(bn.TSemi)
		return &bn.Break{Line: t.Line}
	case bn.TContinue:
		p.advance()
		p.expect(bn.TSemi)
		return &bn.Continue{Line: t.Line}
	case bn.TLBrace:
		p.advance()
		return &bn.Block{Stmts: p.blockBody()}
	}
	e := p.expression()
	p.expect(bn.TSemi)
	return &bn.ExprStmt{E: e}
}

func (p *parser) expression() bn.Expr {
	p.enter()
	defer p.leave()
	left := p.binary(bn.LvOr)
	if p.peek().Kind == bn.TEq {
		eq := p.peek()
		switch t := left.(type) {
		case *bn.Ident:
			p.advance()
			return &bn.Assign{Name: t.Name, V: p.expression(), Line: eq.Line}
		case *bn.Index:
			p.advance()
			return &bn.IndexSet{A: t.A, I: t.I, V: p.expression(), Line: eq.Line}
		case *bn.Prop:
			p.advance()
			return &bn.PropSet{O: t.O, Name: t.Name, V: p.expression(), Line: eq.Line}
		default:
			p.res.ErrAssignTarget = true
			p.fail()
		}
	}
	return left
}

func (p *parser) binary(min int) bn.Expr {
	left := p.unary()
	for {
		t := p.peek()
		lv, ok := binLevel[t.Kind]
		if !ok || lv < min {
			return left
		}
		p.advance()
		right := p.binary(lv + 1)
		switch t.Kind {
		case bn.TOrOr:
			left = &bn.Logical{Op: "or", Sym: t.Text == "||", L: left, R: right, Line: t.Line}
		case bn.TAndAnd:
			left = &bn.Logical{Op: "and", Sym: t.Text == "&&", L: left, R: right, Line: t.Line}
		default:
			left = &bn.Binary{Op: bn.BinOpOfKind[t.Kind], L: left, R: right, Line: t.Line}
		}
	}
}

func (p *parser) unary() bn.Expr {
	t := p.peek()
	switch t.Kind {
	case bn.TBang, bn.TMinus, bn.TTilde:
		p.enter()
		defer p.leave()
		p.advance()
		return &bn.Unary{Op: t.Text, R: p.unary(), Line: t.Line}
	}
	return p.postfix()
}

func (p *parser) postfix() bn.Expr {
	e := p.primary()
	for {
		switch p.peek().Kind {
		case bn.TLParen:
			p.advance()
			var args []bn.Expr
			if p.peek().Kind != bn.TRParen {
				for {
					args = append(args, p.expression())
					if !p.accept(bn.TComma) {
						break
					}
				}
			}
			rp := p.expect(bn.TRParen)
			e = &bn.Call{Callee: e, Args: args, Line: rp.Line}
		case bn.TLBracket:
			p.advance()
			idx := p.expression()
			rb := p.expect(bn.TRBracket)
			e = &bn.Index{A: e, I: idx, Line: rb.Line}
		case bn.TDot:
			p.advance()
			name := p.expect(bn.TIdent)
			e = &bn.Prop{O: e, Name: name.Text, Line: name.Line}
		default:
			return e
		}
	}
}

func (p *parser) primary() bn.Expr {
	t := p.peek()
	switch t.Kind {
	case bn.TNumber:
		p.advance()
		return &bn.Lit{Kind: bn.LNum, Num: t.Num, Text: t.Text, Line: t.Line}
	case bn.TString:
		p.advance()
		return &bn.Lit{Kind: bn.LStr, Str: t.Str, Line: t.Line}
	case bn.TTrue:
		p.advance()
		return &bn.Lit{Kind: bn.LTrue, Line: t.Line}
	case bn.TFalse:
		p.advance()
		return &bn.Lit{Kind: bn.LFalse, Line: t.Line}
	case bn.TNil:
		p.advance()
		return &bn.Lit{Kind: bn.LNil, Line: t.Line}
	case bn.TIdent:
		p.advance()
		return &bn.Ident{Name: t.Text, Line: t.Line}
	case bn.TLParen:
		p.advance()
		e := p.expression()
		rp := p.expect(bn.TRParen)
		return &bn.Group{E: e, Line: rp.Line}
	case bn.TLBracket:
		p.advance()
		var elems []bn.Expr
		if p.peek().Kind != bn.TRBracket {
			for {
				elems = append(elems, p.expression())
				if !p.accept(bn.TComma) {
					break
				}
			}
		}
		p.expect(bn.TRBracket)
		return &bn.ArrayLit{Elems: elems}
	case bn.TLBrace:
		p.advance()
		o := &bn.ObjLit{}
		if p.peek().Kind != bn.TRBrace {
			for {
				k := p.expect(bn.TIdent)
				p.expect(bn.TColon)
				v := p.expression()
				o.Keys = append(o.Keys, k.Text)
				o.Vals = append(o.Vals, v)
				if !p.accept(bn.TComma) {
					break
				}
				if p.peek().Kind == bn.TRBrace {
					p.res.OODTrailingComma = true
					break
				}
			}
		}
		p.expect(bn.TRBrace)
		return o
	}
	p.fail()
	return nil
}
