module verifharness

go 1.23

toolchain go1.23.5

require (
	github.com/ah-naf/borno v0.0.0
	golang.org/x/text v0.21.0
	pgregory.net/rapid v1.3.0
)

replace github.com/ah-naf/borno => /repo
