package bn

import (
	"fmt"
	"sort"
	"strings"
)

// Expr and Stmt are the harness AST.  Line fields are filled by refparse (the
// line of the token the documentation ties the operation to) and ignored by
// Equal.
type Expr interface{ isExpr() }
type Stmt interface{ isStmt() }

const (
	LNil = iota
	LTrue
	LFalse
	LNum
	LStr
)

type Lit struct {
	Kind int
	Num  float64
	Text string // source spelling of a number (optional; used by printers when set)
	Str  string
	Line int
}
type Ident struct {
	Name string
	Line int
}
type Group struct {
	E    Expr
	Line int
}
type Unary struct {
	Op   string
	R    Expr
	Line int
}
type Binary struct {
	Op   string
	L, R Expr
	Line int
}

// Logical: Op is "or" or "and"; Sym selects the symbolic spelling (|| &&).
type Logical struct {
	Op   string
	Sym  bool
	L, R Expr
	Line int
}
type Assign struct {
	Name string
	V    Expr
	Line int
}
type IndexSet struct {
	A, I, V Expr
	Line    int
}
type PropSet struct {
	O    Expr
	Name string
	V    Expr
	Line int
}
type Call struct {
	Callee Expr
	Args   []Expr
	Line   int
}
type Index struct {
	A, I Expr
	Line int
}
type Prop struct {
	O    Expr
	Name string
	Line int
}
type ArrayLit struct{ Elems []Expr }
type ObjLit struct {
	Keys []string
	Vals []Expr
}

func (*Lit) isExpr()      {}
func (*Ident) isExpr()    {}
func (*Group) isExpr()    {}
func (*Unary) isExpr()    {}
func (*Binary) isExpr()   {}
func (*Logical) isExpr()  {}
func (*Assign) isExpr()   {}
func (*IndexSet) isExpr() {}
func (*PropSet) isExpr()  {}
func (*Call) isExpr()     {}
func (*Index) isExpr()    {}
func (*Prop) isExpr()     {}
func (*ArrayLit) isExpr() {}
func (*ObjLit) isExpr()   {}

type ExprStmt struct{ E Expr }
type Print struct {
	E    Expr
	Line int
}
type Var struct {
	Name string
	Init Expr
	Line int
}
type VarList struct{ Decls []*Var }
type Block struct{ Stmts []Stmt }
type If struct {
	C          Expr
	Then, Else Stmt
}
type While struct {
	C    Expr
	Body Stmt
}
type For struct {
	Init Stmt // nil, *Var, *VarList or *ExprStmt
	Cond Expr
	Incr Expr
	Body Stmt
}
type Func struct {
	Name   string
	Params []string
	Body   []Stmt
	Line   int
}
type Return struct {
	V    Expr
	Line int
}
type Break struct{ Line int }
type Continue struct{ Line int }

func (*ExprStmt) isStmt() {}
func (*Print) isStmt()    {}
func (*Var) isStmt()      {}
func (*VarList) isStmt()  {}
func (*Block) isStmt()    {}
func (*If) isStmt()       {}
func (*While) isStmt()    {}
func (*For) isStmt()      {}
func (*Func) isStmt()     {}
func (*Return) isStmt()   {}
func (*Break) isStmt()    {}
func (*Continue) isStmt() {}

// Helpers to build trees tersely.
func Num(v float64) *Lit       { return &Lit{Kind: LNum, Num: v} }
func NumT(v float64, t string) *Lit { return &Lit{Kind: LNum, Num: v, Text: t} }
func Str(s string) *Lit        { return &Lit{Kind: LStr, Str: s} }
func Nil() *Lit                { return &Lit{Kind: LNil} }
func Bool(b bool) *Lit {
	if b {
		return &Lit{Kind: LTrue}
	}
	return &Lit{Kind: LFalse}
}
func Id(n string) *Ident                 { return &Ident{Name: n} }
func Bin(op string, l, r Expr) *Binary   { return &Binary{Op: op, L: l, R: r} }
func Un(op string, r Expr) *Unary        { return &Unary{Op: op, R: r} }
func CallE(c Expr, a ...Expr) *Call      { return &Call{Callee: c, Args: a} }
func CallN(name string, a ...Expr) *Call { return &Call{Callee: Id(name), Args: a} }

// Dump renders a tree in an unambiguous S-expression form (Group nodes are
// shown unless strip is set; ObjLit keys are sorted when sortKeys is set).
type DumpOpt struct {
	StripGroups bool
	SortKeys    bool
	NilCondTrue bool // a missing for-condition is shown as `true`
}

func DumpProgram(p []Stmt, o DumpOpt) string {
	var b strings.Builder
	for _, s := range p {
		dumpStmt(&b, s, o)
		b.WriteByte('\n')
	}
	return b.String()
}

func DumpExpr(e Expr, o DumpOpt) string {
	var b strings.Builder
	dumpExpr(&b, e, o)
	return b.String()
}

func dumpStmt(b *strings.Builder, s Stmt, o DumpOpt) {
	switch s := s.(type) {
	case nil:
		b.WriteString("<nil>")
	case *ExprStmt:
		b.WriteString("(expr ")
		dumpExpr(b, s.E, o)
		b.WriteString(")")
	case *Print:
		b.WriteString("(print ")
		dumpExpr(b, s.E, o)
		b.WriteString(")")
	case *Var:
		b.WriteString("(var " + s.Name)
		if s.Init != nil {
			b.WriteString(" ")
			dumpExpr(b, s.Init, o)
		}
		b.WriteString(")")
	case *VarList:
		b.WriteString("(varlist")
		for _, d := range s.Decls {
			b.WriteString(" ")
			dumpStmt(b, d, o)
		}
		b.WriteString(")")
	case *Block:
		b.WriteString("(block")
		for _, x := range s.Stmts {
			b.WriteString(" ")
			dumpStmt(b, x, o)
		}
		b.WriteString(")")
	case *If:
		b.WriteString("(if ")
		dumpExpr(b, s.C, o)
		b.WriteString(" ")
		dumpStmt(b, s.Then, o)
		if s.Else != nil {
			b.WriteString(" else ")
			dumpStmt(b, s.Else, o)
		}
		b.WriteString(")")
	case *While:
		b.WriteString("(while ")
		dumpExpr(b, s.C, o)
		b.WriteString(" ")
		dumpStmt(b, s.Body, o)
		b.WriteString(")")
	case *For:
		b.WriteString("(for ")
		if s.Init == nil {
			b.WriteString("_")
		} else {
			dumpStmt(b, s.Init, o)
		}
		b.WriteString(" ")
		if s.Cond == nil && o.NilCondTrue {
			b.WriteString("true")
		} else if s.Cond == nil {
			b.WriteString("_")
		} else {
			dumpExpr(b, s.Cond, o)
		}
		b.WriteString(" ")
		if s.Incr == nil {
			b.WriteString("_")
		} else {
			dumpExpr(b, s.Incr, o)
		}
		b.WriteString(" ")
		dumpStmt(b, s.Body, o)
		b.WriteString(")")
	case *Func:
		b.WriteString("(fun " + s.Name + " [" + strings.Join(s.Params, " ") + "]")
		for _, x := range s.Body {
			b.WriteString(" ")
			dumpStmt(b, x, o)
		}
		b.WriteString(")")
	case *Return:
		b.WriteString("(return")
		if s.V != nil {
			b.WriteString(" ")
			dumpExpr(b, s.V, o)
		}
		b.WriteString(")")
	case *Break:
		b.WriteString("(break)")
	case *Continue:
		b.WriteString("(continue)")
	default:
		b.WriteString(fmt.Sprintf("<?stmt %T>", s))
	}
}

func dumpExpr(b *strings.Builder, e Expr, o DumpOpt) {
	switch e := e.(type) {
	case nil:
		b.WriteString("<nil>")
	case *Lit:
		switch e.Kind {
		case LNil:
			b.WriteString("nil")
		case LTrue:
			b.WriteString("true")
		case LFalse:
			b.WriteString("false")
		case LNum:
			b.WriteString(fmt.Sprintf("#%x", mathBits(e.Num)))
		case LStr:
			b.WriteString(fmt.Sprintf("%q", e.Str))
		}
	case *Ident:
		b.WriteString("$" + e.Name)
	case *Group:
		if o.StripGroups {
			dumpExpr(b, e.E, o)
		} else {
			b.WriteString("(group ")
			dumpExpr(b, e.E, o)
			b.WriteString(")")
		}
	case *Unary:
		b.WriteString("(u" + e.Op + " ")
		dumpExpr(b, e.R, o)
		b.WriteString(")")
	case *Binary:
		b.WriteString("(" + e.Op + " ")
		dumpExpr(b, e.L, o)
		b.WriteString(" ")
		dumpExpr(b, e.R, o)
		b.WriteString(")")
	case *Logical:
		b.WriteString("(" + e.Op + " ")
		dumpExpr(b, e.L, o)
		b.WriteString(" ")
		dumpExpr(b, e.R, o)
		b.WriteString(")")
	case *Assign:
		b.WriteString("(set " + e.Name + " ")
		dumpExpr(b, e.V, o)
		b.WriteString(")")
	case *IndexSet:
		b.WriteString("(setidx ")
		dumpExpr(b, e.A, o)
		b.WriteString(" ")
		dumpExpr(b, e.I, o)
		b.WriteString(" ")
		dumpExpr(b, e.V, o)
		b.WriteString(")")
	case *PropSet:
		b.WriteString("(setprop ")
		dumpExpr(b, e.O, o)
		b.WriteString(" ." + e.Name + " ")
		dumpExpr(b, e.V, o)
		b.WriteString(")")
	case *Call:
		b.WriteString("(call ")
		dumpExpr(b, e.Callee, o)
		for _, a := range e.Args {
			b.WriteString(" ")
			dumpExpr(b, a, o)
		}
		b.WriteString(")")
	case *Index:
		b.WriteString("(idx ")
		dumpExpr(b, e.A, o)
		b.WriteString(" ")
		dumpExpr(b, e.I, o)
		b.WriteString(")")
	case *Prop:
		b.WriteString("(prop ")
		dumpExpr(b, e.O, o)
		b.WriteString(" ." + e.Name + ")")
	case *ArrayLit:
		b.WriteString("(array")
		for _, a := range e.Elems {
			b.WriteString(" ")
			dumpExpr(b, a, o)
		}
		b.WriteString(")")
	case *ObjLit:
		b.WriteString("(object")
		idx := make([]int, len(e.Keys))
		for i := range idx {
			idx[i] = i
		}
		if o.SortKeys {
			sort.SliceStable(idx, func(a, c int) bool { return e.Keys[idx[a]] < e.Keys[idx[c]] })
		}
		for _, i := range idx {
			b.WriteString(" " + e.Keys[i] + ":")
			dumpExpr(b, e.Vals[i], o)
		}
		b.WriteString(")")
	default:
		b.WriteString(fmt.Sprintf("<?expr %T>", e))
	}
}
