// Package bn holds the harness's own description of the Borno language:
// vocabulary (keywords, built-in names, operator ladder from grammer.txt), an
// AST that is independent of the implementation's, and printers.
package bn

// Keywords, code point by code point as documented in README.md / grammer.txt.
const (
	KwFun      = "ফাংশন"
	KwVar      = "ধরি"
	KwFor      = "ফর"
	KwIf       = "যদি"
	KwElse     = "নাহয়"
	KwWhile    = "যতক্ষণ"
	KwTrue     = "সত্য"
	KwFalse    = "মিথ্যা"
	KwNil      = "nil"
	KwPrint    = "দেখাও"
	KwReturn   = "ফেরত"
	KwBreak    = "থামো"
	KwContinue = "চালিয়ে_যাও"
	KwAnd      = "এবং"
	KwOr       = "বা"
)

// Built-in function names.
const (
	BClock  = "ক্লক"
	BLen    = "লেন"
	BPush   = "এড"
	BRemove = "রিমুভ"
	BDelKey = "কি_রিমুভ"
	BKeys   = "অব্জেক্ট_কি"
	BValues = "অব্জেক্ট_মান"
	BAbs    = "পরমমান"
	BSqrt   = "বর্গমূল"
	BPow    = "ঘাত"
	BSin    = "সাইন"
	BCos    = "কসাইন"
	BTan    = "ট্যান"
	BMin    = "সর্বনিম্ন"
	BMax    = "সর্বোচ্চ"
	BRound  = "রাউন্ড"
	BInput  = "ইনপুট"
)

// Builtins lists the 17 built-in names.
var Builtins = []string{BClock, BLen, BPush, BRemove, BDelKey, BKeys, BValues, BAbs, BSqrt, BPow, BSin, BCos, BTan, BMin, BMax, BRound, BInput}

// IsBuiltin reports whether name is one of the 17 built-in function names.
func IsBuiltin(name string) bool {
	for _, b := range Builtins {
		if b == name {
			return true
		}
	}
	return false
}

// TokKind is the harness's token classification.
type TokKind int

const (
	TLParen TokKind = iota
	TRParen
	TLBrace
	TRBrace
	TLBracket
	TRBracket
	TComma
	TDot
	TMinus
	TPlus
	TSemi
	TColon
	TSlash
	TStar
	TAmp
	TPipe
	TCaret
	TStarStar
	TTilde
	TPercent
	TBang
	TBangEq
	TEq
	TEqEq
	TGt
	TGe
	TShl
	TLt
	TLe
	TShr
	TIdent
	TString
	TNumber
	TBreak
	TContinue
	TAndAnd
	TElse
	TFalse
	TFun
	TFor
	TIf
	TNil
	TOrOr
	TPrint
	TReturn
	TTrue
	TVar
	TWhile
	TEOF
	NumTokKinds
)

var kindNames = [...]string{"LEFT_PAREN", "RIGHT_PAREN", "LEFT_BRACE", "RIGHT_BRACE", "LEFT_BRACKET", "RIGHT_BRACKET", "COMMA", "DOT", "MINUS", "PLUS", "SEMICOLON", "COLON", "SLASH", "STAR", "AND", "OR", "XOR", "POWER", "NOT", "MODULO", "BANG", "BANG_EQUAL", "EQUAL", "EQUAL_EQUAL", "GREATER", "GREATER_EQUAL", "LEFT_SHIFT", "LESS", "LESS_EQUAL", "RIGHT_SHIFT", "IDENTIFIER", "STRING", "NUMBER", "BREAK", "CONTINUE", "LOGICAL_AND", "ELSE", "FALSE", "FUN", "FOR", "IF", "NIL", "LOGICAL_OR", "PRINT", "RETURN", "TRUE", "VAR", "WHILE", "EOF"}

func (k TokKind) String() string {
	if int(k) < len(kindNames) {
		return kindNames[k]
	}
	return "?"
}

// Keywords maps each of the 15 keyword spellings to its token kind.
var Keywords = map[string]TokKind{
	KwFun: TFun, KwVar: TVar, KwFor: TFor, KwIf: TIf, KwElse: TElse, KwWhile: TWhile,
	KwTrue: TTrue, KwFalse: TFalse, KwNil: TNil, KwPrint: TPrint, KwReturn: TReturn,
	KwBreak: TBreak, KwContinue: TContinue, KwAnd: TAndAnd, KwOr: TOrOr,
}

// Tok is one token of the reference lexer.
type Tok struct {
	Kind TokKind
	Text string  // lexeme
	Num  float64 // NUMBER value
	Str  string  // STRING value (text between the quotes)
	Line int
	Pos  int // rune offset of first character
	End  int // rune offset one past last character
}

// Ladder levels of grammer.txt (higher binds tighter).
const (
	LvAssign = 1
	LvOr     = 2
	LvAnd    = 3
	LvBitOr  = 4
	LvBitXor = 5
	LvBitAnd = 6
	LvEq     = 7
	LvCmp    = 8
	LvShift  = 9
	LvTerm   = 10
	LvFactor = 11
	LvPower  = 12
	LvUnary  = 13
	LvCall   = 14
	LvPrim   = 15
)

// BinOps maps each binary (non-logical) operator spelling to its ladder level.
var BinOps = map[string]int{
	"|": LvBitOr, "^": LvBitXor, "&": LvBitAnd, "!=": LvEq, "==": LvEq,
	">": LvCmp, ">=": LvCmp, "<": LvCmp, "<=": LvCmp, ">>": LvShift, "<<": LvShift,
	"-": LvTerm, "+": LvTerm, "/": LvFactor, "*": LvFactor, "%": LvFactor, "**": LvPower,
}

// BinOpList is BinOps in a fixed order (for enumeration).
var BinOpList = []string{"|", "^", "&", "!=", "==", ">", ">=", "<", "<=", ">>", "<<", "-", "+", "/", "*", "%", "**"}

// BinOpOfKind maps token kinds to operator spellings for binary operators.
var BinOpOfKind = map[TokKind]string{
	TPipe: "|", TCaret: "^", TAmp: "&", TBangEq: "!=", TEqEq: "==", TGt: ">", TGe: ">=", TLt: "<", TLe: "<=",
	TShr: ">>", TShl: "<<", TMinus: "-", TPlus: "+", TSlash: "/", TStar: "*", TPercent: "%", TStarStar: "**",
}

// UnOps are the three prefix operators.
var UnOps = []string{"!", "-", "~"}
