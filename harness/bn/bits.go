package bn

import "math"

func mathBits(f float64) uint64 { return math.Float64bits(f) }
