package bn

import (
	"math"
	"strconv"
	"strings"
)

// PrintMode selects how much parenthesisation the printer adds.
type PrintMode int

const (
	// Minimal writes parentheses only where the documented ladder needs them.
	Minimal PrintMode = iota
	// Full wraps every operand, argument, condition and initialiser.
	Full
)

// Level is the ladder level of the node's top production.
func Level(e Expr) int {
	switch e := e.(type) {
	case *Assign, *IndexSet, *PropSet:
		return LvAssign
	case *Logical:
		if e.Op == "or" {
			return LvOr
		}
		return LvAnd
	case *Binary:
		return BinOps[e.Op]
	case *Unary:
		return LvUnary
	case *Call, *Index, *Prop:
		return LvCall
	}
	return LvPrim
}

// NumText gives a literal spelling (digits, optional fraction, no sign, no
// exponent) that denotes exactly the shortest round-trip decimal of v.
func NumText(v float64) string {
	if v < 0 || math.IsInf(v, 0) || math.IsNaN(v) {
		panic("bn.NumText: not a literal value")
	}
	return strconv.FormatFloat(v, 'f', -1, 64)
}

type printer struct {
	mode PrintMode
	b    strings.Builder
}

func (p *printer) lit(e *Lit) string {
	switch e.Kind {
	case LNil:
		return KwNil
	case LTrue:
		return KwTrue
	case LFalse:
		return KwFalse
	case LNum:
		if e.Text != "" {
			return e.Text
		}
		return NumText(e.Num)
	}
	return "\"" + e.Str + "\""
}

func (p *printer) wrap(s string) string { return "(" + s + ")" }

// operand prints e for a position that requires at least level min.
func (p *printer) operand(e Expr, min int) string {
	s := p.expr(e)
	if p.mode == Full {
		return p.wrap(s)
	}
	if Level(e) < min {
		return p.wrap(s)
	}
	return s
}

func (p *printer) list(es []Expr) string {
	parts := make([]string, len(es))
	for i, e := range es {
		parts[i] = p.operand(e, LvAssign)
	}
	return strings.Join(parts, ", ")
}

func (p *printer) expr(e Expr) string {
	switch e := e.(type) {
	case *Lit:
		return p.lit(e)
	case *Ident:
		return e.Name
	case *Group:
		return "(" + p.expr(e.E) + ")"
	case *Unary:
		r := p.operand(e.R, LvUnary)
		return e.Op + r
	case *Binary:
		lv := BinOps[e.Op]
		return p.operand(e.L, lv) + " " + e.Op + " " + p.operand(e.R, lv+1)
	case *Logical:
		lv, sp := LvOr, KwOr
		if e.Op == "and" {
			lv, sp = LvAnd, KwAnd
		}
		if e.Sym {
			sp = "||"
			if e.Op == "and" {
				sp = "&&"
			}
		}
		return p.operand(e.L, lv) + " " + sp + " " + p.operand(e.R, lv+1)
	case *Assign:
		return e.Name + " = " + p.operand(e.V, LvAssign)
	case *IndexSet:
		return p.operand(e.A, LvCall) + "[" + p.operand(e.I, LvAssign) + "] = " + p.operand(e.V, LvAssign)
	case *PropSet:
		return p.operand(e.O, LvCall) + "." + e.Name + " = " + p.operand(e.V, LvAssign)
	case *Call:
		return p.operand(e.Callee, LvCall) + "(" + p.list(e.Args) + ")"
	case *Index:
		return p.operand(e.A, LvCall) + "[" + p.operand(e.I, LvAssign) + "]"
	case *Prop:
		return p.operand(e.O, LvCall) + "." + e.Name
	case *ArrayLit:
		return "[" + p.list(e.Elems) + "]"
	case *ObjLit:
		parts := make([]string, len(e.Keys))
		for i := range e.Keys {
			parts[i] = e.Keys[i] + ": " + p.operand(e.Vals[i], LvAssign)
		}
		return "{" + strings.Join(parts, ", ") + "}"
	}
	panic("bn: unknown expr")
}

// top prints an expression in a position where the grammar says `expression`.
func (p *printer) top(e Expr) string { return p.operand(e, LvAssign) }

func (p *printer) varDecl(v *Var) string {
	if v.Init == nil {
		return v.Name
	}
	return v.Name + " = " + p.top(v.Init)
}

func (p *printer) simple(s Stmt) (string, bool) {
	switch s := s.(type) {
	case *ExprStmt:
		return p.top(s.E) + ";", true
	case *Print:
		return KwPrint + " " + p.top(s.E) + ";", true
	case *Var:
		return KwVar + " " + p.varDecl(s) + ";", true
	case *VarList:
		parts := make([]string, len(s.Decls))
		for i, d := range s.Decls {
			parts[i] = p.varDecl(d)
		}
		return KwVar + " " + strings.Join(parts, ", ") + ";", true
	case *Return:
		if s.V == nil {
			return KwReturn + ";", true
		}
		return KwReturn + " " + p.top(s.V) + ";", true
	case *Break:
		return KwBreak + ";", true
	case *Continue:
		return KwContinue + ";", true
	}
	return "", false
}

func (p *printer) body(s Stmt, ind string) {
	// prints the statement that follows a header on the same line (block) or
	// on the next line (anything else)
	if blk, ok := s.(*Block); ok {
		p.b.WriteString(" {\n")
		for _, x := range blk.Stmts {
			p.stmt(x, ind+"  ")
		}
		p.b.WriteString(ind + "}")
		return
	}
	p.b.WriteString("\n")
	p.stmtNoNL(s, ind+"  ")
}

func (p *printer) stmt(s Stmt, ind string) {
	p.stmtNoNL(s, ind)
	p.b.WriteString("\n")
}

func (p *printer) stmtNoNL(s Stmt, ind string) {
	if t, ok := p.simple(s); ok {
		p.b.WriteString(ind + t)
		return
	}
	switch s := s.(type) {
	case *Block:
		p.b.WriteString(ind + "{\n")
		for _, x := range s.Stmts {
			p.stmt(x, ind+"  ")
		}
		p.b.WriteString(ind + "}")
	case *If:
		p.b.WriteString(ind + KwIf + " (" + p.top(s.C) + ")")
		p.body(s.Then, ind)
		if s.Else != nil {
			if _, ok := s.Then.(*Block); ok {
				p.b.WriteString(" " + KwElse)
			} else {
				p.b.WriteString("\n" + ind + KwElse)
			}
			p.body(s.Else, ind)
		}
	case *While:
		p.b.WriteString(ind + KwWhile + " (" + p.top(s.C) + ")")
		p.body(s.Body, ind)
	case *For:
		p.b.WriteString(ind + KwFor + " (")
		if s.Init == nil {
			p.b.WriteString(";")
		} else {
			t, _ := p.simple(s.Init)
			p.b.WriteString(t)
		}
		if s.Cond != nil {
			p.b.WriteString(" " + p.top(s.Cond))
		}
		p.b.WriteString(";")
		if s.Incr != nil {
			p.b.WriteString(" " + p.top(s.Incr))
		}
		p.b.WriteString(")")
		p.body(s.Body, ind)
	case *Func:
		p.b.WriteString(ind + KwFun + " " + s.Name + "(" + strings.Join(s.Params, ", ") + ") {\n")
		for _, x := range s.Body {
			p.stmt(x, ind+"  ")
		}
		p.b.WriteString(ind + "}")
	default:
		panic("bn: unknown stmt")
	}
}

// ExprText renders one expression.
func ExprText(e Expr, mode PrintMode) string {
	p := &printer{mode: mode}
	return p.expr(e)
}

// ProgramText renders a program, one statement per line, nested bodies indented.
func ProgramText(prog []Stmt, mode PrintMode) string {
	p := &printer{mode: mode}
	for _, s := range prog {
		p.stmt(s, "")
	}
	return p.b.String()
}

// StmtText renders one statement (without trailing newline).
func StmtText(s Stmt, mode PrintMode) string {
	p := &printer{mode: mode}
	p.stmtNoNL(s, "")
	return p.b.String()
}
