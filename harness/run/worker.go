// Package run executes Borno programs against the real implementation: through
// a batch worker (the real binary built with -tags verif, see main_verif.go in
// /repo) or as an ordinary CLI child process.
package run

import (
	"bufio"
	"bytes"
	"encoding/json"
	"fmt"
	"io"
	"os"
	"os/exec"
	"regexp"
	"strconv"
	"strings"
	"sync"
	"syscall"
	"time"
)

// Req is one batch request.
type Req struct {
	Src    string `json:"src"`
	Stdin  string `json:"stdin"`
	Repl   bool   `json:"repl"`
	Budget int64  `json:"budget"`
	Depth  int64  `json:"depth"`
}

// Resp is the observed behaviour of one execution.
type Resp struct {
	Out       string `json:"out"`
	Err       string `json:"err"`
	HadErr    bool   `json:"hadErr"`
	HadRt     bool   `json:"hadRt"`
	Panic     string `json:"panic"`
	BudgetHit bool   `json:"budgetHit"`
	Steps     int64  `json:"steps"`
	// set by the parent
	Crash     bool   `json:"crash,omitempty"` // worker died while executing this request
	CrashInfo string `json:"crashInfo,omitempty"`
	Hang      bool   `json:"hang,omitempty"` // no answer within the watchdog limit
}

// DefaultBudget is the step budget applied when a request has none.
const DefaultBudget = 3000000

// DefaultDepth is the user-call depth limit applied when a request has none.
const DefaultDepth = 5000

// Worker is one batch-mode child process.
type Worker struct {
	bin, dir string
	cmd      *exec.Cmd
	in       io.WriteCloser
	out      *bufio.Reader
	errBuf   *tailBuffer
	Restarts int
	Watchdog time.Duration
	Runs     int64
}

type tailBuffer struct {
	mu sync.Mutex
	b  []byte
}

func (t *tailBuffer) Write(p []byte) (int, error) {
	t.mu.Lock()
	defer t.mu.Unlock()
	t.b = append(t.b, p...)
	if len(t.b) > 8192 {
		// keep head (panic banner) and tail
		head := append([]byte{}, t.b[:2048]...)
		tail := t.b[len(t.b)-2048:]
		t.b = append(append(head, []byte("\n...\n")...), tail...)
	}
	return len(p), nil
}
func (t *tailBuffer) String() string {
	t.mu.Lock()
	defer t.mu.Unlock()
	return string(t.b)
}

// NewWorker starts a batch worker of the binary bin; dir is a scratch directory.
func NewWorker(bin, dir string) (*Worker, error) {
	w := &Worker{bin: bin, dir: dir, Watchdog: 60 * time.Second}
	if err := w.start(); err != nil {
		return nil, err
	}
	return w, nil
}

func (w *Worker) start() error {
	cmd := exec.Command(w.bin)
	cmd.Env = append(os.Environ(), "BORNO_VERIF_BATCH=1", "BORNO_VERIF_DIR="+w.dir)
	in, err := cmd.StdinPipe()
	if err != nil {
		return err
	}
	out, err := cmd.StdoutPipe()
	if err != nil {
		return err
	}
	w.errBuf = &tailBuffer{}
	cmd.Stderr = w.errBuf
	if err := cmd.Start(); err != nil {
		return err
	}
	w.cmd, w.in, w.out = cmd, in, bufio.NewReaderSize(out, 1<<20)
	return nil
}

// Close stops the worker.
func (w *Worker) Close() {
	if w.cmd != nil {
		w.in.Close()
		done := make(chan struct{})
		go func() { w.cmd.Wait(); close(done) }()
		select {
		case <-done:
		case <-time.After(2 * time.Second):
			w.cmd.Process.Kill()
			<-done
		}
		w.cmd = nil
	}
}

func (w *Worker) kill() {
	if w.cmd != nil {
		w.cmd.Process.Kill()
		w.cmd.Wait()
		w.cmd = nil
	}
}

// Run executes one request.  A worker death or watchdog expiry is attributed
// to the request and the worker is restarted.
func (w *Worker) Run(req Req) Resp {
	if req.Budget == 0 {
		req.Budget = DefaultBudget
	}
	if req.Depth == 0 {
		req.Depth = DefaultDepth
	}
	if w.cmd == nil {
		if err := w.start(); err != nil {
			panic("run: cannot restart worker: " + err.Error())
		}
	}
	w.Runs++
	b, _ := json.Marshal(&req)
	b = append(b, '\n')
	type rd struct {
		line []byte
		err  error
	}
	ch := make(chan rd, 1)
	go func() {
		_, werr := w.in.Write(b)
		if werr != nil {
			ch <- rd{nil, werr}
			return
		}
		line, err := w.out.ReadBytes('\n')
		ch <- rd{line, err}
	}()
	select {
	case r := <-ch:
		if r.err != nil || len(r.line) == 0 {
			// worker died
			w.cmd.Wait()
			info := w.errBuf.String()
			w.cmd = nil
			w.Restarts++
			return Resp{Crash: true, CrashInfo: info}
		}
		var resp Resp
		if err := json.Unmarshal(r.line, &resp); err != nil {
			w.kill()
			w.Restarts++
			return Resp{Crash: true, CrashInfo: "bad response: " + string(r.line)}
		}
		return resp
	case <-time.After(w.Watchdog):
		w.kill()
		<-ch
		w.Restarts++
		return Resp{Hang: true}
	}
}

// CLIResult is what one ordinary process run produced.
type CLIResult struct {
	Stdout, Stderr string
	Status         int
	TimedOut       bool
	Signal         string
	Truncated      bool // the capture limit was reached: Stdout / Stderr are incomplete
}

// CLI runs the binary with the given arguments and stdin.
func CLI(bin string, args []string, stdin string, dir string, timeout time.Duration) CLIResult {
	cmd := exec.Command(bin, args...)
	cmd.Dir = dir
	cmd.Stdin = strings.NewReader(stdin)
	var so, se bytes.Buffer
	wo, we := &limitWriter{w: &so, n: 64 << 20}, &limitWriter{w: &se, n: 4 << 20}
	cmd.Stdout, cmd.Stderr = wo, we
	cmd.Env = cleanEnv()
	if err := cmd.Start(); err != nil {
		return CLIResult{Status: -1, Stderr: "start: " + err.Error()}
	}
	done := make(chan error, 1)
	go func() { done <- cmd.Wait() }()
	var res CLIResult
	select {
	case <-done:
	case <-time.After(timeout):
		cmd.Process.Kill()
		<-done
		res.TimedOut = true
	}
	res.Stdout, res.Stderr = so.String(), se.String()
	res.Truncated = wo.dropped || we.dropped
	if ps := cmd.ProcessState; ps != nil {
		res.Status = ps.ExitCode()
		if ws, ok := ps.Sys().(syscall.WaitStatus); ok && ws.Signaled() {
			res.Signal = ws.Signal().String()
		}
	}
	return res
}

// CLIMerged runs the binary with stdout and stderr sharing one pipe (so their
// interleaving is observable).
func CLIMerged(bin string, args []string, stdin string, dir string, timeout time.Duration) (string, int, bool) {
	cmd := exec.Command(bin, args...)
	cmd.Dir = dir
	cmd.Stdin = strings.NewReader(stdin)
	var so bytes.Buffer
	lw := &limitWriter{w: &so, n: 8 << 20}
	cmd.Stdout, cmd.Stderr = lw, lw
	cmd.Env = cleanEnv()
	if err := cmd.Start(); err != nil {
		return "start: " + err.Error(), -1, false
	}
	done := make(chan error, 1)
	go func() { done <- cmd.Wait() }()
	timedOut := false
	select {
	case <-done:
	case <-time.After(timeout):
		cmd.Process.Kill()
		<-done
		timedOut = true
	}
	return so.String(), cmd.ProcessState.ExitCode(), timedOut
}

// CLIMergedChunks is CLIMerged with the stdin bytes delivered piece by piece,
// gap apart (the harness owns the delivery schedule of the pipe).
func CLIMergedChunks(bin string, args []string, chunks []string, gap time.Duration, dir string, timeout time.Duration) (string, int, bool) {
	cmd := exec.Command(bin, args...)
	cmd.Dir = dir
	in, err := cmd.StdinPipe()
	if err != nil {
		return "pipe: " + err.Error(), -1, false
	}
	var so bytes.Buffer
	lw := &limitWriter{w: &so, n: 8 << 20}
	cmd.Stdout, cmd.Stderr = lw, lw
	cmd.Env = cleanEnv()
	if err := cmd.Start(); err != nil {
		return "start: " + err.Error(), -1, false
	}
	go func() {
		for i, ch := range chunks {
			if i > 0 {
				time.Sleep(gap)
			}
			if _, err := in.Write([]byte(ch)); err != nil {
				break
			}
		}
		in.Close()
	}()
	done := make(chan error, 1)
	go func() { done <- cmd.Wait() }()
	timedOut := false
	select {
	case <-done:
	case <-time.After(timeout):
		cmd.Process.Kill()
		<-done
		timedOut = true
	}
	return so.String(), cmd.ProcessState.ExitCode(), timedOut
}

func cleanEnv() []string {
	var env []string
	for _, e := range os.Environ() {
		if strings.HasPrefix(e, "BORNO_VERIF_") {
			continue
		}
		env = append(env, e)
	}
	return env
}

type limitWriter struct {
	w       *bytes.Buffer
	n       int
	dropped bool // something was written after the limit had been reached
	mu      sync.Mutex
}

func (l *limitWriter) Write(p []byte) (int, error) {
	l.mu.Lock()
	defer l.mu.Unlock()
	if l.w.Len() < l.n {
		l.w.Write(p)
	} else if len(p) > 0 {
		l.dropped = true
	}
	return len(p), nil
}

// Outcome classes.
const (
	Clean    = "clean"
	Rejected = "rejected"
	RtError  = "runtime-error"
	Abnormal = "abnormal" // panic, crash, fatal error
	Hung     = "hang"
	Budget   = "budget"
)

// Class classifies a batch response.
func (r *Resp) Class() string {
	switch {
	case r.Crash || r.Panic != "":
		return Abnormal
	case r.Hang:
		return Hung
	case r.BudgetHit:
		return Budget
	case r.HadErr:
		return Rejected
	case r.HadRt:
		return RtError
	}
	return Clean
}

// ClassOfCLI classifies a CLI run of a script.
func (c *CLIResult) Class() string {
	switch {
	case c.TimedOut:
		return Hung
	case c.Status == 0:
		return Clean
	case c.Status == 65:
		return Rejected
	case c.Status == 70:
		return RtError
	}
	return Abnormal
}

var lineRe = regexp.MustCompile(`line (\d+)`)

// FirstLine returns the first line of a stderr text.
func FirstLine(s string) string {
	if i := strings.IndexByte(s, '\n'); i >= 0 {
		return s[:i]
	}
	return s
}

// DiagLine extracts the line number of the first diagnostic in a stderr text
// (first occurrence of "line N"); -1 if none.
func DiagLine(stderr string) int {
	m := lineRe.FindStringSubmatch(stderr)
	if m == nil {
		return -1
	}
	n, _ := strconv.Atoi(m[1])
	return n
}

// Describe renders a response for messages.
func (r *Resp) Describe() string {
	return fmt.Sprintf("class=%s out=%q err=%q panic=%q crash=%v info=%.300q", r.Class(), trunc(r.Out, 400), trunc(r.Err, 300), r.Panic, r.Crash, r.CrashInfo)
}

func trunc(s string, n int) string {
	if len(s) > n {
		return s[:n] + "…"
	}
	return s
}
