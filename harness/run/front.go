package run

import (
	"io"
	"os"

	"github.com/ah-naf/borno/utils"
)

// Front captures what the in-process front end (lexer, parser) writes to
// os.Stderr.  It relies on one fact about the implementation that is itself
// re-checked by Verify: every diagnostic sets utils.HadError.
type Front struct {
	f      *os.File
	off    int64
	saved  *os.File
	buf    []byte
}

// NewFront redirects os.Stderr into a scratch file in dir.
func NewFront(dir string) (*Front, error) {
	f, err := os.CreateTemp(dir, "front-stderr")
	if err != nil {
		return nil, err
	}
	os.Remove(f.Name())
	fr := &Front{f: f, saved: os.Stderr}
	os.Stderr = f
	return fr, nil
}

// Begin resets the error flags before a case.
func (fr *Front) Begin() {
	utils.HadError = false
	utils.HadRuntimeError = false
}

// Stderr returns what was written since the last call (reads only when the
// error flag is set or force is true).
func (fr *Front) Stderr(force bool) string {
	if !utils.HadError && !utils.HadRuntimeError && !force {
		return ""
	}
	end, _ := fr.f.Seek(0, io.SeekEnd)
	if end == fr.off {
		return ""
	}
	n := int(end - fr.off)
	if cap(fr.buf) < n {
		fr.buf = make([]byte, n)
	}
	b := fr.buf[:n]
	fr.f.ReadAt(b, fr.off)
	fr.off = end
	if end > 64<<20 {
		fr.f.Truncate(0)
		fr.f.Seek(0, io.SeekStart)
		fr.off = 0
	}
	return string(b)
}

// Unread reports whether diagnostics were written that no Stderr call saw
// (i.e. a diagnostic that did not set the error flag).
func (fr *Front) Unread() bool {
	end, _ := fr.f.Seek(0, io.SeekEnd)
	return end != fr.off
}

// Close restores os.Stderr.
func (fr *Front) Close() {
	os.Stderr = fr.saved
	fr.f.Close()
}
