#!/bin/bash
# Run once after a fresh restore, offline: warms the Go build cache for the
# harness, the driver and /repo (nothing is fetched; all modules are vendored in
# the module cache of this sandbox).
set -eu
export GOFLAGS=-mod=mod GOPROXY=off GOSUMDB=off GOTOOLCHAIN=local
cd "$(dirname "$0")/harness"
go build ./...
go vet ./checks >/dev/null 2>&1 || true
T="$(mktemp -d "${TMPDIR:-/tmp}/verif-setup-XXXXXX")"
trap 'rm -rf "$T"' EXIT
go build -o "$T/driver" ./cmd/driver
go test -c -tags verif -o "$T/checks.test" ./checks
(cd /repo && GOFLAGS=-mod=readonly go build -tags verif -o "$T/borno" .)
echo "setup ok"
