#!/usr/bin/env python3
"""seedrecord.py <name> first|later <text...> : record a detection result in seeded/<name>/meta.json"""
import json,sys
name,kind=sys.argv[1],sys.argv[2]; vals=sys.argv[3:]
p='/verif/seeded/%s/meta.json'%name; m=json.load(open(p))
key='detected_by_quick_checks_at_first_try' if kind=='first' else 'detected_after_strengthening'
m.setdefault(key,[]); 
for v in vals:
    if v not in m[key]: m[key].append(v)
m.setdefault('detected_by_quick_checks_at_first_try',[]); m.setdefault('detected_after_strengthening',[])
m['what_was_run']='seedconfirm.sh (scratch worktree) then seedtest.sh <name> <checks>: git -C /repo apply patch.diff; ./check <ID> quick; git -C /repo checkout -- .'
m.pop('detected_by',None)
json.dump(m,open(p,'w'),indent=1,ensure_ascii=False)
