#!/usr/bin/env python3
"""Generates /verif/mutants/<ID>/<name>.patch from (file, old, new) replacements applied in a scratch worktree
of /repo (never in /repo itself).  Usage: mkmutants.py <scratch-worktree>"""
import os, subprocess, sys
W = sys.argv[1]
M = [
 # id, name, file, old, new
 ("C01","comparison-not-left-assoc","parser/parser.go","for p.match(token.GREATER, token.GREATER_EQUAL, token.LESS, token.LESS_EQUAL)","if p.match(token.GREATER, token.GREATER_EQUAL, token.LESS, token.LESS_EQUAL)"),
 ("C01","modulo-dropped-from-factor","parser/parser.go","for p.match(token.SLASH, token.STAR, token.MODULO)","for p.match(token.SLASH, token.STAR)"),
 ("C01","shift-below-term","parser/parser.go","for p.match(token.LEFT_SHIFT, token.RIGHT_SHIFT) {\n\t\toperator := p.previous()\n\t\tright, err := p.term()","for p.match(token.LEFT_SHIFT, token.RIGHT_SHIFT) {\n\t\toperator := p.previous()\n\t\tright, err := p.factor()"),
 ("C01","else-binds-to-outer-if","parser/parser.go","\tthenBranch, err := p.statement()\n\tif err != nil {\n\t\treturn nil, err\n\t}\n\tvar elseBranch ast.Stmt\n\tif p.match(token.ELSE) {","\tthenBranch, err := p.statement()\n\tif err != nil {\n\t\treturn nil, err\n\t}\n\tvar elseBranch ast.Stmt\n\tif _, nested := thenBranch.(*ast.IfStmt); !nested && p.match(token.ELSE) {"),
 ("C02","ge-as-gt","interpreter/interpreter.go","return leftNum >= rightNum","return leftNum > rightNum"),
 ("C02","mod-args-swapped","interpreter/interpreter.go","return math.Mod(leftNum, rightNum)","return math.Mod(rightNum, leftNum)"),
 ("C02","shl-as-shr","interpreter/interpreter.go","return integerResult(leftInt << rightInt)","return integerResult(leftInt >> rightInt)"),
 ("C02","mod-zero-check-dropped","interpreter/interpreter.go","\t\tif rightNum == 0 {\n\t\t\tutils.RuntimeError(operator, \"Division by zero.\")\n\t\t\treturn nil\n\t\t}\n\t\treturn math.Mod","\t\treturn math.Mod"),
 ("C02","equality-by-rendering","interpreter/interpreter.go","func isEqual(a, b interface{}) bool {\n","func isEqual(a, b interface{}) bool {\n\tif fmt.Sprint(a) == fmt.Sprint(b) {\n\t\treturn true\n\t}\n"),
 ("C03","block-reuses-scope","interpreter/interpreter.go","newEnv := environment.NewEnvironmentWithParent(env)","newEnv := env"),
 ("C03","redeclare-check-walks-chain","interpreter/interpreter.go","_, err := env.GetInCurrentScope(e.Name.Lexeme)","_, err := env.Get(e.Name.Lexeme)"),
 ("C03","for-init-in-outer-scope","interpreter/interpreter.go","_, signal := i.eval(e.Initializer, newEnvironement, isRepl)","_, signal := i.eval(e.Initializer, env, isRepl)"),
 ("C03","assign-defines-in-parent","environment/environment.go","\t\te.Parent.Assign(name, value)","\t\te.Parent.Define(name.Lexeme, value)"),
 ("C03","activation-under-caller-globals","interpreter/function.go","functionEnv := environment.NewEnvironmentWithParent(f.Closure)","functionEnv := environment.NewEnvironmentWithParent(i.globals)"),
 ("C04","params-bound-in-reverse","interpreter/function.go","functionEnv.Define(param.Lexeme, arguments[ind])","functionEnv.Define(param.Lexeme, arguments[len(arguments)-1-ind])"),
 ("C04","activation-is-closure-scope","interpreter/function.go","functionEnv := environment.NewEnvironmentWithParent(f.Closure)","functionEnv := f.Closure"),
 ("C04","return-lost-in-for","interpreter/interpreter.go","\t\t\tif signal.Type == ControlFlowContinue {\n\t\t\t\t// Skip to the increment\n\t\t\t} else if signal.Type != ControlFlowNone {\n\t\t\t\treturn nil, signal\n\t\t\t}","\t\t\tif signal.Type == ControlFlowContinue {\n\t\t\t\t// Skip to the increment\n\t\t\t}"),
 ("C04","return-lost-in-while","interpreter/interpreter.go","\t\t\tif signal.Type == ControlFlowReturn {\n\t\t\t\treturn nil, signal // Leave the enclosing function\n\t\t\t}\n",""),
 ("C05","continue-skips-increment","interpreter/interpreter.go","// Skip to the increment","continue"),
 ("C05","if-then-for-zero","interpreter/interpreter.go","\t\tif isTruthy(cc) {","\t\tif isTruthy(cc) || cc == 0.0 {"),
 ("C05","while-continue-breaks","interpreter/interpreter.go","\t\t\t_, signal = i.eval(e.Body, env, isRepl)\n\t\t\tif signal.Type == ControlFlowBreak {","\t\t\t_, signal = i.eval(e.Body, env, isRepl)\n\t\t\tif signal.Type == ControlFlowBreak || signal.Type == ControlFlowContinue {"),
 ("C05","stray-continue-not-reported","interpreter/interpreter.go","\t\t} else if signal.Type == ControlFlowContinue {\n\t\t\tutils.RuntimeError(token.Token{Line: signal.LineNumber}, \"Unexpected 'continue' outside of loop.\")\n\t\t\treturn nil\n","\t\t} else if signal.Type == ControlFlowContinue {\n\t\t\tcontinue\n"),
 ("C06","exit-1-instead-of-70","main.go","os.Exit(70)","os.Exit(1)"),
 ("C06","callee-error-next-line","interpreter/interpreter.go","utils.RuntimeError(e.Paren, \"Can only call functions.\")","utils.RuntimeError(token.Token{Line: e.Paren.Line + 1}, \"Can only call functions.\")"),
 ("X06","eval-guard-removed","interpreter/interpreter.go","\tif utils.HadRuntimeError {\n\t\t// A runtime error has been reported: nothing else is evaluated.\n\t\treturn nil, &ControlFlowSignal{Type: ControlFlowNone, LineNumber: 0}\n\t}\n",""),
 ("C06","index-error-does-not-set-flag","interpreter/interpreter.go","\t\t\tutils.RuntimeError(token.Token{Line: e.Line}, \"Array index out of bounds.\")\n\t\t\treturn nil, &ControlFlowSignal{Type: ControlFlowNone, LineNumber: 0}\n\t\t}\n\n\t\treturn array[index]","\t\t\tfmt.Fprintf(os.Stderr, \"Array index out of bounds.\\n[line %d]\\n\", e.Line)\n\t\t\treturn nil, &ControlFlowSignal{Type: ControlFlowNone, LineNumber: 0}\n\t\t}\n\n\t\treturn array[index]"),
 ("C07","index-upper-bound-dropped","interpreter/interpreter.go","\t\tif index < 0 || int(index) >= len(array) {\n\t\t\tutils.RuntimeError(token.Token{Line: e.Line}, \"Array index out of bounds.\")\n\t\t\treturn nil, &ControlFlowSignal{Type: ControlFlowNone, LineNumber: 0}\n\t\t}\n\n\t\treturn array[index]","\t\tif index < 0 {\n\t\t\tutils.RuntimeError(token.Token{Line: e.Line}, \"Array index out of bounds.\")\n\t\t\treturn nil, &ControlFlowSignal{Type: ControlFlowNone, LineNumber: 0}\n\t\t}\n\n\t\treturn array[index]"),
 ("C07","len-unchecked-assertion","interpreter/nativeFunctionArray.go","\tarray, ok := arguments[0].([]interface{})\n\tif !ok {\n\t\treturn nil, fmt.Errorf(\"len function only works on arrays\")\n\t}","\tarray := arguments[0].([]interface{})"),
 ("C07","max-without-count-check","interpreter/nativeFunctionMath.go","\tif len(arguments) == 0 {\n\t\treturn nil, fmt.Errorf(\"max function expects at least 1 argument\")\n\t}\n",""),
 ("C08","param-limit-256","parser/parser.go","if len(parameters) >= 255 {","if len(parameters) >= 256 {"),
 ("C08","diagnostic-at-previous-token","parser/parser.go","return token.Token{}, p.error(p.peek(), message)","return token.Token{}, p.error(p.previous(), message)"),
 ("C08","interpret-despite-syntax-error","main.go","\tif utils.HadError {\n\t\treturn\n\t}\n\n\tinterpreter := interpreter.NewInterpreter()","\tinterpreter := interpreter.NewInterpreter()"),
 ("C08","function-reserved-check-dropped","parser/parser.go","\tif _, isReserved := reservedIdentifiers[name.Lexeme]; isReserved {\n\t\treturn nil, p.error(name, fmt.Sprintf(\"'%s' is a reserved identifier and cannot be used as a function name.\", name.Lexeme))\n\t}\n",""),
 ("C08","missing-semicolon-accepted-after-print","parser/parser.go","\tp.consume(token.SEMICOLON, \"Expect ';' after value.\")\n\treturn &ast.PrintStatement{Expression: value}, nil","\tp.match(token.SEMICOLON)\n\treturn &ast.PrintStatement{Expression: value}, nil"),
 ("C09","string-value-includes-quote","lexer/scanner.go","value := string(s.source[s.start+1 : s.current-1])","value := string(s.source[s.start+1 : s.current])"),
 ("C09","no-line-count-in-strings","lexer/scanner.go","\tfor s.peek() != '\"' && !s.isAtEnd() {\n\t\tif s.peek() == '\\n' {\n\t\t\ts.line++\n\t\t}\n\t\ts.advance()","\tfor s.peek() != '\"' && !s.isAtEnd() {\n\t\ts.advance()"),
 ("C09","identifier-without-marks","lexer/scanner.go","return unicode.IsLetter(r) || unicode.IsMark(r) || r == '_'","return unicode.IsLetter(r) || r == '_'"),
 ("X09","le-after-shl","lexer/scanner.go","\t\tif s.match('=') {\n\t\t\ts.addToken(token.LESS_EQUAL)\n\t\t} else if s.match('<') {\n\t\t\ts.addToken(token.LEFT_SHIFT)","\t\tif s.match('<') {\n\t\t\ts.addToken(token.LEFT_SHIFT)\n\t\t} else if s.match('=') {\n\t\t\ts.addToken(token.LESS_EQUAL)"),
 ("C10","digit-table-6-to-5","utils/utils.go","'৬': '6'","'৬': '5'"),
 ("C10","digit-range-ends-at-8","lexer/scanner.go","c <= '৯'","c <= '৮'"),
 ("C10","fraction-without-digit-guard","lexer/scanner.go","if s.peek() == '.' && isDigit(s.peekNext())","if s.peek() == '.'"),
 ("C10","overflow-error-ignored","lexer/scanner.go","utils.GlobalError(s.line, \"Invalid number format\")","value = value + 0"),
 ("C11","index-bound-off-by-one","interpreter/interpreter.go","\t\tif index < 0 || int(index) >= len(array) {\n\t\t\tutils.RuntimeError(token.Token{Line: e.Line}, \"Array index out of bounds.\")\n\t\t\treturn nil, &ControlFlowSignal{Type: ControlFlowNone, LineNumber: 0}\n\t\t}\n\n\t\t// Update","\t\tif index < 0 || int(index) > len(array) {\n\t\t\tutils.RuntimeError(token.Token{Line: e.Line}, \"Array index out of bounds.\")\n\t\t\treturn nil, &ControlFlowSignal{Type: ControlFlowNone, LineNumber: 0}\n\t\t}\n\n\t\t// Update"),
 ("C11","remove-drops-next-element","interpreter/nativeFunctionArray.go","result = append(result, array[index+1:]...)","result = append(result, array[index+2:]...)"),
 ("C11","push-appends-in-place","interpreter/nativeFunctionArray.go","\tresult := make([]interface{}, 0, len(array)+len(arguments)-1)\n\tresult = append(result, array...)\n\tresult = append(result, arguments[1:]...)","\tresult := append(array, arguments[1:]...)"),
 ("C11","negative-index-wraps","interpreter/interpreter.go","\t\tindex, err := toInt64(indexValue)\n\t\tif err != nil {\n\t\t\tutils.RuntimeError(token.Token{Line: e.Line}, \"Array index must be an integer.\")\n\t\t\treturn nil, &ControlFlowSignal{Type: ControlFlowNone, LineNumber: 0}\n\t\t}\n\n\t\tif index < 0 || int(index) >= len(array) {\n\t\t\tutils.RuntimeError(token.Token{Line: e.Line}, \"Array index out of bounds.\")\n\t\t\treturn nil, &ControlFlowSignal{Type: ControlFlowNone, LineNumber: 0}\n\t\t}\n\n\t\treturn array[index]","\t\tindex, err := toInt64(indexValue)\n\t\tif err != nil {\n\t\t\tutils.RuntimeError(token.Token{Line: e.Line}, \"Array index must be an integer.\")\n\t\t\treturn nil, &ControlFlowSignal{Type: ControlFlowNone, LineNumber: 0}\n\t\t}\n\t\tif index < 0 && int(-index) <= len(array) {\n\t\t\tindex += int64(len(array))\n\t\t}\n\n\t\tif index < 0 || int(index) >= len(array) {\n\t\t\tutils.RuntimeError(token.Token{Line: e.Line}, \"Array index out of bounds.\")\n\t\t\treturn nil, &ControlFlowSignal{Type: ControlFlowNone, LineNumber: 0}\n\t\t}\n\n\t\treturn array[index]"),
 ("C12","values-in-map-order","interpreter/nativeFunctionObject.go","\tfor _, key := range sortedKeys(object) {\n\t\tvalues = append(values, object[key])\n\t}","\tfor _, value := range object {\n\t\tvalues = append(values, value)\n\t}"),
 ("C12","absent-property-reads-nil","interpreter/interpreter.go","\t\tif !exists {\n\t\t\tutils.RuntimeError(token.Token{Line: e.Line}, \"Property '\"+propertyName+\"' does not exist on the object.\")\n\t\t\treturn nil, &ControlFlowSignal{Type: ControlFlowNone, LineNumber: 0}\n\t\t}","\t\t_ = exists"),
 ("C12","delete-never-fails","interpreter/nativeFunctionObject.go","\tif _, exists := object[key]; exists {\n\t\tdelete(object, key)\n\t} else {\n\t\treturn nil, fmt.Errorf(\"key '%s' not found in object\", key)\n\t}","\tdelete(object, key)"),
 ("C12","property-write-copies-map","interpreter/interpreter.go","\t\tpropertyName := e.Property.Lexeme\n\t\tobject[propertyName] = newValue","\t\tpropertyName := e.Property.Lexeme\n\t\tif len(object) >= 3 {\n\t\t\tcopied := make(map[string]interface{}, len(object)+1)\n\t\t\tfor k, v := range object {\n\t\t\t\tcopied[k] = v\n\t\t\t}\n\t\t\tobject = copied\n\t\t}\n\t\tobject[propertyName] = newValue"),
 ("C13","keys-in-map-order","interpreter/nativeFunctionObject.go","\tfor _, key := range sortedKeys(object) {\n\t\tkeys = append(keys, key)\n\t}","\tfor key := range object {\n\t\tkeys = append(keys, key)\n\t}"),
 ("C13","literal-initialisers-in-map-order","interpreter/interpreter.go","\t\tfor n, key := range e.Keys {\n\t\t\tvalue, signal := i.eval(e.Values[n], env, isRepl)","\t\tfor key := range e.Properties {\n\t\t\tvalue, signal := i.eval(e.Properties[key], env, isRepl)"),
 ("C14","arguments-right-to-left","interpreter/interpreter.go","\t\tfor _, arg := range e.Arguments {\n\t\t\targValue, signal := i.eval(arg, env, isRepl)\n\t\t\tif signal.Type != ControlFlowNone {\n\t\t\t\treturn nil, signal\n\t\t\t}\n\t\t\targuments = append(arguments, argValue)\n\t\t}","\t\targuments = make([]interface{}, len(e.Arguments))\n\t\tfor k := len(e.Arguments) - 1; k >= 0; k-- {\n\t\t\targValue, signal := i.eval(e.Arguments[k], env, isRepl)\n\t\t\tif signal.Type != ControlFlowNone {\n\t\t\t\treturn nil, signal\n\t\t\t}\n\t\t\targuments[k] = argValue\n\t\t}"),
 ("C14","or-returns-boolean","interpreter/interpreter.go","\t\t\tif isTruthy(left) {\n\t\t\t\treturn left, &ControlFlowSignal","\t\t\tif isTruthy(left) {\n\t\t\t\treturn true, &ControlFlowSignal"),
 ("C14","binary-right-before-left","interpreter/interpreter.go","\t\tleft, signal := i.eval(e.Left, env, isRepl)\n\t\tif signal.Type != ControlFlowNone {\n\t\t\treturn nil, signal\n\t\t}\n\t\tif utils.HadRuntimeError {\n\t\t\treturn nil, &ControlFlowSignal{Type: ControlFlowNone, LineNumber: 0}\n\t\t}\n\t\tright, signal := i.eval(e.Right, env, isRepl)","\t\tright, signal := i.eval(e.Right, env, isRepl)\n\t\tif signal.Type != ControlFlowNone {\n\t\t\treturn nil, signal\n\t\t}\n\t\tif utils.HadRuntimeError {\n\t\t\treturn nil, &ControlFlowSignal{Type: ControlFlowNone, LineNumber: 0}\n\t\t}\n\t\tleft, signal := i.eval(e.Left, env, isRepl)"),
 ("C14","empty-string-truthy","interpreter/interpreter.go","\t\treturn str != \"\"","\t\treturn str != \"\" || true"),
 ("C14","index-store-index-before-array","interpreter/interpreter.go","\tcase *ast.ArrayAssignment:\n\t\tarrayValue, signal := i.eval(e.Array, env, isRepl)\n\t\tif signal.Type != ControlFlowNone {\n\t\t\treturn nil, signal\n\t\t}\n\n\t\tindexValue, signal := i.eval(e.Index, env, isRepl)","\tcase *ast.ArrayAssignment:\n\t\tindexValue, signal := i.eval(e.Index, env, isRepl)\n\t\tif signal.Type != ControlFlowNone {\n\t\t\treturn nil, signal\n\t\t}\n\n\t\tarrayValue, signal := i.eval(e.Array, env, isRepl)"),
 ("C15","print-without-newline","interpreter/interpreter.go","\t\t\tfmt.Println(norm.NFC.String(stringify(value)))","\t\t\tfmt.Print(norm.NFC.String(stringify(value)))"),
 ("C15","print-without-nfc","interpreter/interpreter.go","\t\t\tfmt.Println(norm.NFC.String(stringify(value)))","\t\t\tfmt.Println(stringify(value))"),
 ("C15","six-significant-digits","interpreter/interpreter.go","\treturn fmt.Sprintf(\"%v\", value)\n}","\tif f, ok := value.(float64); ok {\n\t\treturn fmt.Sprintf(\"%.6g\", f)\n\t}\n\treturn fmt.Sprintf(\"%v\", value)\n}"),
 ("C15","concat-formats-differently","interpreter/interpreter.go","\tcase int64, float64, string:\n\t\treturn fmt.Sprintf(\"%v\", v), nil","\tcase float64:\n\t\treturn strconv.FormatFloat(v, 'f', -1, 64), nil\n\tcase int64, string:\n\t\treturn fmt.Sprintf(\"%v\", v), nil"),
 ("C16","len-returns-host-int","interpreter/nativeFunctionArray.go","return float64(len(array)), nil","return len(array), nil"),
 ("C16","string-literals-as-rune-slices","lexer/scanner.go","value := string(s.source[s.start+1 : s.current-1])","value := s.source[s.start+1 : s.current-1]"),
 ("C16","bitwise-results-int64-above-1000","interpreter/interpreter.go","if f := float64(v); f < 9223372036854775808.0 && int64(f) == v {","if f := float64(v); f < 1000.0 && int64(f) == v {"),
 ("C16","input-trims-right-only","interpreter/nativeFunction.go","\treturn strings.TrimSpace(input), nil","\treturn strings.TrimRight(input, \" \\n\"), nil"),
 ("C17","round-to-even","interpreter/nativeFunctionMath.go","return math.Round(number), nil","return math.RoundToEven(number), nil"),
 ("C17","pow-arguments-swapped","interpreter/nativeFunctionMath.go","return math.Pow(base, exponent), nil","return math.Pow(exponent, base), nil"),
 ("C17","sqrt-via-pow","interpreter/nativeFunctionMath.go","return math.Sqrt(number), nil","return math.Pow(number, 0.5), nil"),
 ("C17","max-ignores-first-array-element","interpreter/nativeFunctionMath.go","\t// Convert the first argument to a number\n\tmaxValue, err := toNumber(arguments[0])","\tif len(arguments) > 2 {\n\t\targuments = append([]interface{}{arguments[1]}, arguments[1:]...)\n\t}\n\t// Convert the first argument to a number\n\tmaxValue, err := toNumber(arguments[0])"),
 ("C17","min-accepts-empty-array","interpreter/nativeFunctionMath.go","\tif len(arguments) == 0 {\n\t\treturn nil, fmt.Errorf(\"min function expects a non-empty array or list of arguments\")\n\t}","\tif len(arguments) == 0 {\n\t\treturn 0.0, nil\n\t}"),
 ("C18","and-keyword-lexed-as-or","lexer/scanner.go","\t\"এবং\": token.LOGICAL_AND,","\t\"এবং\": token.LOGICAL_OR,"),
 ("C18","grouping-evaluated-twice","interpreter/interpreter.go","\t\treturn i.eval(e.Expression, env, isRepl)","\t\ti.eval(e.Expression, env, isRepl)\n\t\treturn i.eval(e.Expression, env, isRepl)"),
 ("C18","line-comment-swallows-newline","lexer/scanner.go","\t\t\tfor s.peek() != '\\n' && !s.isAtEnd() {\n\t\t\t\ts.advance()\n\t\t\t}","\t\t\tfor !s.isAtEnd() && s.advance() != '\\n' {\n\t\t\t}\n\t\t\tif !s.isAtEnd() {\n\t\t\t\ts.advance()\n\t\t\t}"),
 ("C18","environment-keyed-by-first-two-runes","environment/environment.go","func (e *Environment) Define(name string, value interface{}) {\n\te.Values[name] = value","func (e *Environment) Define(name string, value interface{}) {\n\tif r := []rune(name); len(r) > 12 {\n\t\tname = string(r[:12])\n\t}\n\te.Values[name] = value"),
 ("C19","status-65-70-swapped","main.go","\tif utils.HadError {\n\t\tos.Exit(65)\n\t}\n\tif utils.HadRuntimeError {\n\t\tos.Exit(70)\n\t}","\tif utils.HadError {\n\t\tos.Exit(70)\n\t}\n\tif utils.HadRuntimeError {\n\t\tos.Exit(65)\n\t}"),
 ("C19","runtime-diagnostics-to-stdout","utils/utils.go","fmt.Fprintf(os.Stderr, \"%s\\n[line %d]\\n\", message, token.Line)","fmt.Fprintf(os.Stdout, \"%s\\n[line %d]\\n\", message, token.Line)"),
 ("C19","uppercase-extension-accepted","main.go","\t\tif ext != \".bn\" {","\t\tif ext != \".bn\" && ext != \".BN\" {"),
 ("C19","three-arguments-accepted","main.go","\tif len(os.Args) > 2 {","\tif len(os.Args) > 3 {"),
 ("C19","unreadable-file-exits-0","main.go","\t\tfmt.Fprintf(os.Stderr, \"Error: could not read file '%s': %v\\n\", path, err)\n\t\tos.Exit(1)","\t\tfmt.Fprintf(os.Stderr, \"Error: could not read file '%s': %v\\n\", path, err)\n\t\tos.Exit(0)"),
 ("C20","runtime-flag-not-reset","main.go","\t\tutils.HadRuntimeError = false\n",""),
 ("C20","error-flag-not-reset","main.go","\t\tutils.HadError = false\n",""),
 ("C20","echo-suppressed","interpreter/interpreter.go","\t\tif isRepl && !utils.HadRuntimeError {","\t\tif isRepl && utils.HadRuntimeError {"),
 ("C20","session-ends-after-syntax-error","main.go","\t\trun(line, true)\n","\t\trun(line, true)\n\t\tif utils.HadError {\n\t\t\treturn\n\t\t}\n"),
 ("C20","print-statements-echo-too","interpreter/interpreter.go","\t\t\tfmt.Println(norm.NFC.String(stringify(value)))\n\t\t}\n","\t\t\tfmt.Println(norm.NFC.String(stringify(value)))\n\t\t}\n\t\tif isRepl {\n\t\t\tfmt.Println(stringify(value))\n\t\t}\n"),
]
def sh(*a, **k): return subprocess.run(a, cwd=W, capture_output=True, text=True, **k)
env = dict(os.environ, GOFLAGS="-mod=readonly", GOPROXY="off")
ok = bad = 0
for pid, name, f, old, new in M:
    sh("git", "checkout", "--", ".")
    p = os.path.join(W, f)
    s = open(p, encoding="utf8").read()
    if s.count(old) < 1:
        print("NO MATCH", pid, name); bad += 1; continue
    s = s.replace(old, new, 1)
    open(p, "w", encoding="utf8").write(s)
    # some mutants need an import
    if "fmt.Fprintf(os.Stderr" in new and f == "interpreter/interpreter.go" and '"os"' not in s:
        s = s.replace('import (\n\t"fmt"\n', 'import (\n\t"fmt"\n\t"os"\n', 1); open(p, "w", encoding="utf8").write(s)
    b = subprocess.run(["go", "build", "./..."], cwd=W, capture_output=True, text=True, env=env)
    if b.returncode != 0:
        print("DOES NOT BUILD", pid, name, b.stderr[:300]); bad += 1; continue
    t = subprocess.run(["go", "test", "-count=1", "./..."], cwd=W, capture_output=True, text=True, env=env)
    if t.returncode != 0:
        print("EXISTING TESTS FAIL (not a valid mutant)", pid, name); bad += 1; continue
    d = sh("git", "diff").stdout
    os.makedirs("/verif/mutants/" + pid, exist_ok=True)
    open("/verif/mutants/%s/%s.patch" % (pid, name), "w", encoding="utf8").write(d)
    ok += 1
sh("git", "checkout", "--", ".")
print("patches written:", ok, "rejected:", bad)
