#!/bin/bash
# seedsave.sh <ID> <name> "<needs>" : copy a confirmed seeded change from /tmp/seed/<ID> into /verif/seeded/<name>/
ID=$1; NAME=$2; NEEDS=$3; W=${SEEDROOT:-/tmp/seed}/$ID; D=/verif/seeded/$NAME
mkdir -p $D
cp $W/change.patch $D/patch.diff
for f in DEMO.md demo.bn demo.expected demo.stdin demo.observed_with_change; do [ -f $W/$f ] && cp $W/$f $D/; done
for t in $(cd $W && ls */demo_test.go demo_test.go 2>/dev/null); do mkdir -p $D/$(dirname $t); cp $W/$t $D/$t.txt; done
python3 - "$ID" "$NAME" "$NEEDS" <<'PY'
import json,sys,subprocess
i,name,needs=sys.argv[1:4]
meta={"property":i,"name":name,"breaks":i,"needs_to_manifest":needs,
 "confirmed":"seedconfirm.sh: builds; go test ./... passes with the change; the demonstration output differs with the change and equals the expected output without it",
 "base_commit":subprocess.run(['git','-C','/repo','rev-parse','--short','HEAD'],capture_output=True,text=True).stdout.strip(),
 "detected_by":[]}
json.dump(meta,open('/verif/seeded/%s/meta.json'%name,'w'),indent=1,ensure_ascii=False)
PY
echo saved $D
