#!/bin/bash
# seedconfirm.sh <ID> : confirm a sub-agent's seeded change in its scratch worktree /tmp/seed/<ID>
# (builds, existing tests pass, demonstration fails with the change and passes without it).
ID=$1; W=${SEEDROOT:-/tmp/seed}/$ID
export GOFLAGS=-mod=readonly GOPROXY=off GOSUMDB=off GOTOOLCHAIN=local
cd $W || exit 2
[ -f change.patch ] || { echo "no change.patch"; exit 2; }
git checkout -q -- .
# files the change creates are still lying in the worktree: remove them before applying
for f in $(awk '/^--- \/dev\/null/{getline; sub(/^\+\+\+ b\//,""); print}' change.patch); do rm -f "$f"; done
git apply change.patch || { echo "PATCH DOES NOT APPLY"; exit 2; }
go build ./... || { echo "DOES NOT BUILD"; exit 2; }
echo "== tests with change"; go test -count=1 ./... 2>&1 | grep -v "^---\|^    \|^=== " | tail -4
run_demo() {
  go build -o $W/borno . || return
  if [ -f demo.bn ]; then
    if [ -f demo.stdin ]; then timeout 60 ./borno demo.bn < demo.stdin > $1 2>$1.err; else timeout 60 ./borno demo.bn > $1 2>$1.err < /dev/null; fi; echo "status=$?" >> $1
  elif [ -f demo.stdin ]; then timeout 60 ./borno < demo.stdin > $1 2>&1; echo "status=$?" >> $1
  fi
  for t in $(ls */demo_test.go demo_test.go 2>/dev/null); do go test -count=1 -run Demo ./$(dirname $t) > $1.gotest 2>&1; echo "gotest rc=$?" >> $1; done
}
run_demo ${SEEDROOT:-/tmp/seed}/$ID.with
git apply -R change.patch
run_demo ${SEEDROOT:-/tmp/seed}/$ID.without
git apply change.patch
echo "== demo diff (without vs with):"; diff ${SEEDROOT:-/tmp/seed}/$ID.without ${SEEDROOT:-/tmp/seed}/$ID.with | head -20
if [ -f demo.expected ]; then echo "== expected vs without:"; diff <(grep -v '^status=' ${SEEDROOT:-/tmp/seed}/$ID.without) demo.expected | head -5; fi
