#!/bin/bash
# seedtest.sh <seeded-dir-name> [ID ...] : apply /verif/seeded/<name>/patch.diff to /repo, run the quick checks
# (all 20 when no ID is given), undo.  Prints one line per check.
NAME=$1; shift
P=/verif/seeded/$NAME/patch.diff
[ -f $P ] || { echo "no $P"; exit 2; }
IDS="$@"; [ -z "$IDS" ] && IDS="C01 C02 C03 C04 C05 C06 C07 C08 C09 C10 C11 C12 C13 C14 C15 C16 C17 C18 C19 C20"
git -C /repo checkout -q -- . ; git -C /repo clean -fdq ; git -C /repo apply $P || { echo "PATCH DOES NOT APPLY"; exit 2; }
trap 'git -C /repo checkout -q -- . ; git -C /repo clean -fdq' EXIT
for i in $IDS; do
  out=$(cd /verif && VERIF_TIER_OVERRIDE= ./check $i ${TIER:-quick} 2>&1); rc=$?
  echo "$NAME $i rc=$rc $(echo "$out" | grep -c '^VIOLATION') violation(s) $(echo "$out" | grep '^  check=' | head -1 | cut -c1-160)"
done
