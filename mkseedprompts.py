#!/usr/bin/env python3
"""mkseedprompts.py <wave-dir> <direction-file> : for every property writes <wave-dir>/<ID>.prompt.txt (the task given to
a fresh sub-agent that plays the adversary in its own scratch worktree <wave-dir>/<ID>) and creates that worktree.
The prompt contains the property text, the rules, and the names of the changes already kept for that property."""
import json,os,subprocess,sys
wave,dirfile=sys.argv[1],sys.argv[2]
direction=open(dirfile).read().strip()
base=open('/verif/seedprompt.base.txt').read()
os.makedirs(wave,exist_ok=True)
seeded=sorted(os.listdir('/verif/seeded'))
for l in open('/verif/properties.jsonl'):
    p=json.loads(l); i=p['id']
    w='%s/%s'%(wave,i)
    if not os.path.isdir(w):
        subprocess.run(['git','-C','/repo','worktree','add','-q','--detach',w,'HEAD'],check=True)
    tried=[]
    for d in seeded:
        if d.startswith(i) and os.path.isfile('/verif/seeded/%s/meta.json'%d):
            m=json.load(open('/verif/seeded/%s/meta.json'%d))
            tried.append('  - %s (needs: %s)'%(d.split('-',1)[1].replace('-',' '),m.get('needs_to_manifest','')))
    t=base.replace('@W@',w).replace('@ID@',i).replace('@TITLE@',p['title']).replace('@STATEMENT@',p['statement']).replace('@QUANT@',p['quantifier']['text'])
    t=t.replace('@DIRECTION@',direction.replace('@TRIED@','\n'.join(tried)))
    open('%s/%s.prompt.txt'%(wave,i),'w').write(t)
print('prompts and worktrees in',wave)
