#!/usr/bin/env python3
"""Rewrites seeded/README.md from the meta.json files (fields detected_by_quick_checks_at_first_try,
detected_after_strengthening are filled in by hand / by seedrecord.py after running seedtest.sh)."""
import json, glob, os
rows=[]
for p in sorted(glob.glob('/verif/seeded/*/meta.json')):
    m=json.load(open(p)); name=os.path.basename(os.path.dirname(p))
    first=', '.join(m.get('detected_by_quick_checks_at_first_try',[])) or '— (missed)'
    later='; '.join(m.get('detected_after_strengthening',[]))
    rows.append('| %s | %s | %s | %s |'%(name,m['needs_to_manifest'],first,later))
head='''# Seeded changes

Each directory holds a change to ah-naf/Borno written by an independent sub-agent that saw only the text of one property
and a scratch worktree (nothing from /verif): `patch.diff`, the demonstration (`demo.bn` + `demo.expected`, or `demo.stdin`,
or a `demo_test.go`), the agent's `DEMO.md`, and `meta.json`.  Every change compiles, passes the existing test suite, and was
confirmed in the scratch worktree (`seedconfirm.sh`) to fail its demonstration with the change and pass it without.  None is
ever committed to /repo.  To run the checks against one: `./seedtest.sh <name> [ID ...]` (applies the patch to /repo, runs the
quick checks, undoes it); `./seedall.sh` runs every seed against the check of its own property.

Wave 1 (names `Cxx-…`) asked for any subtle breakage of the property; wave 2 (`Cxxb-…`) asked for a breakage of a different
nature, aimed at a clause the first one did not touch.  "At first try" means: with the checks as they were when the change
arrived (for wave 2 this includes generator widenings made in anticipation, before the change could be applied).

| Seeded change | Needs, to manifest | Quick checks that caught it at first try | Caught after strengthening |
|---|---|---|---|
'''
tail='''

Every miss pointed at a class of inputs the generator did not produce (not at the demonstration input itself), and the
generator was widened for the class; DESIGN.md section 10 lists the widenings.
'''
open('/verif/seeded/README.md','w').write(head+'\n'.join(rows)+tail)
print(len(rows),'seeds')
