#!/bin/bash
# mutest.sh <ID> <sed-expr> <file-in-repo>  : apply a one-line mutation to /repo, run the quick check, revert.
ID=$1; EXPR=$2; FILE=$3
cd /repo && sed -i "$EXPR" "$FILE" && git diff --stat | tail -1
if git diff --quiet; then echo "MUTATION DID NOT APPLY"; exit 3; fi
(cd /repo && GOFLAGS=-mod=readonly GOPROXY=off go build ./... ) || { git -C /repo checkout -- .; echo "MUTANT DOES NOT COMPILE"; exit 3; }
cd /verif && ./check $ID quick | grep -v "^  check=" | cut -c1-300; rc=${PIPESTATUS[0]}
git -C /repo checkout -- .
echo "rc=$rc"
