#!/usr/bin/env python3
"""Regenerates MANIFEST.json from the table below (kept next to the checks so the
manifest stays valid while checks are added)."""
import json, subprocess, os
ROOT = os.path.dirname(os.path.abspath(__file__))

CHECKS = {
 "C07": dict(
  technique="exhaustive operator / built-in / access-form x value-kind matrices with a crash oracle + rapid grammar-based 'wild' programs and semantic seed programs under a deterministic step/depth budget + depth-10000 nesting through the real CLI (+ native coverage-guided fuzzing in the thorough tier)",
  text="Every binary operator x every ordered pair of 48 operand producers, unary operators and pairs of them; all 17 built-ins x 0-3 arguments over every combination of 37 argument producers; 20 index/property/call/statement forms x every ordered pair of 25 values; random syntactically valid programs over every node form (bounded by the step and call-depth budget, so loops and recursion cannot wedge the worker) and programs of every semantic generator and the shipped examples; nesting of parentheses, arrays, blocks, unary operators, call chains, index chains, property chains, if-chains and bounded recursion to depth 10 000 through the CLI. Outcome must be normal end or a reported runtime error; a recovered panic, a dead worker, a Go banner or exit status 2 is a violation. Exploration.",
  note="Open finding excluded by construction and probed on every run: unbounded recursion exhausts the host stack. Printing a self-containing array/object did the same until fix be2ee0a; such prints are now generated on purpose and must end in a runtime error. Budget hits are inconclusive, never violations.",
  ref="4 C07"),
 "C13": dict(
  technique="repetition as schedule sampling: each program is executed N times in one process and M times as fresh processes and all observations must be byte-identical; object-heavy generated programs + all semantic generators + shipped examples; source-order oracle for object-literal initialisers",
  text="Programs with object literals of 2-6 keys whose initialisers are tagged side-effecting probes, key/value listings before and after mutation, diagnostics and prints of nested objects, function values and built-ins; programs from every semantic generator; the shipped examples (clock line removed) with a fixed stdin. N=5/M=3 (quick), N=20/M=6 (thorough) executions each must agree in stdout, outcome and first diagnostic, the CLI must agree with the batch runs, and probe tags must appear in source order — also when a literal repeats a property name (every initialiser runs, in source order). Go randomises the start of every map iteration, so a map-order dependence over k>=3 keys survives 8 agreeing runs with probability <= 0.1 per program and a campaign of hundreds of such programs with negligible probability — sampling, not control. Exploration.",
  note="The harness cannot steer Go's map iteration offsets or memory layout; detection of order dependence is probabilistic (quantified in DESIGN.md). ক্লক is excluded as the property says.",
  ref="4 C13"),
 "C18": dict(
  technique="metamorphic testing with rapid: seed programs from every generator and the shipped examples x six transformation families (alone and combined); the seed and the transformed program must print the same, end the same way and write the same diagnostics (all of them) modulo line numbers and renamed names; layout invariance also for token-damaged, syntactically invalid texts",
  text="(a) blanks, tabs, block comments, and outside ধরি declarations line comments and line breaks between any two tokens; (b) every digit of every numeric literal switched between scripts with probability 1/2; (c) && <-> এবং, || <-> বা; (d) bijective renaming of variable/function/parameter names to fresh Latin or Bangla identifiers (property names and keys stay); (e) redundant parentheses around random value-producing sub-expressions (never an assignment target); (f) never-executed code (if-false, while-false, else of if-true, uncalled functions with arbitrary valid bodies) at statement boundaries. Seeds are clean and failing programs (incl. failing bases under chains of further accesses, which write several diagnostics). A separate sub-check damages a seed at token level (drop, double, swap, replace), writes it on one line and re-lays it out: the diagnostics may differ in line numbers only. 1/4 of the budget per family alone, the full budget for random combinations; a sample also through the CLI. Exploration.",
  note="No model judges the pair. The transformed text is re-parsed with the reference front end; an invalid result is harness trouble (exit 2).",
  ref="4 C18"),
 "C19": dict(
  technique="enumerated command lines, outcome-class matrix and ইনপুট x stdin matrix + rapid programs with a planted fault / syntax error / input call, all through the real executable; oracle = reference front end (65), reference evaluator (stdout, 0 vs 70), exact stream contents",
  text="Command lines with 0, 1, 2, 3 arguments; script names with every kind of extension (.BN, .txt, none, .bn.txt, trailing blank), names with blanks and Bangla letters, .bn alone, missing file, directory named like a script; programs of every outcome class (clean, lexical error, syntax error, runtime error at the C06 positions) with six kinds of text endings; 0-4 ইনপুট calls (bare, prompt, empty prompt, interleaved with prints) against 0-4 stdin lines with and without final newline and with blanks/tabs around the text; stdin lines of 4093-200000 bytes (around 4 KiB, 8 KiB, 64 KiB) with LF and CRLF endings, three fill patterns, as first, second or third line; random skeleton programs with a planted runtime fault, syntax error or input call. Exit status 0/65/70/64/non-zero, stdout exactly the prints and prompts (nothing for rejected texts), stderr empty iff clean. Exploration.",
  note="Trusted: reference front end and evaluator. Permission-denied files cannot be produced (sandbox runs as root). ইনপুট at end of input is unspecified.",
  ref="4 C19"),
 "C20": dict(
  technique="exhaustive short sessions + rapid long sessions fed to the real interactive executable with stdout and stderr on one pipe; fresh-session metamorphic oracle (no model)",
  text="A pool of 22 one-line inputs using only literals and built-ins (prints, bare expressions of several kinds, a block, a function declaration plus call, a declaration, two lexical errors, three syntax errors, five runtime errors, empty and blank lines). Every session of <=2 (quick) / <=3 (thorough) lines and random sessions of 3-60 lines with and without final newline: the response to each line must equal the response to the same line as the only line of a fresh session, the number of prompts is lines+1, end of input exits 0, a bare expression is echoed exactly as দেখাও prints it, a দেখাও line is answered once. Long lines: sessions of 2-5 lines some of which are stretched to 4 KiB - 1 MiB by trailing blanks, a trailing comment, a blank prefix, a long string literal or many statements; every line must still be answered, with the answer known by construction. Repeated failures: one failing line (any pool line, or a function failing 1-3000 activations deep) repeated 1-1000 times, then 1-3 probe lines incl. deep recursion; every line answered as in a fresh session. Exploration.",
  note="The oracle is relational (fresh session vs. later position); it assumes the fresh response itself is sane, which the fresh-responses sub-check examines per line class. Lines of 4 KiB - 1 MiB are covered by the long-lines sub-check (a line over 64 KiB used to end the session silently: fixed finding).",
  ref="4 C20"),
 "C15": dict(
  technique="boundary enumeration + rapid random doubles and strings; oracles: read-back (exact), shortest-digits bound, NFC / canonical-equivalence via x/text/norm and — because the interpreter uses that same library — differentially against Python unicodedata (co-process) and against a library-free canonical ordering for mark runs, metamorphic relation between দেখাও v, \"\" + v, \"p\" + v and v inside arrays/objects",
  text="Each value is printed nine ways (alone, \"\"+v, \"p\"+v, v+\"\", v+\"s\", \"p\"+v+\"s\", [v], {k: v}, nested). Numbers: boundary doubles (+-0, smallest subnormal, 2^53+-1, powers of ten 1e-6..1e23 with both neighbours, 999999/1e6/1e6+1, 1-17 digit runs, non-finite) and random doubles over bit patterns, short decimals and 15-17 digit values; integer-typed bitwise results up to 2^63. The numeral must read back to exactly that double (or be the exact integer), use no more significant digits than the shortest round-trip numeral, be a plain integer below one million; every দেখাও ends in exactly one newline; \"\"+v and \"p\"+v splice character for character what দেখাও prints. Strings: every code point of the Bangla block in four positions, composing sequences, random mixes of Latin/Bangla/marks/spaces/newlines: output must be NFC and canonically equivalent to the source, alone and inside containers. Exploration.",
  note="Trusted: strconv.ParseFloat/FormatFloat for read-back and shortest digits, x/text/unicode/norm. Spelling of non-finite values and container punctuation are not asserted. Open finding vowel-sign-then-composing-mark (the normalisation library composes a mark with a letter across a stand-alone U+09BE / U+09D7) is excluded by construction (strings of that shape are counted and must show exactly the library's form) and probed on every run; the differential sub-check is skipped with a note when no python3 is installed. Open finding overlong-mark-run (more than 30 combining marks in a row get U+034F inserted by the normalisation library) is excluded by construction and probed on every run; runs of combining marks are judged against an NFC form computed without that library.",
  ref="4 C15"),
 "C16": dict(
  technique="purely metamorphic enumeration: context-with-a-hole x value x producer; two programs that differ only in how the same string or number is produced must have identical stdout, outcome class, first diagnostic and line",
  text="281 contexts, each as one line and again with a line break in front of every hole (each operand position of every operator against 7 other operands, unary operators, conditions, logical operators, index read/store, রিমুভ, কি_রিমুভ key, printing alone / in arrays / in objects / nested, property and element stores, concatenation on either side, == and != in one- and two-hole form, every built-in argument position) x 8 strings (empty, plain, numeric-looking in both scripts, blank, nan) x 8-10 string producers (literal, concatenation, property of a literal, element, function result, parameter, assigned property, variable, ইনপুট plain and padded) and x 6 numbers (0, 3, -1, 10^6, 2^53, 12) x 9-15 number producers (literal in both scripts, arithmetic, every bitwise operator, লেন, রাউন্ড, পরমমান, min/max, containers, parameter, function result, variable). Every producer is compared with the literal producer (so all pairs by transitivity). Exhaustive over this product in both tiers.",
  note="No model is involved; the only assumption is that both programs are deterministic (C13).",
  ref="4 C16"),
 "C14": dict(
  technique="exhaustive context x probe-value enumeration + rapid nested expressions whose leaves are side-effecting probes (calls printing a tag, assignments used as expressions), oracle = reference evaluator on the tag trace and the printed result",
  text="Every binary and logical operator spelling x every ordered pair of 18 probe values (every value kind, both truthiness classes, NaN, -0, empty string by literal and by concatenation), every condition/!/logical context x every probe value, 15 three-probe contexts (array and object literals, call arguments, var lists, index read/store, property store, mixed precedence, nested calls) x 64 value triples, store/callee/assignment-order contexts, and random nestings with 2-8 probes: the tag trace must be the left-to-right reading order with each tag once, skipped operands must not appear, logical operators yield the deciding operand itself, and the truthiness table is the same in conditions, ! and logical operators. Exploration.",
  note="Trusted: the reference evaluator (order decisions fixed in DESIGN.md appendix A). Operands are evaluated before an operation fails (calls with a non-callable callee or a wrong argument count, stores on non-containers): asserted since fixed finding K23.",
  ref="4 C14"),
 "C17": dict(
  technique="exhaustive built-in x arity x argument-kind matrix + permutation enumeration for min/max + rapid random doubles, oracle = independent exact computations (sign-bit abs, big.Float-verified sqrt, exact-rational round-half-away), 1-ulp tolerance for pow/sin/cos/tan, metamorphic ঘাত(a,b) == a ** b, clock window",
  text="All 17 built-ins x 0-2 arguments over every combination of 37 argument producers (every kind; +-0, +-0.5, +-1.5, +-2.5, 0.49999999999999994, 2^52+-0.5, 2^53, 1e308, tiny, negative for sqrt, +-Inf, NaN, numeric-looking strings, nested/mixed arrays) and a covering sample of 3-4 arguments; for সর্বনিম্ন/সর্বোচ্চ every triple over 14 representatives (every kind, +-Inf, NaN, -0) in list and single-array form; সর্বনিম্ন/সর্বোচ্চ over every permutation of every subset of <=4 of 5 numbers in list and array form; random doubles for every math function; ক্লক() within 60 s of the harness clock. Wrong count / wrong kind / nothing to compare must be runtime errors with no value printed. Exploration.",
  note="Trusted: math/big, the platform math library as reference for pow/sin/cos/tan (1 ulp). Unspecified: numeric-looking strings, min/max with NaN or zeros of different sign.",
  ref="4 C17"),
 "C11": dict(
  technique="model-based operation histories compiled into programs: complete decision-tree walk for short histories + rapid random histories (3-40 actions) on three arrays with shared ancestry, oracle = pure list model with reference identity, every live array and its লেন printed after every step",
  text="Histories of literal creation (incl. nested arrays), aliasing by assignment / as an element / read back / through a function parameter, indexed read and write (one stored value in four is nil, false, \"\", 0, a void call's result, {}, [] or a function instead of a fresh number), লেন used as a number (arithmetic, as an index, as a loop bound, in ==), এড with 1-3 extras (result kept in a new or existing variable, or dropped) and রিমুভ at every valid index; every history of 2 (quick) / 3 (thorough) actions over a reduced alphabet plus random long ones; 29 faulting operations (negative, too-large, fractional, nil, boolean, string, array indexes for read/write/রিমুভ; built-ins on non-arrays) end a history and must be runtime errors with nothing printed afterwards. The full trace is compared with the model after every step. Exploration.",
  note="Trusted: the reference list model. Container rendering is not pinned: the sequence of scalar renderings is compared. Numeric-looking strings as indexes are unspecified.",
  ref="4 C11"),
 "C12": dict(
  technique="model-based operation histories compiled into programs (decision-tree walk + rapid random histories) on three objects with shared ancestry, oracle = map model with reference identity, plus a model-free check of key/value listing consistency on the actual output",
  text="Histories of literal creation with 0-6 keys (nested objects/arrays), aliasing by assignment / nesting / parameter, property read, write to new and existing keys (one stored value in four is nil, false, a void call's result, 0, true, a string or 0.5), কি_রিমুভ with literal and computed keys, key/value listings (each twice in a row); after every step every live object, its key list and its value list are printed. The trace is compared with the map model (listings as multisets), and independently the i-th listed value must be the value of the i-th listed key in the printed object, no key twice, consecutive listings identical. 26 faulting operations (absent key, '.' on every non-object kind, কি_রিমুভ misuse, listings of non-objects) must be runtime errors with nothing after. Exploration.",
  note="Trusted: the reference map model; object rendering is compared as a multiset of keys and scalar values. Self-containing objects are not generated (printing them is open finding K13 of C07).",
  ref="4 C12"),
 "C03": dict(
  technique="complete decision-tree walk of a scope-program generator (small scope) + rapid random programs over deliberately colliding names, oracle = independent scope-chain model; values unique per declaration/assignment so the value read identifies the binding",
  text="Programs over variables {a,b,c} with declarations, assignments, reads, blocks, if, bounded while, for loops whose variable comes from the colliding pool, function declarations with colliding parameters/locals, calls from scopes holding same-named locals, closures escaping their block. Every program the generator derives for two top-level statements within a construct bound is executed, plus random programs up to 40 constructs; complete stdout, outcome, and for the first redeclaration / undefined read / undefined assign the line and the name in the message are compared with the model. Programs where static and dynamic resolution differ are discarded (counted) as the property prescribes. Exploration.",
  note="Trusted: the reference scope model (block, for-header, activation, closure chain, program scope, globals).",
  ref="4 C03"),
 "C06": dict(
  technique="exhaustive fault-kind x syntactic-position product + rapid control skeletons with one planted fault, oracle = reference evaluator (expected stdout prefix, kind class, line) checked in batch mode with a deterministic step budget and through the real CLI (exit status 70, stderr, termination)",
  text="35 faulting expressions of 9 kinds (undefined name, type mismatch, zero divisor, bad index read/write, missing property / non-object, non-callable, arity, failing built-in) x 45 syntactic positions (top level, nested block, if/else arms, if/while/for conditions, for initialiser/increment, bodies of while(true) and for(;;), function bodies, nested calls, arguments, array/object elements, operands, right side of logical operators, index, callee, return value) plus redeclaration, scope-exit and stray break/continue/return statements in 8 positions (top level, block, if/else arm, function body, if arm in a function, function called from a loop, function called inside an expression), each in a multi-line program that prints before and after and then calls ইনপুট(\"PROMPT\") and loops; fault-free variants; random skeletons with a fault planted at a random trace point. stdout must be exactly the output up to the fault (no prompt), the first diagnostic must be of the right kind class and name the fault's line, the run must end within 50N+1e5 evaluation steps (N = model steps) and the CLI must exit 70 (0 with empty stderr when fault-free). Exploration.",
  note="Trusted: reference evaluator; kind classes are lenient patterns (DESIGN.md section 3), wording is not compared. CLI is run for a sample in quick, for every case in thorough.",
  ref="4 C06"),
 "C04": dict(
  technique="exhaustive callee x argument-count matrix and return-skeleton decision-tree walk + rapid return skeletons and closure call histories, oracle = independent reference evaluator (activations, closures by reference), compared after every step",
  text="Every callee form (functions of 0-3 parameters, built-ins, every non-callable kind, calls through variables/arrays/properties) x 0-4 arguments; recursion templates (direct, mutual, self-application, through loops) to depth 200; every function body the skeleton generator derives (returns at every nesting depth of block/if/else/while/for with code after them) within a construct bound, plus random larger ones; random histories that create 1-3 instances of a counter factory and interleave calls on sibling closures reached through variables, arrays, properties and fresh calls. The complete stdout, outcome and diagnostic line are compared with the reference evaluator. Exploration.",
  note="Trusted: the reference evaluator. Outside the generators (undocumented): local declaration named like its function, assignment to the function's own name inside its body, redeclaring a function name. A break/continue that reaches the end of a function body is a stray-control runtime error (fixed finding K18).",
  ref="4 C04"),
 "C05": dict(
  technique="complete walk of the control-skeleton generator's decision tree (small scope) + rapid random skeletons, oracle = reference evaluator on the full trace of printed points; stray-signal matrix",
  text="Programs nest if/else, while, for (all clause combinations, with tagged probes making initialiser/condition/body/increment order visible), blocks, break and continue; every loop owns a counter so every program terminates. Every skeleton derivable with <=2 (quick) / <=3 (thorough) constructs is executed, plus random skeletons up to 25 constructs; the complete trace, outcome class, diagnostic kind and line are compared with the reference evaluator; stray break/continue/return at top level (bare, in blocks, in if arms) and stray break/continue in function bodies (also when the caller sits in a loop) must be runtime errors naming their line. Exploration.",
  note="Trusted: the reference evaluator. Conditions range over every truthy/falsy constant kind.",
  ref="4 C05"),
 "C02": dict(
  technique="exhaustive operator x operand-producer matrix + rapid nested expressions, oracle = independent reference evaluator (IEEE double arithmetic, exact-rational modulo, big-integer powers, 64-bit bitwise), equality laws checked relationally",
  text="Every binary operator x every ordered pair of 48 operand producers (all value kinds; boundary magnitudes +-0, 0.5, 63/64/65, 2^31, 2^53, 2^63, 1e308, +-Inf, NaN; integer-typed bitwise results; numeric-looking strings) and every unary operator x producer is run through the real interpreter and compared with the reference evaluator on stdout, outcome class and diagnostic line; symmetry/negation/reflexivity of == and != are checked on every unordered pair without the model; random nested expressions to depth 5 over the pool and random doubles. Exploration: the matrix is exhaustive, nesting is sampled.",
  note="Trusted: the reference evaluator's operator table, math/big; pow compared within 1 ulp of the platform library unless the result is an exactly representable integer power. Unspecified by the properties and therefore not asserted: numeric-looking strings under numeric operators, equality of distinct containers, integral operands outside int64 under bitwise operators.",
  ref="4 C02"),
 "C01": dict(
  technique="exhaustive enumeration of operator adjacencies, else-attachments and short accepted token sequences + rapid random syntax trees; oracles: differential against a reference precedence-climbing parser, full-paren and ladder-minimal round trips, metamorphic parenthesisation on program output",
  text="Every sequence of <=3 adjacent operator items (17 binary, both spellings of the logical operators, =, 3 prefix, 4 postfix forms), every sequence of <=6/<=8 statement fragments around if/else/while/for/blocks, every accepted token sequence of <=5/<=6 tokens over a 42-token alphabet, and random trees to depth 8 are parsed by the real parser; the tree (walked through exported node fields) must equal the tree the documented ladder prescribes, and must survive being written out with full and with ladder-minimal parentheses; arithmetic programs must print the same with and without ladder-agreeing parentheses. Exploration: exhaustive inside the stated bounds, sampled beyond.",
  note="Trusted: the reference parser (table-driven precedence climbing written from grammer.txt) and printers; a printer/reference disagreement is reported as harness trouble (exit 2), never as a violation. Object-literal key order is not compared (the tree keeps keys in a map).",
  ref="4 C01"),
 "C08": dict(
  technique="exhaustive enumeration of fragment strings and of every viable token prefix extended by every token + rapid token-level edits of valid programs + boundary texts; oracle: reference lexer + reference viable-prefix recogniser (accept/reject, line of first non-viable token), nothing-runs checked on stdout/exit status",
  text="Every concatenation of <=3/<=4 lexical fragments (60-fragment alphabet), every token sequence of <=5/<=6 tokens whose proper prefixes are viable (one line and one token per line), random valid programs with 0-3 token edits re-laid over lines, and boundary texts (254-300 parameters, 1000 arguments, every built-in name in every declaring position, nesting depth 10 000) are fed to the real lexer+parser in-process: no panic, diagnostic <=> error flag, accepted <=> derivable, first diagnostic on the line of the first non-viable token; rejected texts with a runnable prefix must print nothing (batch and CLI, exit 65). Exploration.",
  note="Trusted: reference lexer and recogniser. Out of domain as the property says: declarations spanning a line break, trailing comma in object literals. A front-end hang would surface as exit 2 (deadline), not as a violation.",
  ref="4 C08"),
 "C10": dict(
  technique="exhaustive enumeration of code points and short literals + rapid generation of long / halfway / threshold literals, oracle = exact rational arithmetic (math/big), script-swap metamorphic relation, print read-back",
  text="Every Unicode scalar value is transliterated (alone and embedded) and classified; every literal of <=4 (quick) / <=6 (thorough) digits with every point position in ASCII, Bangla and all mixtures is lexed and compared bit for bit with the nearest double of its exact rational value; random literals up to 400+1100 digits including exact midpoints between adjacent doubles and their neighbours, subnormals and the overflow threshold; a sample is printed through the real interpreter and read back. Exploration: exhaustive within the bounds, sampled beyond.",
  note="Trusted: math/big (Rat.Float64 rounding), strconv.ParseFloat only for reading printed numerals back, Go float formatting is not asserted beyond read-back.",
  ref="4 C10"),
 "C09": dict(
  technique="exhaustive small-scope enumeration + rapid random texts, differential against a reference maximal-munch lexer plus directly stated token-list invariants",
  text="Every string of <=4 (quick) / <=5 (thorough) characters over an alphabet holding every operator character, both digit scripts, letters, marks, quotes, comment characters, blanks and stray characters; every Unicode scalar value alone and embedded; every concatenation of <=3/<=4 lexical fragments; plus random long texts. Each is lexed by the real scanner and compared token by token (type, lexeme, literal, line) and diagnostic by diagnostic with an independent reference lexer, and the partition/line/keyword/string-value invariants are checked directly. Exploration: exhaustive inside the stated bounds, sampled beyond.",
  note="Trusted: Go's unicode tables (letter/mark classes), math/big for decimal->double, the reference lexer written from the property text. Diagnostic wording is not compared, only count, error flag and line.",
  ref="4 C09"),
}

PENDING_REASON = "check not built yet in this round (designed in DESIGN.md section 4; property-based testing applies)"

def main():
    props = [json.loads(l) for l in open(os.path.join(ROOT, "properties.jsonl"))]
    hooks_commits = subprocess.run(["git", "-C", "/repo", "log", "--format=%H %s"], capture_output=True, text=True).stdout.splitlines()
    src = [l.split()[0] for l in hooks_commits if "verif hook" in l]
    checks, na = [], []
    for p in props:
        i = p["id"]
        if i in CHECKS:
            c = CHECKS[i]
            checks.append({
                "property_id": i,
                "quick_cmd": f"./check {i} quick",
                "thorough_cmd": f"./check {i} thorough",
                "evidence_file": f"/verif/evidence/{i}.json",
                "replay_cmd_template": f"./check {i} quick --replay {{path}}",
                "engine": "harness",
                "level_claimed": {"category": "exploration", "text": c["text"], "design_ref": "DESIGN.md section " + c["ref"]},
                "level_note": c["note"],
                "technique": c["technique"],
            })
        else:
            na.append({"property_id": i, "reason": PENDING_REASON})
    m = {
        "version": 1,
        "setup_cmd": "./setup.sh",
        "hooks": {
            "guard": "verif",
            "enable": "go build -tags verif (the driver builds /repo's CLI and the harness with -tags verif; hooks: main_verif.go batch mode, interpreter/verif_on.go step/depth budget, two inserted call lines)",
            "baseline_off_cmd": "cd /repo && GOFLAGS=-mod=readonly GOPROXY=off go test -vet=off -count=1 ./...",
            "source_commits": src,
            "add_only": True,
        },
        "engines": [{"name": "harness", "path": "/verif/harness", "serves_properties": [c["property_id"] for c in checks],
                     "kind_free_text": "Go module: pgregory.net/rapid v1.3.0 property-based generators + small-scope exhaustive enumeration + native go fuzzing, with an independent reference lexer/parser/evaluator and metamorphic oracles; driver cmd/driver shards one check over processes and merges evidence"}],
        "checks": checks,
        "not_applicable": na,
        "notes": "All checks: exit 0 held / 1 VIOLATION (replay saved under /verif/found/<ID>/) / 2 inconclusive (harness trouble, never a violation). KNOWN_FINDINGS.txt lists open findings (excluded by construction, probed on every run) and fixed ones.",
    }
    if not na:
        del m["not_applicable"]
    json.dump(m, open(os.path.join(ROOT, "MANIFEST.json"), "w"), indent=1, ensure_ascii=False)
    print("checks:", len(checks), "not_applicable:", len(na))

main()
