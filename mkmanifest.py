#!/usr/bin/env python3
"""Regenerates MANIFEST.json from the table below (kept next to the checks so the
manifest stays valid while checks are added)."""
import json, subprocess, os
ROOT = os.path.dirname(os.path.abspath(__file__))

CHECKS = {
 "C10": dict(
  technique="exhaustive enumeration of code points and short literals + rapid generation of long / halfway / threshold literals, oracle = exact rational arithmetic (math/big), script-swap metamorphic relation, print read-back",
  text="Every Unicode scalar value is transliterated (alone and embedded) and classified; every literal of <=4 (quick) / <=6 (thorough) digits with every point position in ASCII, Bangla and all mixtures is lexed and compared bit for bit with the nearest double of its exact rational value; random literals up to 400+1100 digits including exact midpoints between adjacent doubles and their neighbours, subnormals and the overflow threshold; a sample is printed through the real interpreter and read back. Exploration: exhaustive within the bounds, sampled beyond.",
  note="Trusted: math/big (Rat.Float64 rounding), strconv.ParseFloat only for reading printed numerals back, Go float formatting is not asserted beyond read-back.",
  ref="4 C10"),
 "C09": dict(
  technique="exhaustive small-scope enumeration + rapid random texts, differential against a reference maximal-munch lexer plus directly stated token-list invariants",
  text="Every string of <=4 (quick) / <=5 (thorough) characters over an alphabet holding every operator character, both digit scripts, letters, marks, quotes, comment characters, blanks and stray characters; every Unicode scalar value alone and embedded; every concatenation of <=3/<=4 lexical fragments; plus random long texts. Each is lexed by the real scanner and compared token by token (type, lexeme, literal, line) and diagnostic by diagnostic with an independent reference lexer, and the partition/line/keyword/string-value invariants are checked directly. Exploration: exhaustive inside the stated bounds, sampled beyond.",
  note="Trusted: Go's unicode tables (letter/mark classes), math/big for decimal->double, the reference lexer written from the property text. Diagnostic wording is not compared, only count, error flag and line.",
  ref="4 C09"),
}

PENDING_REASON = "check not built yet in this round (designed in DESIGN.md section 4; property-based testing applies)"

def main():
    props = [json.loads(l) for l in open(os.path.join(ROOT, "properties.jsonl"))]
    hooks_commits = subprocess.run(["git", "-C", "/repo", "log", "--format=%H %s"], capture_output=True, text=True).stdout.splitlines()
    src = [l.split()[0] for l in hooks_commits if "verif hook" in l]
    checks, na = [], []
    for p in props:
        i = p["id"]
        if i in CHECKS:
            c = CHECKS[i]
            checks.append({
                "property_id": i,
                "quick_cmd": f"./check {i} quick",
                "thorough_cmd": f"./check {i} thorough",
                "evidence_file": f"/verif/evidence/{i}.json",
                "replay_cmd_template": f"./check {i} quick --replay {{path}}",
                "engine": "harness",
                "level_claimed": {"category": "exploration", "text": c["text"], "design_ref": "DESIGN.md section " + c["ref"]},
                "level_note": c["note"],
                "technique": c["technique"],
            })
        else:
            na.append({"property_id": i, "reason": PENDING_REASON})
    m = {
        "version": 1,
        "setup_cmd": "./setup.sh",
        "hooks": {
            "guard": "verif",
            "enable": "go build -tags verif (the driver builds /repo's CLI and the harness with -tags verif; hooks: main_verif.go batch mode, interpreter/verif_on.go step/depth budget, two inserted call lines)",
            "baseline_off_cmd": "cd /repo && GOFLAGS=-mod=readonly GOPROXY=off go test -vet=off -count=1 ./...",
            "source_commits": src,
            "add_only": True,
        },
        "engines": [{"name": "harness", "path": "/verif/harness", "serves_properties": [c["property_id"] for c in checks],
                     "kind_free_text": "Go module: pgregory.net/rapid v1.3.0 property-based generators + small-scope exhaustive enumeration + native go fuzzing, with an independent reference lexer/parser/evaluator and metamorphic oracles; driver cmd/driver shards one check over processes and merges evidence"}],
        "checks": checks,
        "not_applicable": na,
        "notes": "All checks: exit 0 held / 1 VIOLATION (replay saved under /verif/found/<ID>/) / 2 inconclusive (harness trouble, never a violation). KNOWN_FINDINGS.txt lists open findings (excluded by construction, probed on every run) and fixed ones.",
    }
    if not na:
        del m["not_applicable"]
    json.dump(m, open(os.path.join(ROOT, "MANIFEST.json"), "w"), indent=1, ensure_ascii=False)
    print("checks:", len(checks), "not_applicable:", len(na))

main()
