#!/bin/bash
# seedall.sh : run every seeded change against the quick check of its own property; prints one line per seed.
cd /verif
for d in seeded/*/; do n=$(basename $d); id=${n:0:3}; ./seedtest.sh $n $id; done
